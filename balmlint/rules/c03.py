"""C03 -- every complete expansion strategy finds exactly the minimal trap spaces (pruning guards, skip edges, block choice)."""

from __future__ import annotations

import ast

from .. import logic
from ..program import FuncModel, call_arg
from ..report import Check
from ..repo import AnalysisError, dotted, own_walk, text
from .common import paths_imply, dom_pc_canon, frame_pushes, schedule_nodes, unwrap_order, SD_MOD, GrowthModel, callee_name, fresh_diagrams, is_empty_list, is_false, is_none, is_true

ALG = "biobalm._sd_algorithms."

EXPLANATION = (
    "(G) pruning-guard rule, one engine for all drivers: the successor list is the value of node_successors(n, "
    "compute=True); every way an element can leave it without being scheduled -- a pop whose value is not pushed, a "
    "`continue` in the per-node loop before its successors are enqueued, a `for` over the list whose body does not "
    "enqueue -- is collected with its path condition (plain-text atoms, decided by truth table) and must imply one of "
    "the driver's permitted reasons: already seen; (minimal-space) no uncovered minimal trap space lies under the "
    "current node, with the uncovered list shrunk only by exact matches of expanded minimal nodes; (attractor-seed) an "
    "empty, constant-limit>=1 enumeration over the successor's own net avoiding only motifs of expanded siblings; "
    "(target) the node is disjoint from the target or strictly inside it; (block) the node is already expanded; a path that abandons successors under a limit must make "
    "the driver return False, and a successor list truncated at the motif limit must never be expanded (engines of "
    "C15-E3/E5). "
    "(K) skip edges: at every site that marks a node skipped, the trap list comes from trappist(problem='min') without "
    "limit/avoidance on the node's (or root's) own net joined with that space, the loop ranges over the whole list, and "
    "a membership guard, if present, is exactly is_subspace(minimal trap, node space) in that argument order. "
    "(B) block choice: a block is dropped iff another block is a strict subset of it; the nodes that enter the next "
    "level are the chosen block's nodes or all successors."
)
ASSUMPTIONS = [
    "independence of minimal blocks and the source-SCC sequencing argument (mathematics of the method)",
    "the final `assert len(minimal_traps) == 0` of the minimal-space expansion is a run-time cross-check, not analysed",
]

DFS_DRIVERS = {
    ALG + "expand_dfs:expand_dfs": set(),
    ALG + "expand_minimal_spaces:expand_minimal_spaces": {"NOUNCOVERED"},
    ALG + "expand_attractor_seeds:expand_attractor_seeds": {"NOSEEDS"},
}
LEVEL_DRIVERS = {
    ALG + "expand_bfs:expand_bfs": set(),
    ALG + "expand_to_target:expand_to_target": {"DISJOINT", "INSIDE"},
    ALG + "expand_source_blocks:expand_source_blocks": {"EXPANDED"},
}


def run(ck: Check) -> None:
    g_dfs(ck, "G")
    g_level(ck, "G")
    g_returns(ck, "G")
    from . import c15
    from .c02 import _Alias
    c15.e3(_Alias(ck, "E3", "G"))  # an expansion that abandons work must not report completion
    c15.e5(_Alias(ck, "E5", "G"))  # a truncated successor list must not be expanded
    skip_edges(ck, "K")
    blocks(ck, "B")
    asserts(ck, "A")
    wrappers(ck, "W")
    ck.floor("W", 7)
    ck.floor("A", 5)
    ck.floor("G", 24)
    ck.floor("K", 3)
    ck.floor("B", 3)


def wrappers(ck: Check, rule: str, only: tuple[str, ...] | None = None) -> None:
    """The public expansion methods are thin wrappers: every normal return of the method hands back the result of the
    strategy it stands for, run on this diagram. A shortcut that returns without running the strategy reports a
    completeness that nobody established."""
    prog = ck.prog
    n_ = 0
    for fm in prog.models():
        f = fm.f
        if f.cls != "SuccessionDiagram":
            continue
        algo = []
        for c in own_walk(f.node):
            if isinstance(c, ast.Call):
                tgt = prog.repo.resolve_call(f, c)
                if tgt and tgt.startswith("biobalm._sd_algorithms.") and tgt.split(":")[1].startswith("expand_"):
                    algo.append((c, tgt))
        if not algo or (only and f.name not in only):
            continue
        n_ += 1
        probs = []
        calls = {fm.cfgn(c).id: c for c, _ in algo}
        for r in own_walk(f.node):
            if not isinstance(r, ast.Return):
                continue
            rn = fm.cfgn(r)
            v = fm.deref(r.value, rn) if r.value is not None else None
            if v is not None and any(v is c for c, _ in algo):
                continue
            # a return of something else must at least come after the strategy ran
            reach = fm.cfg.reach_avoiding(fm.cfg.entry, [fm.cfg.nodes[i] for i in calls], forward_from_succ=True)
            if rn.id in reach:
                probs.append(f"line {r.lineno}: `{text(r)[:50]}` is reached without running "
                             f"{'/'.join(sorted({t.split(':')[1] for _, t in algo}))}: the method reports a result (completion) "
                             f"that the strategy never established")
            elif r.value is None or not isinstance(v, ast.Call):
                probs.append(f"line {r.lineno}: the method returns `{text(r.value) if r.value is not None else None}`, not the "
                             f"result of the strategy")
        for c, tgt in algo:
            a0 = call_arg(c, 0, "sd")
            if a0 is None or text(a0) != "self":
                probs.append(f"line {c.lineno}: the strategy runs on `{text(a0) if a0 is not None else '?'}`, not on this diagram")
        ck.ob(rule, fm, f.node, not probs, "; ".join(probs) if probs else
              f"every return hands back {algo[0][1].split(':')[1]}(self, ...)", key=f"wrapper {f.name}")
    if not n_:
        raise AnalysisError("anchor vanished: expansion wrappers of SuccessionDiagram")


def asserts(ck: Check, rule: str) -> None:
    """Work that a strategy needs for completeness is not done inside an assert statement: with assertions disabled
    (python -O) the statement, and the expansion in it, disappears while the driver still reports completion."""
    prog = ck.prog
    for fm in prog.models():
        for n in own_walk(fm.f.node):
            if not isinstance(n, ast.Assert):
                continue
            calls = [c for c in ast.walk(n.test) if isinstance(c, ast.Call)]
            if not calls:
                continue
            bad = []
            for c in calls:
                tgt = prog.repo.resolve_call(fm.f, c)
                w = set()
                if tgt and not tgt.startswith("ext:"):
                    w = {x for x in prog.heap_writes_call(fm.f, c)}
                d = dotted(c.func) or ""
                if w or d.endswith(("dag.add_node", "dag.add_edge")) or (isinstance(c.func, ast.Attribute) and c.func.attr in
                                                                         ("append", "add", "remove", "pop", "update", "extend", "clear")):
                    bad.append(f"`{text(c)[:60]}` (writes {', '.join(sorted(w))[:60] or 'its receiver'})")
            ck.ob(rule, fm, n, not bad, "assertion only reads" if not bad else
                  f"the assertion performs {'; '.join(bad)}: with `python -O` this work is skipped and the diagram stays "
                  f"incomplete although the caller reports completion")


def pc_text(fm: FuncModel, n, within=None):
    tr = logic.Translator(lambda e: text(e))
    fs = []
    for test, pol, b in fm.facts(n):
        if within is not None and b.id not in within:
            continue
        f = tr.f(test)
        fs.append(f if pol else logic.Not(f))
    return logic.And(*fs)


def dom_pc_text(fm: FuncModel, n, within=None):
    """Like pc_text but from dominating branch nodes regardless of staleness (the condition under which the
    statement is reached, as evaluated at the tests)."""
    tr = logic.Translator(lambda e: text(e))
    fs = []
    for b in fm.cfg.dominators(n):
        if b.kind != "branch" or b.test is None:
            continue
        if within is not None and b.id not in within:
            continue
        f = tr.f(b.test)
        fs.append(f if b.pol else logic.Not(f))
    return logic.And(*fs)


def g_returns(ck: Check, rule: str) -> None:
    """Completion (`return True`) is reported only after the work list of the driver ran empty: every `return True`
    lies behind the exhausted edge of the main loop."""
    prog = ck.prog
    for key in list(DFS_DRIVERS) + list(LEVEL_DRIVERS):
        if key not in prog.repo.functions:
            continue
        fm = prog.model(prog.repo.functions[key])
        f = fm.f
        mains = [n for n in f.node.body if isinstance(n, ast.While)
                 and any(isinstance(c, ast.Call) and callee_name(c) == "node_successors" for c in ast.walk(n))]
        if len(mains) != 1:
            continue
        hdr = fm.cfg.loop_header[mains[0]]
        done = [fm.cfg.nodes[s_] for s_ in fm.cfg.g.successors(hdr.id) if fm.cfg.nodes[s_].kind == "branch" and not fm.cfg.nodes[s_].pol]
        for r in own_walk(f.node):
            if isinstance(r, ast.Return) and is_true(r.value):
                rn = fm.cfgn(r)
                ok = bool(done) and any(d_ in fm.cfg.dominators(rn) for d_ in done)
                ck.ob(rule, fm, r, ok, "completion reported after the work list ran empty" if ok else
                      "`return True` is reachable without the work list having been processed to the end: the expansion reports "
                      "completion although nodes (stubs left by an earlier call) may still be unexpanded")


# ------------------------------------------------------------------------------------------ G (stack drivers)
def g_dfs(ck: Check, rule: str) -> None:
    prog = ck.prog
    for key, extra in DFS_DRIVERS.items():
        if key not in prog.repo.functions:
            raise AnalysisError(f"anchor vanished: {key}")
        fm = prog.model(prog.repo.functions[key])
        f = fm.f
        # the frame pop and the successor list variable
        outer = [n for n in f.node.body if isinstance(n, ast.While)]
        outer = [w for w in outer if any(isinstance(c, ast.Call) and callee_name(c) == "node_successors" for c in ast.walk(w))]
        if len(outer) != 1:
            raise AnalysisError(f"anchor vanished: main loop of {f.qualname}")
        loop = outer[0]
        ids = fm.cfg.loop_nodes[loop]
        fp = next((s for s in loop.body if isinstance(s, ast.Assign) and isinstance(s.targets[0], ast.Tuple)
                   and isinstance(s.value, ast.Call) and callee_name(s.value) == "pop"), None)
        if fp is None:
            raise AnalysisError(f"anchor vanished: frame pop of {f.qualname}")
        cur, L = [text(t) for t in fp.targets[0].elts]
        # the list is the complete successor list of the current node (reordering / copying wrappers allowed)
        defs = [n for n in ast.walk(loop) if isinstance(n, (ast.Assign, ast.AnnAssign)) and n is not fp and n.value is not None
                and text(n.targets[0] if isinstance(n, ast.Assign) else n.target) == L]
        probs = []

        def src_of(d):
            e = unwrap_order(d.value)
            if isinstance(e, ast.Name) and e.id != L:
                e = unwrap_order(fm.deref(e, fm.cfgn(d)))      # through a plain local (left behind by an inlined helper)
            return e if isinstance(e, ast.Call) and callee_name(e) == "node_successors" else None

        def is_src(e):
            return any(d.value is e and src_of(d) is not None for d in defs)
        # a definition that no use of the list can see (a failure marker right before leaving) does not count
        loads = [x for x in ast.walk(loop) if isinstance(x, ast.Name) and x.id == L and isinstance(x.ctx, ast.Load)]

        def dead(d) -> bool:
            dn = fm.cfgn(d)
            for x in loads:
                try:
                    if dn in fm.cfg.reaching_defs(L, fm.cfgn(x)):
                        return False
                except AnalysisError:
                    return False
            return True
        defs = [d for d in defs if not (is_none(d.value) and dead(d))]
        srcs = [d for d in defs if src_of(d) is not None]
        sc = src_of(srcs[0]) if srcs else None
        if len(srcs) != 1 or text(sc.args[0]) != cur or not is_true(call_arg(sc, 1, "compute")):
            probs.append("the successor list is not node_successors(current node, compute=True)")
        for d in defs:
            if d in srcs:
                continue
            inner = unwrap_order(d.value)
            if not (isinstance(inner, ast.Name) and inner.id == L and inner is not d.value):
                probs.append(f"line {d.lineno}: successor list rewritten as `{text(d.value)[:50]}` (elements may be lost)")
        ck.ob(rule, fm, loop, not probs, "; ".join(probs) if probs else "frame list = all successors of the current node",
              key="successor list")
        # a frame that is visited for the first time (no successor list yet) gets its successors computed -- which is what
        # expands the node -- before the loop turns to the next frame; leaving it alone leaves a stub behind
        if srcs:
            from .c13 import _within as _w13
            src_n = fm.cfgn(srcs[0])
            first_visit = [b_ for b_ in fm.cfg.nodes if b_.kind == "branch" and b_.test is not None and b_.id in ids
                           and isinstance(b_.test, ast.Compare) and len(b_.test.ops) == 1 and text(b_.test.left) == L
                           and is_none(b_.test.comparators[0])
                           and ((isinstance(b_.test.ops[0], ast.Is) and b_.pol) or (isinstance(b_.test.ops[0], ast.IsNot) and not b_.pol))]
            hdr_ = fm.cfg.loop_header[loop]
            for b_ in first_visit:
                skipped = hdr_.id in _w13(fm, loop, b_, {src_n.id})
                ck.ob(rule, fm, b_.stmt if getattr(b_, "stmt", None) is not None else loop, not skipped,
                      "a frame without successor list always gets one (the node is expanded)" if not skipped else
                      f"a frame whose successors were never computed can be dropped (`continue` before "
                      f"node_successors({cur}, compute=True)): the node stays an unexpanded stub although the search reports "
                      f"completion", key="first visit computes the successors")
        seen = _seen_name(fm, loop)
        _seen_init(ck, rule, fm, loop, seen)
        # every pop of L
        for n in ast.walk(loop):
            if not (isinstance(n, ast.Call) and isinstance(n.func, ast.Attribute) and n.func.attr == "pop"
                    and text(n.func.value) == L):
                continue
            st = f.stmt_of(n)
            cn = fm.cfgn(n)
            scheduled = False
            if isinstance(st, ast.Assign) and isinstance(st.targets[0], ast.Name):
                v = st.targets[0].id
                # pushed as a fresh frame on every path from here to the next iteration?
                pushes = schedule_nodes(fm, loop, v, {seen} if seen else set())
                if pushes:
                    from .c13 import _within
                    hdr = fm.cfg.loop_header[loop].id
                    scheduled = hdr not in _within(fm, loop, cn, {p.id for p in pushes})
                    lim_b = set()
                    if not scheduled:
                        # the element may be drawn before the limit test: the ways to the next iteration that pass no push all go
                        # through a taken limit test (abandoning under a limit is judged by the rule about the returned flag)
                        from .c15 import _limit_params, _mentions_limit
                        lims = _limit_params(fm)
                        lim_b = {b_.id for b_ in fm.cfg.nodes if b_.kind == "branch" and b_.test is not None and b_.pol
                                 and b_.id in fm.cfg.loop_nodes[loop] and _mentions_limit(b_.test, lims)}
                        if lim_b and hdr not in _within(fm, loop, cn, {p.id for p in pushes} | lim_b):
                            scheduled = True
                    if scheduled:
                        # the rest of the list stays on the stack with its node
                        fps = frame_pushes(fm, loop, cur, L)
                        kept = bool(fps) and hdr not in _within(fm, loop, cn, {p.id for p in fps} | lim_b)
                        ck.ob(rule, fm, st, kept, "the remaining successors stay on the stack" if kept else
                              f"after `{text(st)}` the frame ({cur}, {L}) is not pushed back on every path: the remaining "
                              f"successors of `{cur}` are never visited", key=f"frame kept after {text(st)}")
            if scheduled:
                ck.ob(rule, fm, st, True, "popped successor is scheduled")
                continue
            pc = dom_pc_canon(fm, cn, ids)
            allowed = [logic.B(f"in:{L}[-1]|{seen}")] if seen else []
            allowed += _extra_reasons(fm, loop, L, cur, extra, ck, rule)
            want = logic.Or(*allowed) if allowed else logic.FALSE
            try:
                ok = logic.implies(pc, want)
            except logic.TooBig:
                ok = False
            ck.ob(rule, fm, st, ok, "successor dropped only for a permitted reason" if ok else
                  f"a successor is discarded unvisited under `{logic.show(pc)[:200]}`, which does not imply a permitted "
                  f"reason ({' | '.join(logic.show(a)[:80] for a in allowed) or 'none'}): trap spaces below it are never "
                  f"explored although the expansion reports completion")
        # the code that schedules successors can run: every push of a new frame has a satisfiable path condition (a test forced
        # to a constant in front of it makes all the obligations above hold vacuously)
        new_pushes = [c_ for c_ in ast.walk(loop) if isinstance(c_, ast.Call) and isinstance(c_.func, ast.Attribute) and c_.func.attr == "append"
                      and c_.args and isinstance(c_.args[0], ast.Tuple) and len(c_.args[0].elts) == 2 and is_none(c_.args[0].elts[1])]
        live = False
        for c_ in new_pushes:
            try:
                if logic.satisfiable(fm.pc(fm.cfgn(c_))) and _reachable_in_round(fm, loop, fm.cfgn(c_)):
                    live = True
            except logic.TooBig:
                live = True
        if new_pushes:
            ck.ob(rule, fm, loop, live, "successors can be scheduled" if live else
                  "no path through the loop body reaches the statement that schedules a successor: the loop only empties the "
                  "stack, nothing below the start node is ever visited, and completion is still reported", key="scheduling is reachable")
        # exits that abandon the rest of the list
        for n in ast.walk(loop):
            if isinstance(n, ast.Break) and fm.cfg.enclosing_loops(fm.cfgn(n))[0] is loop:
                ck.ob(rule, fm, n, False, "`break` leaves unprocessed frames on the stack")


def _trap_list_is_local(prog, fm: FuncModel, tl, g) -> bool:
    """The trap list the loop ranges over was computed for the very node that receives the edges (trappist on the node's own
    percolated net, as in skip_to_minimal): then every element lies inside the node and no subspace test is needed."""
    it = tl.iter
    at = fm.cfg.loop_header[tl]
    for _ in range(6):
        if isinstance(it, ast.Name):
            vd = fm.value_defs(it.id, at)
            if len(vd) != 1 or vd[0][1] is None:
                return False
            at, it = vd[0]
            continue
        if isinstance(it, (ast.ListComp, ast.GeneratorExp)) and len(it.generators) == 1:
            it = it.generators[0].iter
            continue
        if isinstance(it, ast.Call) and callee_name(it) in ("sorted", "list", "tuple", "enumerate") and it.args:
            it = it.args[0]
            continue
        break
    if isinstance(it, ast.Call) and callee_name(it) == "trappist":
        net = call_arg(it, 0, "network")
        d = fm.deref(net, at) if isinstance(net, ast.Name) else net
        return isinstance(d, ast.Call) and callee_name(d) == "node_percolated_petri_net" and bool(d.args) \
            and isinstance(g.parent_expr, ast.Name) and text(d.args[0]) == g.parent_expr.id
    return False


def _reachable_in_round(fm: FuncModel, loop, target) -> bool:
    """target is reachable from the loop header along edges whose constant tests are respected (`if True:` has no false edge)"""
    def const(e):
        if isinstance(e, ast.Constant) and isinstance(e.value, bool):
            return e.value
        if isinstance(e, ast.UnaryOp) and isinstance(e.op, ast.Not):
            v = const(e.operand)
            return None if v is None else not v
        if isinstance(e, ast.BoolOp):
            vs = [const(x) for x in e.values]
            if isinstance(e.op, ast.Or):
                return True if True in vs else (False if all(v is False for v in vs) else None)
            return False if False in vs else (True if all(v is True for v in vs) else None)
        return None
    hdr = fm.cfg.loop_header[loop]
    dead = []
    for b in fm.cfg.nodes:
        if b.kind == "branch" and b.test is not None:
            v = const(b.test)
            if v is not None and b.pol != v:
                dead.append(b)
    return target.id in fm.cfg.reach_avoiding(hdr, dead)


def _seen_init(ck: Check, rule: str, fm: FuncModel, loop, seen: str | None) -> None:
    """'seen' must mean 'visited by this run': the set starts empty or with the start node only. Seeding it with other
    nodes (all expanded nodes, say) makes the search stop above stubs that an earlier, interrupted call left behind."""
    if not seen:
        return
    f = fm.f
    hdr = fm.cfg.loop_header[loop]
    outer = [l for l in fm.cfg.enclosing_loops(hdr)]
    top = outer[-1] if outer else loop
    probs = []
    starts = set(f.params()) | {"root"}
    def start_like(e) -> bool:
        e = fm.deref(e, fm.cfg.loop_header[top]) if isinstance(e, ast.Name) else e
        t = text(e)
        return (isinstance(e, ast.Name) and (e.id in starts or True)) or t.endswith(".root()")
    for d in fm.cfg.reaching_defs(seen, fm.cfg.loop_header[top]):
        v = d.ast.value if d.kind == "stmt" and isinstance(d.ast, (ast.Assign, ast.AnnAssign)) else None
        if v is None:
            probs.append(f"`{seen}` is not a local set of this run")
            continue
        inner = v.args[0] if isinstance(v, ast.Call) and callee_name(v) in ("set", "frozenset") and len(v.args) == 1 else None
        ok = (isinstance(v, ast.Call) and callee_name(v) == "set" and not v.args) \
            or (isinstance(v, ast.Set) and len(v.elts) == 1 and isinstance(v.elts[0], (ast.Name, ast.Call))) \
            or (isinstance(inner, (ast.List, ast.Tuple, ast.Set)) and len(inner.elts) <= 1)
        if not ok:
            probs.append(f"line {d.lineno}: the seen set starts as `{text(v)[:50]}`: nodes that this run never visited count as "
                         f"seen, so the search does not descend below them (stubs left by an earlier call stay unexpanded "
                         f"although the driver reports completion)")
    # bulk insertions before the loop
    for c in own_walk(f.node):
        if isinstance(c, ast.Call) and isinstance(c.func, ast.Attribute) and text(c.func.value) == seen \
                and c.func.attr in ("update", "union", "__ior__") and fm.cfgn(c).id not in fm.cfg.loop_nodes[top]:
            probs.append(f"line {c.lineno}: `{text(c)[:50]}` puts nodes into the seen set that this run never visited")
        if isinstance(c, ast.AugAssign) and text(c.target) == seen and fm.cfgn(c).id not in fm.cfg.loop_nodes[top]:
            probs.append(f"line {c.lineno}: `{text(c)[:50]}` puts nodes into the seen set that this run never visited")
    # ... and inside the loop it grows by what is scheduled: a bulk insertion of nodes taken from the graph (descendants of a
    # scheduled node, all expanded nodes, ...) marks nodes as seen that were never visited
    WIDE = ("descendants", "ancestors", "node_ids", "expanded_ids", "stub_ids", "nodes", "successors", "predecessors",
            "dfs_preorder_nodes", "bfs_tree", "topological_sort")
    for c in own_walk(f.node):
        arg = None
        if isinstance(c, ast.Call) and isinstance(c.func, ast.Attribute) and text(c.func.value) == seen \
                and c.func.attr in ("update", "__ior__") and c.args and fm.cfgn(c).id in fm.cfg.loop_nodes[top]:
            arg = c.args[0]
        elif isinstance(c, ast.AugAssign) and text(c.target) == seen and fm.cfgn(c).id in fm.cfg.loop_nodes[top]:
            arg = c.value
        if arg is None:
            continue
        av = fm.deref(arg, fm.cfgn(c)) if isinstance(arg, ast.Name) else arg
        if any(isinstance(y, ast.Call) and (callee_name(y) in WIDE or (dotted(y.func) or "").split(".")[-1] in WIDE) for y in ast.walk(av)) \
                and not any(isinstance(y, ast.Compare) and any(isinstance(o, ast.NotIn) for o in y.ops) and seen in text(y) for y in ast.walk(av)):
            probs.append(f"line {c.lineno}: `{text(c)[:60]}` puts nodes into the seen set that this run never visited (whatever an "
                         f"earlier, interrupted call left below them stays unexpanded although the driver reports completion)")
    ck.ob(rule, fm, loop, not probs, "; ".join(sorted(set(probs))) if probs else
          f"the seen set `{seen}` starts with the start node only", key="seen set of this run")


def _seen_name(fm: FuncModel, loop) -> str | None:
    for c in ast.walk(loop):
        if isinstance(c, ast.Call) and isinstance(c.func, ast.Attribute) and c.func.attr == "add" and isinstance(c.func.value, ast.Name):
            return c.func.value.id
    return None


def _extra_reasons(fm: FuncModel, loop, L: str, cur: str, extra: set[str], ck: Check, rule: str):
    out = []
    if "NOUNCOVERED" in extra:
        # "no uncovered minimal trap space lies inside the current node": not any(is_subspace(m, <space of cur>) for m in U)
        # in any of its spellings; U shrunk only by exact removal
        done = set()
        for n in ast.walk(loop):
            q = logic.quantifier(n)
            if q is None:
                continue
            pos, it, var, cond = q
            if not (isinstance(cond, ast.Call) and callee_name(cond) == "is_subspace" and len(cond.args) == 2
                    and isinstance(cond.args[0], ast.Name) and cond.args[0].id == var):
                continue
            at = fm.cfgn(n)
            f_ = fm.translator(at).f(n)
            atom = f_[1] if f_[0] == "not" else f_
            if repr(atom) in done:
                continue
            done.add(repr(atom))
            sp = cond.args[1]
            at = fm.cfgn(n)
            okspace = fm.key(sp, at) == f"FIELD<{fm.f.params()[0]}|{cur}|space>"
            U = text(it)
            shr = _uncovered_ok(fm, U, cur)
            if okspace and shr is None:
                out.append(logic.Not(atom))
            else:
                ck.ob(rule, fm, fm.f.stmt_of(n), False,
                      ("the 'nothing left to find below this node' test compares minimal traps with "
                       f"`{text(sp)}`, not with the space of the current node") if not okspace else shr,
                      key="uncovered test")
    if "NOSEEDS" in extra:
        for n in ast.walk(loop):
            if isinstance(n, ast.Assign) and isinstance(n.value, ast.Call) and callee_name(n.value) == "compute_fixed_point_reduced_STG":
                v = text(n.targets[0])
                probs = _seed_probe_ok(fm, n, L)
                if probs:
                    ck.ob(rule, fm, n, False, "; ".join(probs), key="seed probe")
                else:
                    out.append(logic.Not(logic.Lt("0", f"len({v})")))
    return out


def _uncovered_ok(fm: FuncModel, U: str, cur: str) -> str | None:
    """The uncovered list starts as a copy of all minimal traps and shrinks only by removing the space of an
    expanded minimal node."""
    f = fm.f
    # it starts as (a copy of) the complete list: a trap space that already has a node may still be a stub there
    for n in own_walk(f.node):
        if isinstance(n, (ast.Assign, ast.AnnAssign)) and n.value is not None and text(n.targets[0] if isinstance(n, ast.Assign) else n.target) == U:
            v = n.value
            if isinstance(v, ast.ListComp) and any(g_.ifs for g_ in v.generators):
                return (f"line {n.lineno}: the list of minimal trap spaces still to be found starts filtered "
                        f"(`{text(v.generators[0].ifs[0])[:60]}`): a minimal trap space that is left out is never searched for, and "
                        f"the expansion reports completion without it being an expanded node")
            try:
                ok_, why_ = _trap_list_origin(fm.prog if hasattr(fm, "prog") else None, fm, v, fm.cfgn(n), 0)
            except Exception:  # noqa
                ok_, why_ = True, ""
            if not ok_:
                return f"line {n.lineno}: the list of minimal trap spaces still to be found does not start as the complete list ({why_})"
    for n in own_walk(f.node):
        if isinstance(n, ast.Call) and isinstance(n.func, ast.Attribute) and text(n.func.value) == U:
            if n.func.attr == "remove":
                cn = fm.cfgn(n)
                pc = dom_pc_text(fm, cn)
                arg = n.args[0]
                if not fm.key(arg, cn).endswith("|space>"):
                    return f"line {n.lineno}: `{text(n)}` removes something that is not a node's space"
                node = fm.key(arg, cn).split("|")[1]
                if not logic.implies(pc, logic.B(f"T:sd.node_is_minimal({node})")):
                    return (f"line {n.lineno}: a minimal trap space is counted as found for node `{node}` that is not known "
                            f"to be an expanded minimal node")
            elif n.func.attr in ("pop", "clear", "discard"):
                return f"line {n.lineno}: `{text(n)}` shrinks the list of uncovered minimal trap spaces"
    return None


def _seed_probe_ok(fm: FuncModel, n: ast.Assign, L: str) -> list[str]:
    """S5: the probe that lets attractor-seed expansion skip a successor."""
    c = n.value
    probs = []
    at = fm.cfgn(n)
    lim = next((k.value for k in c.keywords if k.arg == "solution_limit"), None)
    if not (isinstance(lim, ast.Constant) and isinstance(lim.value, int) and lim.value >= 1):
        probs.append("the emptiness probe needs a constant solution_limit >= 1")
    s = None
    net = c.args[0] if c.args else None
    if isinstance(net, ast.Name):
        sd_ = fm.single_def(net.id, at)
        if sd_ and isinstance(sd_[1], ast.Call) and callee_name(sd_[1]) == "node_percolated_petri_net":
            s = text(sd_[1].args[0])
    if s is None:
        probs.append("the probe does not run on the successor's own percolated Petri net")
        return probs
    sdef = fm.single_def(s, at)
    if not (sdef and text(sdef[1]) == f"{L}[-1]"):
        probs.append(f"the probed node `{s}` is not the successor about to be dropped ({L}[-1])")
    rs = c.args[1] if len(c.args) > 1 else None
    okrs = False
    if isinstance(rs, ast.Name):
        d = fm.single_def(rs.id, at)
        if d and isinstance(d[1], ast.Call) and callee_name(d[1]) == "make_heuristic_retained_set":
            nf = d[1].args[1] if len(d[1].args) > 1 else None
            dn = fm.single_def(nf.id, d[0]) if isinstance(nf, ast.Name) else None
            okrs = bool(dn and isinstance(dn[1], ast.Call) and callee_name(dn[1]) == "node_percolated_nfvs" and text(dn[1].args[0]) == s)
    if not okrs:
        probs.append("the retained set of the probe is not built from the successor's own NFVS")
    av = next((k.value for k in c.keywords if k.arg == "avoid_subspaces"), None)
    if av is not None:
        # only intersections with motifs of *expanded* siblings, reduced to the successor's free variables
        elts: list = []
        _chain_elements(fm, av, at, 0, elts)
        inter = [(x, a_) for x, a_ in elts if isinstance(x, ast.Call) and callee_name(x) == "intersect" and len(x.args) == 2]
        sks = {f"FIELD<{fm.f.params()[0]}|{s}|space>", f"FIELD<{fm.f.params()[0]}|{fm.key(ast.Name(s, ast.Load()), at)}|space>"}
        if not any(sks & {fm.key(x.args[0], a_), fm.key(x.args[1], a_)} for x, a_ in inter):
            probs.append("the motifs avoided by the probe are not intersected with the successor's space: a sibling that is "
                         "disjoint from the successor still removes candidates from it (its projection is a larger region)")
        # the reduction to the successor's free variables keeps the variables that are NOT fixed by the successor
        for x, a_ in list(elts):
            if isinstance(x, ast.Name):           # `y = {..}; L.append(y)`
                sd_y = fm.single_def(x.id, a_)
                if sd_y is not None and sd_y[1] is not None:
                    x, a_ = sd_y[1], sd_y[0]
            if isinstance(x, ast.DictComp) and len(x.generators) == 1 and len(x.generators[0].ifs) == 1 \
                    and isinstance(x.generators[0].target, ast.Tuple) and len(x.generators[0].target.elts) == 2:
                t_ = x.generators[0].ifs[0]
                neg_ = False
                while isinstance(t_, ast.UnaryOp) and isinstance(t_.op, ast.Not):
                    t_, neg_ = t_.operand, not neg_
                kv_ = text(x.generators[0].target.elts[0])
                if isinstance(t_, ast.Compare) and len(t_.ops) == 1 and isinstance(t_.ops[0], (ast.In, ast.NotIn)) and text(t_.left) == kv_:
                    keeps_free = isinstance(t_.ops[0], ast.NotIn) != neg_
                    over = fm.key(t_.comparators[0], a_)
                    if over in sks and not keeps_free:
                        probs.append(f"line {x.lineno}: the avoided motifs are reduced to the variables the successor FIXES (`{text(t_)[:50]}`); "
                                     f"the probe runs on the successor's reduced net, whose variables are the free ones, so the avoided "
                                     f"regions no longer describe the expanded siblings")
                    elif over not in sks and over.startswith("FIELD<") and over.endswith("|space>"):
                        probs.append(f"line {x.lineno}: the avoided motifs are reduced relative to `{text(t_.comparators[0])[:40]}`, not to the "
                                     f"space of the successor that is probed")
        if not _from_expanded_children(fm, av, at, 0):
            probs.append("the probe avoids motifs of children that are not known to be expanded: candidates covered only "
                         "by an unexpanded sibling would be dropped")
    if any(k.arg == "ensure_subspace" for k in c.keywords):
        probs.append("the probe is restricted by ensure_subspace")
    return probs


def _chain_elements(fm: FuncModel, e: ast.AST, at, depth: int, out: list) -> None:
    """Element expressions of the comprehensions / filling loops on the provenance chain of the list `e`."""
    if depth > 10 or e is None:
        return
    if isinstance(e, ast.Call) and callee_name(e) in ("sorted", "list", "tuple") and e.args:
        return _chain_elements(fm, e.args[0], at, depth + 1, out)
    if isinstance(e, (ast.ListComp, ast.GeneratorExp)):
        out.append((e.elt, at))
        return _chain_elements(fm, e.generators[0].iter, at, depth + 1, out)
    if isinstance(e, ast.Name):
        for d, v in fm.value_defs(e.id, at):
            if v is not None and is_empty_list(v):
                for c in own_walk(fm.f.node):
                    if isinstance(c, ast.Call) and isinstance(c.func, ast.Attribute) and c.func.attr == "append" and text(c.func.value) == e.id:
                        out.append((c.args[0], fm.cfgn(c)))
                        lps = [l for l in fm.cfg.enclosing_loops(fm.cfgn(c)) if isinstance(l, ast.For)]
                        if lps:
                            _chain_elements(fm, lps[0].iter, fm.cfg.loop_header[lps[0]], depth + 1, out)
            elif v is not None:
                _chain_elements(fm, v, d, depth + 1, out)


def _from_expanded_children(fm: FuncModel, e: ast.AST, at, depth: int) -> bool:
    """Every element of the list `e` derives from a child that was selected by its `expanded` flag: the provenance
    (comprehensions, copies, lists filled in loops) ends in `[x for x in node_successors(..) if node_data(x)['expanded']]`."""
    if depth > 10 or e is None:
        return False
    if isinstance(e, ast.Call) and callee_name(e) in ("sorted", "list", "tuple") and e.args:
        return _from_expanded_children(fm, e.args[0], at, depth + 1)
    if isinstance(e, (ast.ListComp, ast.GeneratorExp)):
        g = e.generators[0]
        if isinstance(g.target, ast.Name):
            for c in g.ifs:
                k = fm.key(logic._rename(c, g.target.id, "_q"), at)
                it = unwrap_order(g.iter)
                if k.startswith("FIELD<") and k.endswith("|_q|expanded>") and isinstance(it, ast.Call) and callee_name(it) == "node_successors":
                    return True
        return _from_expanded_children(fm, g.iter, at, depth + 1)
    if isinstance(e, ast.Name):
        vd = fm.value_defs(e.id, at)
        if not vd:
            return False
        for d, v in vd:
            if v is not None and is_empty_list(v):
                apps = [c for c in own_walk(fm.f.node) if isinstance(c, ast.Call) and isinstance(c.func, ast.Attribute)
                        and c.func.attr == "append" and text(c.func.value) == e.id]
                if not apps:
                    return False
                for c in apps:
                    lps = [l for l in fm.cfg.enclosing_loops(fm.cfgn(c)) if isinstance(l, ast.For)]
                    if not lps or not _from_expanded_children(fm, lps[0].iter, fm.cfg.loop_header[lps[0]], depth + 1):
                        return False
                continue
            if not _from_expanded_children(fm, v, d, depth + 1):
                return False
        return True
    return False


# ------------------------------------------------------------------------------------------ G (level drivers)
def g_level(ck: Check, rule: str) -> None:
    prog = ck.prog
    for key, reasons in LEVEL_DRIVERS.items():
        if key not in prog.repo.functions:
            raise AnalysisError(f"anchor vanished: {key}")
        fm = prog.model(prog.repo.functions[key])
        f = fm.f
        calls = [n for n in own_walk(f.node) if isinstance(n, ast.Call) and callee_name(n) == "node_successors"
                 and is_true(call_arg(n, 1, "compute"))]
        if not calls:
            raise AnalysisError(f"anchor vanished: node_successors(compute=True) in {f.qualname}")
        c = calls[0]
        cn = fm.cfgn(c)
        cur = text(c.args[0])
        # the per-node loop: `for cur in <level>` or `while <queue>: cur = <queue>.pop*()`
        loop = None
        for l in fm.cfg.enclosing_loops(cn):
            if isinstance(l, ast.For) and text(l.target) == cur:
                loop = l
                break
            if isinstance(l, ast.While):
                draws = [x for x in l.body if isinstance(x, ast.Assign) and (text(x.targets[0]) == cur or isinstance(
                             x.targets[0], ast.Tuple) and any(text(t_) == cur for t_ in x.targets[0].elts)) and isinstance(x.value, ast.Call)
                         and isinstance(x.value.func, ast.Attribute) and x.value.func.attr in ("pop", "popleft")]
                if draws:
                    loop = l
                    break
        if loop is None:
            raise AnalysisError(f"anchor vanished: per-node loop of {f.qualname}")
        ids = fm.cfg.loop_nodes[loop]
        sdp = f.params()[0]
        space_key = f"FIELD<{sdp}|{cur}|space>"
        # (1) node-level skips before the successors are computed
        tgt_p = next((p for p in f.params() if p == "target"), None)
        from .c13 import _within, _tbranch
        # a node whose children were all created and pushed on the way is not "skipped" (source shortcut)
        pushes = {fm.cfgn(x).id for x in ast.walk(loop) if isinstance(x, ast.Call) and isinstance(x.func, ast.Attribute)
                  and x.func.attr in ("add", "append", "appendleft") and x.args
                  and any(isinstance(y, ast.Call) and callee_name(y) == "_ensure_node" and text(y.args[0]) == cur
                          for y in ast.walk(x))}
        # a loop over itertools.product(range(k>=1), ...) runs at least once: if every iteration pushes,
        # its exhausted edge is only reached after a push
        cuts = set(pushes)
        for il in ast.walk(loop):
            if isinstance(il, ast.For) and il is not loop and _nonempty_product(fm, il):
                ih = fm.cfg.loop_header[il]
                tb = _tbranch(fm, il)
                if ih.id not in _within(fm, il, tb, pushes):
                    for sx in fm.cfg.g.successors(ih.id):
                        if fm.cfg.nodes[sx].kind == "branch" and not fm.cfg.nodes[sx].pol:
                            cuts.add(sx)
        # a node whose (already known) successors are all handed to the next level is not skipped either
        for x in ast.walk(loop):
            v_ = None
            if isinstance(x, ast.Call) and isinstance(x.func, ast.Attribute) and x.func.attr in ("update", "extend") and x.args:
                v_ = x.args[0]
            elif isinstance(x, ast.AugAssign) and isinstance(x.op, (ast.BitOr, ast.Add)):
                v_ = x.value
            elif isinstance(x, ast.Assign) and isinstance(x.value, ast.BinOp) and isinstance(x.value.op, (ast.BitOr, ast.Add)) \
                    and text(x.value.left) == text(x.targets[0]):
                v_ = x.value.right
            while isinstance(v_, ast.Call) and callee_name(v_) in ("set", "list", "sorted", "tuple") and len(v_.args) == 1:
                v_ = v_.args[0]
            if isinstance(v_, ast.Call) and callee_name(v_) == "node_successors" and v_.args and text(v_.args[0]) == cur:
                try:
                    pushes.add(fm.cfgn(x).id)
                    cuts.add(fm.cfgn(x).id)
                except AnalysisError:
                    pass
        allowed = []
        if "EXPANDED" in reasons:
            # "already expanded" excuses a node only if it was expanded *by this run* (it is in a set that receives a
            # node exactly when this run goes on to expand it); a node expanded by an earlier call may have
            # unexplored nodes below it
            vis = []
            for x in own_walk(f.node):
                if isinstance(x, ast.Assign) and isinstance(x.targets[0], ast.Name) and (
                        (isinstance(x.value, ast.Call) and callee_name(x.value) == "set" and not x.value.args)):
                    V = x.targets[0].id
                    adds = [c_ for c_ in ast.walk(loop) if isinstance(c_, ast.Call) and isinstance(c_.func, ast.Attribute)
                            and text(c_.func.value) == V and c_.func.attr == "add" and c_.args and text(c_.args[0]) == cur]
                    other = [c_ for c_ in own_walk(f.node) if isinstance(c_, ast.Call) and isinstance(c_.func, ast.Attribute)
                             and text(c_.func.value) == V and c_.func.attr not in ("add", "copy", "__contains__")]
                    rebinds = [y for y in own_walk(f.node) if isinstance(y, (ast.Assign, ast.AugAssign)) and y is not x
                               and any(isinstance(t_, ast.Name) and t_.id == V for t_ in (y.targets if isinstance(y, ast.Assign) else [y.target]))]
                    if not adds or other or rebinds:
                        continue
                    # every insertion is followed, within the iteration, by the expansion of the node or by handing on
                    # its successors
                    if all(hdr_.id not in _within(fm, loop, fm.cfgn(a_), cuts | {cn.id})
                           for a_ in adds for hdr_ in [fm.cfg.loop_header[loop]]):
                        vis.append(V)
            exp_a = logic.B(f"T:FIELD<{sdp}|{cur}|expanded>")
            if vis:
                allowed.append(logic.And(exp_a, logic.Or(*[logic.B(f"in:{cur}|{V}") for V in vis])))
        if "DISJOINT" in reasons and tgt_p:
            allowed.append(logic.B(f"none:intersect({space_key}, {tgt_p})"))
        if "INSIDE" in reasons and tgt_p:
            x, y = sorted([space_key, tgt_p])
            allowed.append(logic.And(logic.B(f"T:is_subspace({space_key}, {tgt_p})"), logic.Not(logic.B(f"eq:{x}|{y}"))))
        want = logic.Or(*allowed) if allowed else logic.FALSE
        hdr = fm.cfg.loop_header[loop]
        start = _tbranch(fm, loop)
        why = paths_imply(fm, start, hdr, want, None, stop=cuts | {cn.id}, canon=True)
        ck.ob(rule, fm, loop, why is None, "a node is left unexpanded only for a permitted reason" if why is None else
              f"a node of the current level is skipped (its successors are never enqueued): {why}; permitted: "
              f"{' | '.join(logic.show(a_)[:70] for a_ in allowed) or 'never'}. "
              f"Nodes below it stay unexplored although the expansion reports completion", key="node-level skips")
        # a successor scheduled by position (`next_level.add(successors[0])`) stands for the whole list only where the list is
        # known to have exactly that many elements
        for c_ in ast.walk(loop):
            if isinstance(c_, ast.Call) and isinstance(c_.func, ast.Attribute) and c_.func.attr in ("add", "append") and len(c_.args) == 1 \
                    and isinstance(c_.args[0], ast.Subscript) and isinstance(c_.args[0].value, ast.Name) \
                    and isinstance(c_.args[0].slice, ast.Constant) and c_.args[0].slice.value == 0:
                Lk = c_.args[0].value.id
                dL = fm.single_def(Lk, fm.cfgn(c_))
                for _ in range(3):      # `successors = sorted(successors)` keeps the elements
                    if dL and dL[1] is not None and isinstance(unwrap_order(dL[1]), ast.Name) and unwrap_order(dL[1]) is not dL[1]:
                        dL = fm.single_def(unwrap_order(dL[1]).id, dL[0])
                if not (dL and isinstance(dL[1], ast.Call) and callee_name(dL[1]) == "node_successors"):
                    continue
                t_ = f"len({Lk})"
                tr_ = logic.Translator(lambda e: text(e), numeric={t_})
                fs_ = []
                for test, pol, b in fm.facts(fm.cfgn(c_)):
                    ff = tr_.f(test)
                    fs_.append(ff if pol else logic.Not(ff))
                try:
                    ok1 = bool(fs_) and logic.implies(logic.And(*fs_), logic.And(logic.Le(t_, "1"), logic.Le("1", t_)))
                except logic.TooBig:
                    ok1 = False
                ck.ob(rule, fm, fm.f.stmt_of(c_), ok1, f"`{Lk}[0]` is scheduled where `{Lk}` has exactly one element" if ok1 else
                      f"only `{Lk}[0]` is scheduled although `{Lk}` may hold more successors here: the others are never expanded "
                      f"and the expansion still reports completion", key=f"successor scheduled by position: {Lk}")
        for n in ast.walk(loop):
            if isinstance(n, ast.Break) and fm.cfg.enclosing_loops(fm.cfgn(n))[0] is loop:
                # leaving the level early is fine when the driver then reports failure: no feasible path back into the loop,
                # and every return that is reachable without re-entering it is `return False`
                bn = fm.cfgn(n)
                # start at the branch that leads to the break, so that assignments made just before it count
                st_b = next((d_ for d_ in fm.cfg.dominators(bn) if d_.kind == "branch" and d_.test is not None), None)
                if st_b is not None and bn.id in fm.cfg.reach_avoiding(st_b, [hdr]):
                    bn = st_b
                back = paths_imply(fm, bn, hdr, logic.FALSE, None, canon=True)
                reach = fm.cfg.reach_avoiding(bn, [hdr])
                def says_false(x) -> bool:
                    v_ = x.ast.value
                    if is_false(v_):
                        return True
                    # `return completed` with the flag lowered on every way from here to the return
                    if isinstance(v_, ast.Name):
                        return paths_imply(fm, bn, x, logic.Not(logic.B("T:" + v_.id)), None, canon=True, stop={hdr.id}) is None
                    return False
                rets_ok = all(says_false(x) for x in (fm.cfg.nodes[i] for i in reach)
                              if x.kind == "stmt" and isinstance(x.ast, ast.Return) and
                              paths_imply(fm, bn, x, logic.FALSE, None, canon=True, stop={hdr.id}) is not None)
                okb = back is None and rets_ok
                ck.ob(rule, fm, n, okb, "the level is left early only to report failure" if okb else
                      "`break` abandons the remaining nodes of the level")
        # (2) enqueueing of the successors
        if key.endswith("expand_source_blocks"):
            continue  # which successors enter the next level is the block choice (rule B)
        st_c = f.stmt_of(c)
        v = None
        if isinstance(st_c, (ast.Assign, ast.AnnAssign)) and st_c.value is not None and unwrap_order(st_c.value) is c:
            v = text(st_c.targets[0] if isinstance(st_c, ast.Assign) else st_c.target)
        # other definitions of the holder may only reorder it
        probs = []
        if v:
            for d in ast.walk(loop):
                if isinstance(d, (ast.Assign, ast.AnnAssign)) and d is not st_c and d.value is not None \
                        and text(d.targets[0] if isinstance(d, ast.Assign) else d.target) == v:
                    inner_e = unwrap_order(d.value)
                    if not (isinstance(inner_e, ast.Name) and inner_e.id == v and inner_e is not d.value):
                        probs.append(f"line {d.lineno}: successor list rewritten as `{text(d.value)[:50]}` (elements may be lost)")

        def ranges_over_successors(l: ast.For) -> bool:
            it = unwrap_order(l.iter)
            return it is c or (v is not None and isinstance(it, ast.Name) and it.id == v)
        inner = [l for l in ast.walk(loop) if isinstance(l, ast.For) and l is not loop and ranges_over_successors(l)]
        # the same written as a filter: U = [s for s in successors if s not in seen]; seen.update(U); level.extend(U)
        filt = None
        for st_ in ast.walk(loop):
            if isinstance(st_, ast.Assign) and isinstance(st_.targets[0], ast.Name) and isinstance(st_.value, (ast.ListComp, ast.SetComp)) \
                    and len(st_.value.generators) == 1:
                g_ = st_.value.generators[0]
                it_ = unwrap_order(g_.iter)
                if (it_ is c or (v is not None and isinstance(it_, ast.Name) and it_.id == v)) and isinstance(g_.target, ast.Name) \
                        and text(st_.value.elt) == g_.target.id:
                    filt = (st_, g_)
        if not inner and filt is not None:
            st_, g_ = filt
            U = st_.targets[0].id
            okf = len(g_.ifs) == 1 and isinstance(g_.ifs[0], ast.Compare) and len(g_.ifs[0].ops) == 1 and isinstance(g_.ifs[0].ops[0], ast.NotIn) \
                and text(g_.ifs[0].left) == g_.target.id and isinstance(g_.ifs[0].comparators[0], ast.Name)
            if not okf:
                probs.append(f"successors are filtered by `{' and '.join(text(x) for x in g_.ifs)}` before they are enqueued (expected: not seen before)")
            else:
                SEEN = g_.ifs[0].comparators[0].id
                cn_f = fm.cfgn(st_)
                hdr_l = fm.cfg.loop_header[loop]
                from .c13 import _within
                pushes_u = {fm.cfgn(x).id for x in ast.walk(loop) if (isinstance(x, ast.Call) and isinstance(x.func, ast.Attribute)
                            and x.func.attr in ("extend", "update", "extendleft") and isinstance(x.func.value, ast.Name)
                            and x.func.value.id != SEEN and x.args and text(x.args[0]) == U)
                            or (isinstance(x, ast.AugAssign) and isinstance(x.target, ast.Name) and x.target.id != SEEN and text(x.value) == U)}
                if not pushes_u or hdr_l.id in _within(fm, loop, cn_f, pushes_u):
                    probs.append("the unseen successors are not (always) pushed to the next level")
        elif len(inner) != 1:
            probs.append("the successors are not enqueued by one loop over the (sorted) successor list")
        else:
            il = inner[0]
            sname = text(il.target)
            seen = _seen_name(fm, il)
            _seen_init(ck, rule, fm, il, seen)
            pushes = schedule_nodes(fm, il, sname, {seen} if seen else set())
            if not pushes:
                probs.append("successors are not pushed to the next level")
            else:
                from .c13 import _tbranch
                hdr = fm.cfg.loop_header[il]
                goal = logic.B(f"in:{sname}|{seen}") if seen else logic.FALSE
                tr = logic.Translator(lambda e: text(e))
                why = paths_imply(fm, _tbranch(fm, il), hdr, goal, tr, stop={p.id for p in pushes})
                if why is not None:
                    probs.append(f"a successor is not enqueued although it was not seen before: {why}")
            for x in ast.walk(il):
                if isinstance(x, (ast.Break, ast.Return)):
                    probs.append(f"line {x.lineno}: `{text(x)}` abandons the remaining successors")
        ck.ob(rule, fm, f.stmt_of(c), not probs, "; ".join(probs) if probs else "every unseen successor enters the next level",
              key="enqueue successors")


def _nonempty_product(fm: FuncModel, loop: ast.For) -> bool:
    it = loop.iter
    if isinstance(it, ast.Name):
        sd_ = fm.single_def(it.id, fm.cfg.loop_header[loop])
        it = sd_[1] if sd_ else it
    if isinstance(it, ast.Call) and callee_name(it) == "product" and it.args:
        a = it.args[0]
        return isinstance(a, ast.Call) and callee_name(a) == "range" and len(a.args) == 1 \
            and isinstance(a.args[0], ast.Constant) and isinstance(a.args[0].value, int) and a.args[0].value >= 1
    return False


# ------------------------------------------------------------------------------------------ K
def skip_edges(ck: Check, rule: str) -> None:
    prog = ck.prog
    gm = GrowthModel(prog)
    for fm in prog.models():
        if not any(e.kind == "store" and e.field == "skipped" for e in fm.field_events()):
            if "skip" in fm.f.name and gm.events(fm):
                # a skipping function that gives a node successors without flagging it: the flag is what tells a skip node
                # (partial successor set, sound-only attractor data, F23's reset) from an ordinary expanded node
                ck.ob(rule, fm, fm.f.node, False, f"`{fm.f.name}` creates skip edges but never sets the `skipped` flag of the node that "
                      f"receives them: the node passes for an ordinary expanded node", key="skip flag")
            continue
        f = fm.f
        probs = []
        growth = gm.events(fm)
        # the flag accompanies the edges: where the node that received skip edges is marked expanded it is marked skipped too
        for e in fm.field_events():
            if e.kind == "store" and e.field == "expanded" and is_true(e.value) and any(
                    isinstance(g_.parent_expr, ast.Name) and g_.parent_expr.id == e.nid
                    and e.cfgn.id in fm.cfg.reach_avoiding(g_.cfgn, []) for g_ in growth):
                sk_ = [x.cfgn for x in fm.field_events() if x.kind == "store" and x.field == "skipped" and is_true(x.value) and x.nid == e.nid]
                okf = bool(sk_) and (any(fm.cfg.dominates(x, e.cfgn) for x in sk_)
                                     or not any(fm.cfg.nodes[i].kind == "exit" for i in fm.cfg.reach_avoiding(e.cfgn, sk_)))
                lps0 = [l for l in fm.cfg.enclosing_loops(e.cfgn) if isinstance(l, ast.For)]
                if okf and lps0 and not any(fm.cfg.dominates(x, e.cfgn) for x in sk_):
                    okf = fm.cfg.loop_header[lps0[0]].id not in fm.cfg.reach_avoiding(e.cfgn, sk_)
                ck.ob(rule, fm, e.stmt, okf, "a node that receives skip edges is flagged `skipped`" if okf else
                      f"`{e.nid}` receives skip edges and is marked expanded without being flagged `skipped` on every path",
                      key=f"skip flag: {e.nid}")
        if not growth:
            probs.append("a node is marked skipped without any skip edge being created")
        for g in growth:
            loops = [l for l in fm.cfg.enclosing_loops(g.cfgn) if isinstance(l, ast.For)]
            tl = None
            flt: list = []
            for l in loops:
                flt = []
                if _trap_list_origin(prog, fm, l.iter, fm.cfg.loop_header[l], 0, flt)[0]:
                    tl = l
                    break
            if tl is None:
                why = _trap_list_origin(prog, fm, loops[0].iter, fm.cfg.loop_header[loops[0]], 0)[1] if loops else "no loop"
                probs.append(f"skip edges are not created from the complete list of minimal trap spaces ({why})")
                continue
            ok, why = _trap_list_origin(prog, fm, tl.iter, fm.cfg.loop_header[tl], 0)
            elem = tl.target.elts[-1] if isinstance(tl.target, ast.Tuple) else tl.target
            pc = dom_pc_text(fm, g.cfgn, fm.cfg.loop_nodes[tl])
            # filters of the list the loop ranges over count as conditions of the edge (bound names aligned with the loop's)
            for cond, tgt_ in flt:
                a_names = [x.id for x in ast.walk(tgt_) if isinstance(x, ast.Name)]
                b_names = [x.id for x in ast.walk(tl.target) if isinstance(x, ast.Name)]
                if len(a_names) != len(b_names):
                    probs.append("the trap list is filtered")
                    continue
                c2 = cond
                for a_, b_ in zip(a_names, b_names):
                    if a_ != b_:
                        c2 = logic._rename(c2, a_, "\x00" + b_)
                for n_ in ast.walk(c2):
                    if isinstance(n_, ast.Name) and n_.id.startswith("\x00"):
                        n_.id = n_.id[1:]
                pc = logic.And(pc, logic.Translator(lambda e_: text(e_)).f(c2))
            ats = [a for a in logic.atoms(pc)]
            if not ats and not (isinstance(g.parent_expr, ast.Constant) and g.parent_expr.value is None) \
                    and not _trap_list_is_local(prog, fm, tl, g):
                probs.append("the edge to a minimal trap space is created unconditionally: minimal trap spaces of the whole network, "
                             "also those outside the node, become its successors")
            if ats:
                par_space = None
                want = None
                for a in ats:
                    if a[0] == "b" and a[1].startswith("T:is_subspace("):
                        inner = a[1][len("T:is_subspace("):-1]
                        first = inner.split(",")[0].strip()
                        if first == text(elem):
                            want = ("atom", a)
                if want is None or not logic.equivalent(pc, want):
                    probs.append(f"the edge to a minimal trap space is created under `{logic.show(pc)[:120]}`; expected exactly "
                                 f"is_subspace({text(elem)}, <space of the skipped node>): with the arguments swapped or a "
                                 f"stronger test, minimal trap spaces inside the node stay unreachable")
                else:
                    second = want[1][1][len("T:is_subspace("):-1].split(",", 1)[1].strip()
                    cn = g.cfgn
                    try:
                        e2 = ast.parse(second, mode="eval").body
                        k2 = fm.key(e2, cn)
                    except SyntaxError:
                        k2 = ""
                    if not (k2.startswith("FIELD<") and k2.endswith("|space>") and f"|{g.parent_expr.id if isinstance(g.parent_expr, ast.Name) else ''}|" in k2):
                        probs.append(f"minimal traps are compared with `{second}`, not with the space of the node that gets the edges")
            for x in ast.walk(tl):
                if isinstance(x, (ast.Break, ast.Return)):
                    probs.append(f"line {x.lineno}: `{text(x)}` skips minimal trap spaces")
        ck.ob(rule, fm, f.node, not probs, "; ".join(sorted(set(probs))) if probs else
              "skip edges lead to every minimal trap space inside the node", key="skip edges")
        # the nodes created for the minimal trap spaces are closed: a minimal trap space counts (minimal_trap_spaces(),
        # node_is_minimal) only as an expanded node without successors, and nothing else will ever expand these nodes
        probs = []
        ens = [n for n in own_walk(f.node) if isinstance(n, ast.Assign) and isinstance(n.value, ast.Call) and callee_name(n.value) == "_ensure_node"
               and isinstance(n.targets[0], ast.Name)]
        for a_ in ens:
            X = a_.targets[0].id
            an = fm.cfgn(a_)
            marks = [e.cfgn for e in fm.field_events() if e.kind == "store" and e.field == "expanded" and is_true(e.value) and e.nid == X]
            lps_ = [l for l in fm.cfg.enclosing_loops(an) if isinstance(l, ast.For)]
            reach = fm.cfg.reach_avoiding(an, marks)
            leaves = (fm.cfg.loop_header[lps_[0]].id in reach) if lps_ else any(fm.cfg.nodes[i].kind == "exit" for i in reach)
            if not marks or leaves:
                probs.append(f"line {a_.lineno}: the node `{X}` created for a minimal trap space is not marked expanded on every path: it "
                             f"stays a stub, is not listed among the minimal trap spaces, and no later call expands it")
        if ens:
            ck.ob(rule, fm, ens[0], not probs, "; ".join(sorted(set(probs))) if probs else
                  "nodes created for minimal trap spaces are marked expanded", key="minimal trap nodes closed")
        # a call that reports success for the node it was given has closed that node: on every path to `return True` the
        # node is marked expanded (or was found expanded)
        from .common import expanded_assertions
        node_ps = [p_ for p_ in f.params() if p_ not in ("self", "sd") and "node" in p_]
        probs = []
        if node_ps:
            np_ = node_ps[0]
            marks = [e for e in fm.field_events() if e.kind == "store" and e.field == "expanded" and is_true(e.value) and e.nid == np_]
            cuts = [e.cfgn for e in marks]
            for e in marks[:1]:
                cuts += expanded_assertions(fm, e.hk, True)
            for r in own_walk(f.node):
                if isinstance(r, ast.Return) and is_true(r.value):
                    rn = fm.cfgn(r)
                    back = fm.cfg.can_reach_avoiding(rn, cuts)
                    if fm.cfg.entry.id in back:
                        probs.append(f"line {r.lineno}: success is reported although `{np_}` may still be unexpanded: a node that is its own "
                                     f"minimal trap space stays a stub and is missing from minimal_trap_spaces()")
            if marks:
                ck.ob(rule, fm, f.node, not probs, "; ".join(probs) if probs else f"`{np_}` is expanded on every successful return",
                      key="success means closed")
        # a node that is closed *without* becoming a skip node (no edges, not flagged) is declared minimal: the evidence
        # must say that the only minimal trap space inside it is the node's own space
        evs = fm.field_events()
        sk_nodes = [e for e in evs if e.kind == "store" and e.field == "skipped"]
        grown = set()
        for g in growth:
            st_ = f.stmt_of(g.call)
            if isinstance(st_, ast.Assign) and isinstance(st_.targets[0], ast.Name):
                grown.add(fm.cfgn(st_).id)
        for e in evs:
            if not (e.kind == "store" and e.field == "expanded" and is_true(e.value)):
                continue
            if any(k_.hk == e.hk and (k_.cfgn.id in fm.cfg.reach_avoiding(e.cfgn, []) or e.cfgn.id in fm.cfg.reach_avoiding(k_.cfgn, []))
                   for k_ in sk_nodes):
                continue       # the skip node itself (C05-M checks the flags)
            vds = fm.value_defs(e.nid, e.cfgn)
            if vds and all(d.id in grown or (isinstance(v_, ast.Call) and callee_name(v_) == "_ensure_node") for d, v_ in vds):
                continue       # a minimal trap space taken from the list (created right here)
            # ... or taken, in a later loop, from the list of (id, trap) pairs that such a creation filled
            lps_e = [l for l in fm.cfg.enclosing_loops(e.cfgn) if isinstance(l, ast.For)]
            if lps_e and isinstance(lps_e[0].iter, ast.Name) and isinstance(lps_e[0].target, ast.Tuple) and lps_e[0].target.elts \
                    and text(lps_e[0].target.elts[0]) == e.nid:
                sdl = fm.single_def(lps_e[0].iter.id, fm.cfg.loop_header[lps_e[0]])
                lv = sdl[1] if sdl else None
                if isinstance(lv, ast.ListComp) and len(lv.generators) == 1 and not lv.generators[0].ifs and isinstance(lv.elt, ast.Tuple) \
                        and lv.elt.elts and isinstance(lv.elt.elts[0], ast.Call) and callee_name(lv.elt.elts[0]) == "_ensure_node":
                    continue
                if sdl is not None and is_empty_list(lv):
                    apps_ = [c_ for c_ in own_walk(f.node) if isinstance(c_, ast.Call) and isinstance(c_.func, ast.Attribute)
                             and c_.func.attr == "append" and text(c_.func.value) == lps_e[0].iter.id]
                    if apps_ and all(isinstance(c_.args[0], ast.Tuple) and c_.args[0].elts and (
                            (isinstance(c_.args[0].elts[0], ast.Call) and callee_name(c_.args[0].elts[0]) == "_ensure_node") or
                            (isinstance(c_.args[0].elts[0], ast.Name) and any(isinstance(v2, ast.Call) and callee_name(v2) == "_ensure_node"
                                                                               for _d2, v2 in fm.value_defs(c_.args[0].elts[0].id, fm.cfgn(c_)))))
                                     for c_ in apps_):
                        continue
            pc = fm.pc(e.cfgn)
            space = f"FIELD<{e.diag}|{e.nid}|space>"
            ev_ok = False
            seen_list = None
            for a in logic.atoms(pc):
                if a[0] == "b" and a[1].startswith("eq:") and space in a[1].split("|") or \
                        (a[0] == "b" and a[1].startswith("eq:") and space in a[1]):
                    other = a[1][3:].replace(space, "").strip("|")
                    if other.endswith("[0]"):
                        T = other[:-3]
                        seen_list = T
                        want = logic.And(("atom", a), logic.Eq("1", f"len({T})"))
                        try:
                            tl_ok = _trap_list_origin(prog, fm, ast.Name(T, ast.Load()), e.cfgn, 0)[0] if T.isidentifier() else False
                        except AnalysisError:
                            tl_ok = False
                        if tl_ok and trap_list_joined() and logic.implies(pc, want):
                            ev_ok = True
                if a[0] == "b" and a[1].startswith("eq:") and f"[{space}]" in a[1]:
                    T = a[1][3:].replace(f"[{space}]", "").strip("|")       # T == [space]
                    try:
                        tl_ok = _trap_list_origin(prog, fm, ast.Name(T, ast.Load()), e.cfgn, 0)[0] if T.isidentifier() else False
                    except AnalysisError:
                        tl_ok = False
                    if tl_ok and trap_list_joined() and logic.implies(pc, ("atom", a)):
                        ev_ok = True
                if a[0] == "b" and a[1] == f"T:node_is_minimal({e.nid})" and logic.implies(pc, ("atom", a)):
                    ev_ok = True
            ck.ob(rule, fm, e.stmt, ev_ok,
                  "declared minimal only when the single minimal trap space inside the node is the node's own space" if ev_ok else
                  f"`{e.nid}` is closed without successors and without becoming a skip node under `{logic.show(pc)[:140]}`: this "
                  f"does not establish that the node is itself a minimal trap space (required: the list of minimal trap spaces "
                  f"inside it has one element and that element is the node's space); a node holding one smaller minimal trap "
                  f"space would pass as minimal, and the real one is never added",
                  key=f"declared minimal: {e.nid}")


_TLO_TRACE: list = []


def _trap_list_origin(prog, fm: FuncModel, e: ast.AST, at, depth: int, filters: list | None = None) -> tuple[bool, str]:
    """e is (a map `space | x` over / a list of pairs built from) the result of trappist(problem='min') without limits.
    Pure filters `[x for x in T if c(x)]` on the way are collected in `filters` as (condition, target) when the caller
    can account for them; otherwise they are refused."""
    if depth == 0:
        _TLO_TRACE.clear()
        r = _trap_list_origin_(prog, fm, e, at, 0, filters)
        if r[0]:
            # the spaces of the reduced net are completed with the space of the very node whose net was solved
            nets = {x[1] for x in _TLO_TRACE if x[0] == "net"}
            joins = [x[1] for x in _TLO_TRACE if x[0] == "join"]
            for j in joins:
                if not any(j.startswith("FIELD<") and j.endswith("|space>") and f"|{n_}|" in j for n_ in nets):
                    return False, (f"the trap spaces of the net of node `{', '.join(sorted(nets))}` are completed with `{j}`, not with "
                                   f"that node's space")
        return r
    return _trap_list_origin_(prog, fm, e, at, depth, filters)


def trap_list_joined() -> bool:
    """did the last top-level origin query pass a join with a node space?"""
    return any(x[0] == "join" for x in _TLO_TRACE)


def _trap_list_origin_(prog, fm: FuncModel, e: ast.AST, at, depth: int, filters: list | None = None) -> tuple[bool, str]:
    if depth > 6:
        return False, "origin too indirect"
    if isinstance(e, ast.Name):
        defs = fm.cfg.reaching_defs(e.id, at)
        if not defs:
            return False, f"`{e.id}` undefined"
        for d in defs:
            a = d.ast
            if d.kind == "entry":
                # a parameter: every caller passes a trap list
                callers = []
                for g in prog.models():
                    for c in own_walk(g.f.node):
                        if isinstance(c, ast.Call) and prog.repo.resolve_call(g.f, c) == fm.f.key:
                            callers.append((g, c))
                if not callers:
                    return False, f"parameter `{e.id}` with no caller"
                idx = fm.f.params().index(e.id)
                for g, c in callers:
                    arg = call_arg(c, idx, e.id)
                    r = _trap_list_origin(prog, g, arg, g.cfgn(c), depth + 1) if arg is not None else (False, "missing argument")
                    if not r[0]:
                        return r
                continue
            v = a.value if d.kind == "stmt" and isinstance(a, (ast.Assign, ast.AnnAssign)) else None
            if v is None:
                return False, f"line {d.lineno}: `{e.id}` bound by {type(a).__name__}"
            if is_empty_list(v):
                # list of pairs filled by append((id, trap)) in a loop over the trap list
                okf = False
                for n in own_walk(fm.f.node):
                    if isinstance(n, ast.Call) and isinstance(n.func, ast.Attribute) and n.func.attr == "append" \
                            and text(n.func.value) == e.id:
                        lps = [l for l in fm.cfg.enclosing_loops(fm.cfgn(n)) if isinstance(l, ast.For)]
                        if lps and _trap_list_origin(prog, fm, lps[0].iter, fm.cfg.loop_header[lps[0]], depth + 1)[0] \
                                and not any(isinstance(x, (ast.Continue, ast.Break, ast.If)) for x in ast.walk(lps[0])):
                            okf = True
                if not okf:
                    return False, f"`{e.id}` is not filled from the complete trap list"
                continue
            r = _trap_list_origin(prog, fm, v, d, depth + 1, filters if len(defs) == 1 else None)
            if not r[0]:
                return r
        return True, ""
    if isinstance(e, ast.Call) and callee_name(e) in ("copy", "list", "sorted") and e.args:
        return _trap_list_origin(prog, fm, e.args[0], at, depth + 1, filters)
    if isinstance(e, ast.ListComp):
        if len(e.generators) != 1:
            return False, "the trap list is filtered"
        g0 = e.generators[0]
        if g0.ifs:
            if filters is None or text(e.elt) != text(g0.target):
                return False, "the trap list is filtered"
            for c in g0.ifs:
                filters.append((c, g0.target))
            return _trap_list_origin(prog, fm, g0.iter, at, depth + 1, filters)
        elt = e.elt
        paired = isinstance(elt, ast.Tuple) and isinstance(g0.target, ast.Name) and \
            any(isinstance(x, ast.Name) and x.id == g0.target.id for x in elt.elts)
        if not paired and not (isinstance(elt, ast.BinOp) and isinstance(elt.op, ast.BitOr)):
            return False, f"elements `{text(elt)}` are not joined with the enclosing space"
        if not paired and isinstance(g0.target, ast.Name):
            sides = [elt.left, elt.right]
            oth = [x for x in sides if not (isinstance(x, ast.Name) and x.id == g0.target.id)]
            if len(oth) != 1:
                return False, f"elements `{text(elt)}` are not joined with the enclosing space"
            try:
                _TLO_TRACE.append(("join", fm.key(oth[0], at if hasattr(at, "id") else fm.cfgn(e))))
            except AnalysisError:
                _TLO_TRACE.append(("join", text(oth[0])))
        return _trap_list_origin(prog, fm, e.generators[0].iter, at, depth + 1)
    if isinstance(e, ast.Call) and callee_name(e) == "trappist":
        kws = {k.arg: k.value for k in e.keywords}
        prob = kws.get("problem") or (e.args[1] if len(e.args) > 1 else None)
        if not (isinstance(prob, ast.Constant) and prob.value == "min"):
            return False, "trap spaces are not computed with problem='min'"
        for bad in ("solution_limit", "avoid_subspaces", "reverse_time"):
            if bad in kws and not is_false(kws[bad]) and not is_none(kws[bad]):
                return False, f"the minimal trap spaces are restricted by {bad}"
        net = kws.get("network") or (e.args[0] if e.args else None)
        sd_ = fm.single_def(net.id, at) if isinstance(net, ast.Name) else None
        if not (sd_ and isinstance(sd_[1], ast.Call) and callee_name(sd_[1]) in ("node_percolated_petri_net", "node_percolated_network")):
            return False, f"minimal trap spaces computed on `{text(net)}`, not on a node's percolated net"
        if sd_[1].args:
            try:
                _TLO_TRACE.append(("net", fm.key(sd_[1].args[0], sd_[0])))
            except AnalysisError:
                _TLO_TRACE.append(("net", text(sd_[1].args[0])))
        return True, ""
    return False, f"`{text(e)[:50]}`"


# ------------------------------------------------------------------------------------------ B
def blocks(ck: Check, rule: str) -> None:
    fm = ck.prog.fm(ALG + "expand_source_blocks", "expand_source_blocks")
    f = fm.f
    # minimality filter: a block is kept iff no other block is a strict subset of it -- written as two nested loops with
    # a flag, or as a comprehension with `not any(other < block for other, _ in blocks)`
    probs = []
    anchor = f.node
    found = False

    def first_name(t):
        if isinstance(t, ast.Tuple) and t.elts and isinstance(t.elts[0], ast.Name):
            return t.elts[0].id
        return t.id if isinstance(t, ast.Name) else None

    def strict_sub(t: ast.Compare, inner_t, outer_t) -> bool:
        a_, b_ = text(t.left), text(t.comparators[0])
        return (isinstance(t.ops[0], ast.Lt) and a_ == inner_t and b_ == outer_t) or \
               (isinstance(t.ops[0], ast.Gt) and a_ == outer_t and b_ == inner_t)

    # spelling (ii)
    for comp in [n for n in own_walk(f.node) if isinstance(n, ast.ListComp) and len(n.generators) == 1 and len(n.generators[0].ifs) == 1]:
        g0 = comp.generators[0]
        c, neg = g0.ifs[0], False
        while isinstance(c, ast.UnaryOp) and isinstance(c.op, ast.Not):
            c, neg = c.operand, not neg
        q = logic.quantifier(c)
        if q is None:
            continue
        pos, it2, var2, cond2 = q
        pos = pos != neg
        if not (isinstance(cond2, ast.Compare) and len(cond2.ops) == 1 and isinstance(cond2.ops[0], (ast.Lt, ast.LtE, ast.Gt, ast.GtE))
                and isinstance(cond2.left, ast.Name) and isinstance(cond2.comparators[0], ast.Name)):
            continue
        found = True
        anchor = comp
        outer_t = first_name(g0.target)
        inner_t = var2 if isinstance(var2, str) else first_name(var2)
        if pos or not strict_sub(cond2, inner_t, outer_t):
            probs.append(f"a block is kept when `{'' if pos else 'not '}any({text(cond2)} ...)`; expected: when no other block is a "
                         f"strict subset of it (`not any(other < block ...)`). With a non-strict or reversed test, minimal blocks "
                         f"are discarded or dependent blocks are kept")
        if fm.key(it2, fm.cfgn(comp)) != fm.key(g0.iter, fm.cfgn(comp)):
            probs.append("every block must be compared with every block")
        if ast.dump(comp.elt) != ast.dump(g0.target).replace("Store()", "Load()"):
            probs.append("the kept blocks are not the blocks themselves")
    # spelling (iv): a loop over the blocks with `if not any(other < block for other, _ in blocks): collect`
    if not found:
        for iff in [n for n in own_walk(f.node) if isinstance(n, ast.If)]:
            c, neg = iff.test, False
            while isinstance(c, ast.UnaryOp) and isinstance(c.op, ast.Not):
                c, neg = c.operand, not neg
            q = logic.quantifier(c)
            if q is None:
                continue
            pos, it2, var2, cond2 = q
            pos = pos != neg
            if not (isinstance(cond2, ast.Compare) and len(cond2.ops) == 1 and isinstance(cond2.ops[0], (ast.Lt, ast.LtE, ast.Gt, ast.GtE))
                    and isinstance(cond2.left, ast.Name) and isinstance(cond2.comparators[0], ast.Name)):
                continue
            lps_ = [l for l in fm.cfg.enclosing_loops(fm.cfgn(iff.test)) if isinstance(l, ast.For)]
            if not lps_:
                continue
            found = True
            anchor = iff
            outer_t = first_name(lps_[0].target)
            inner_t = var2 if isinstance(var2, str) else first_name(var2)
            # the branch that collects the block
            coll_body = iff.body if not pos else iff.orelse
            app = [x for st_ in coll_body for x in ast.walk(st_) if isinstance(x, ast.Call) and isinstance(x.func, ast.Attribute)
                   and x.func.attr == "append" and x.args and isinstance(x.args[0], ast.Tuple) and x.args[0].elts
                   and text(x.args[0].elts[0]) == outer_t]
            other_app = [x for st_ in (iff.orelse if not pos else iff.body) for x in ast.walk(st_) if isinstance(x, ast.Call)
                         and isinstance(x.func, ast.Attribute) and x.func.attr == "append"]
            if not strict_sub(cond2, inner_t, outer_t) or not app or other_app:
                probs.append(f"a block is kept when `{'' if pos else 'not '}any({text(cond2)} ...)` does not hold as expected; expected: "
                             f"kept iff no other block is a strict subset of it (`not any(other < block ...)`)")
            if text(it2) != text(lps_[0].iter):
                probs.append("every block must be compared with every block")
            break
    # spelling (i)
    tests = []
    if not found:
        for n in own_walk(f.node):
            if isinstance(n, ast.Compare) and len(n.ops) == 1 and isinstance(n.ops[0], (ast.Lt, ast.LtE, ast.Gt, ast.GtE)) \
                    and isinstance(n.left, ast.Name) and isinstance(n.comparators[0], ast.Name):
                lp = [l for l in fm.cfg.enclosing_loops(fm.cfgn(n)) if isinstance(l, ast.For)]
                if len(lp) >= 2 and {first_name(lp[0].target), first_name(lp[1].target)} == {n.left.id, n.comparators[0].id}:
                    tests.append(n)
    if not found and len(tests) == 1:
        t = tests[0]
        lp0 = [l for l in fm.cfg.enclosing_loops(fm.cfgn(t)) if isinstance(l, ast.For)]
        inner_l = lp0[0]
        par_if = f.parents.get(t)
        if inner_l.orelse and isinstance(par_if, ast.If) and par_if.test is t and len(inner_l.body) == 1 and inner_l.body[0] is par_if \
                and not par_if.orelse and any(isinstance(x, ast.Break) for x in par_if.body):
            # spelling (iii): the inner loop breaks on a strict subset; the block is collected in the loop's else clause
            found = True
            anchor = t
            outer_t, inner_t = first_name(lp0[1].target), first_name(lp0[0].target)
            if not strict_sub(t, inner_t, outer_t):
                probs.append(f"a block is dropped when `{text(t)}`; expected: when another block is a strict subset of it "
                             f"(`other < block`). With a non-strict or reversed test, minimal blocks are discarded or dependent "
                             f"blocks are kept")
            app = [x for st_ in inner_l.orelse for x in ast.walk(st_) if isinstance(x, ast.Call) and isinstance(x.func, ast.Attribute)
                   and x.func.attr == "append" and x.args and isinstance(x.args[0], ast.Tuple) and x.args[0].elts
                   and text(x.args[0].elts[0]) == outer_t]
            if not app or any(isinstance(x, ast.If) for st_ in inner_l.orelse for x in ast.walk(st_)):
                probs.append("minimal blocks are not collected exactly when no strictly smaller block exists")
            if text(lp0[0].iter) != text(lp0[1].iter):
                probs.append("every block must be compared with every block")
    if found:
        pass
    elif len(tests) != 1:
        probs.append("block comparison not found")
    else:
        t = tests[0]
        anchor = t
        lp = [l for l in fm.cfg.enclosing_loops(fm.cfgn(t)) if isinstance(l, ast.For)]
        outer_t = first_name(lp[1].target)
        inner_t = first_name(lp[0].target)
        if not strict_sub(t, inner_t, outer_t):
            probs.append(f"a block is dropped when `{text(t)}`; expected: when another block is a strict subset of it "
                         f"(`other < block`). With a non-strict or reversed test, minimal blocks are discarded or dependent "
                         f"blocks are kept")
        else:
            # flag false => not appended
            st = f.stmt_of(t)
            flags = [x for x in ast.walk(st) if isinstance(x, ast.Assign) and is_false(x.value)]
            app = [x for x in ast.walk(lp[1]) if isinstance(x, ast.Call) and isinstance(x.func, ast.Attribute)
                   and x.func.attr == "append" and x.args and isinstance(x.args[0], ast.Tuple)
                   and x.args[0].elts and text(x.args[0].elts[0]) == outer_t]
            if not flags or not app:
                probs.append("minimality flag / collection of minimal blocks not found")
            else:
                pc = dom_pc_text(fm, fm.cfgn(app[0]), fm.cfg.loop_nodes[lp[1]])
                if not logic.implies(pc, logic.B("T:" + text(flags[0].targets[0]))):
                    probs.append("blocks are collected regardless of the minimality flag")
        if text(lp[0].iter) != text(lp[1].iter):
            probs.append("every block must be compared with every block")
    ck.ob(rule, fm, anchor, not probs, "; ".join(probs) if probs else
          "a block is dropped iff another block is a strict subset", key="block minimality")
    # what enters the next level: `A = A | set(S)` (or |=, update) -- S is all successors, or the nodes of the smallest
    # minimal block (without MAA check), or the nodes of a block known to be clean
    from . import c15
    probs = []
    unions = []   # (A, S expr, stmt)
    for x in own_walk(f.node):
        A = S = None
        if isinstance(x, ast.Assign) and isinstance(x.targets[0], ast.Name) and isinstance(x.value, ast.BinOp) \
                and isinstance(x.value.op, ast.BitOr) and isinstance(x.value.left, ast.Name) and x.value.left.id == x.targets[0].id:
            A, S = x.targets[0].id, x.value.right
        elif isinstance(x, ast.AugAssign) and isinstance(x.op, ast.BitOr) and isinstance(x.target, ast.Name):
            A, S = x.target.id, x.value
        elif isinstance(x, ast.Expr) and isinstance(x.value, ast.Call) and isinstance(x.value.func, ast.Attribute) \
                and x.value.func.attr == "update" and isinstance(x.value.func.value, ast.Name) and x.value.args:
            A, S = x.value.func.value.id, x.value.args[0]
        if A is not None:
            while isinstance(S, ast.Call) and callee_name(S) in ("set", "sorted", "list", "frozenset") and S.args:
                S = S.args[0]
            unions.append((A, S, x))
    kinds = []

    def sorted_by_size(name: str, at) -> bool:
        for d, v in fm.value_defs(name, at):
            if isinstance(v, ast.Call) and callee_name(v) == "sorted":
                k = next((kw.value for kw in v.keywords if kw.arg == "key"), None)
                if isinstance(k, ast.Lambda) and k.args.args and text(k.body) == f"len({k.args.args[0].arg}[1])":
                    return True
        return False

    for A, S, x in unions:
        cn = fm.cfgn(x)
        S0 = fm.deref(S, cn)
        if isinstance(S0, ast.Call) and callee_name(S0) == "node_successors":
            kinds.append("all")
            continue
        if isinstance(S, ast.Name):
            vd = fm.value_defs(S.id, cn)
            def roots(name, at, depth=0):
                out = []
                for d_, v_ in fm.value_defs(name, at):
                    u = unwrap_order(v_) if v_ is not None else None
                    if isinstance(u, ast.Name) and depth < 6:
                        out += roots(u.id, d_, depth + 1)
                    else:
                        out.append(u)
                return out
            rs = roots(S.id, cn)
            if rs and all(isinstance(u, ast.Call) and callee_name(u) == "node_successors" for u in rs):
                kinds.append("all")
                continue
        if isinstance(S0, ast.Subscript) and isinstance(S0.value, ast.Subscript) and isinstance(S0.value.value, ast.Name) \
                and text(S0.slice) == "1" and text(S0.value.slice) == "0":
            kinds.append("smallest")
            if not sorted_by_size(S0.value.value.id, cn):
                probs.append("the block expanded without MAA check is not the first (smallest) minimal block: minimal blocks are "
                             "not ordered by their number of successor nodes")
            continue
        # second component of a loop over the (sorted) minimal blocks, under evidence that the block is clean
        lp = None
        if isinstance(S, ast.Name):
            for d in fm.cfg.reaching_defs(S.id, cn):
                if d.kind == "for" and isinstance(d.ast.target, ast.Tuple) and len(d.ast.target.elts) == 2 \
                        and text(d.ast.target.elts[1]) == S.id:
                    lp = d.ast
        if lp is not None:
            kinds.append("clean")
            ev_ok = False
            for b_ in fm.cfg.dominators(cn):
                if b_.kind == "branch" and b_.test is not None and b_.id in fm.cfg.loop_nodes[lp]:
                    t_, p_ = c15.strip_not(b_.test, b_.pol)
                    tnode = fm.cfg.nodes[next(iter(fm.cfg.g.predecessors(b_.id)))]
                    if p_ and not c15._is_config_test(fm, t_, tnode) and not c15.guard_value_ok(fm, t_, tnode, ck.prog):
                        ev_ok = True
            if not ev_ok:
                probs.append("a block is chosen without being known clean")
            continue
        if isinstance(S0, ast.Call) and callee_name(S0) == "_ensure_node":
            continue  # children created by the source shortcut (rule G)
        if isinstance(S, ast.Name):
            adds = [c_ for c_ in own_walk(f.node) if isinstance(c_, ast.Call) and isinstance(c_.func, ast.Attribute)
                    and c_.func.attr in ("add", "append") and text(c_.func.value) == S.id and c_.args]
            if adds and all(isinstance(c_.args[0], ast.Call) and callee_name(c_.args[0]) == "_ensure_node" for c_ in adds):
                continue  # a set of children created by the source shortcut
        probs.append(f"line {x.lineno}: `{text(S)}` enters the next level")
    ok_kinds = {"all", "smallest", "clean"} <= set(kinds)
    ck.ob(rule, fm, f.node, not probs and ok_kinds, "; ".join(probs) if probs else
          ("next level = smallest minimal block | clean block | all successors" if ok_kinds else
           f"the next level is filled from {sorted(set(kinds))}; expected: all successors, the smallest minimal block, a clean block"),
          key="next level")
    # a block's successors are grouped by the backward-closed variable set of their reduced motif
    probs = []
    mb = [x for x in own_walk(f.node) if isinstance(x, ast.Call) and callee_name(x) == "backward_reachable"]
    if not mb:
        probs.append("blocks are not closed under regulators (backward_reachable)")
    else:
        arg = text(mb[0].args[0])
        if "motif" not in arg or "keys()" not in arg:
            probs.append("block of a successor is not computed from the variables of its stable motif")
    em = [x for x in own_walk(f.node) if isinstance(x, ast.Call) and callee_name(x) == "edge_stable_motif"]
    for c in em:
        red = next((k.value for k in c.keywords if k.arg == "reduced"), None)
        if not is_true(red):
            probs.append(f"line {c.lineno}: block computed from an unreduced motif (variables already fixed in the node count)")
    ck.ob(rule, fm, mb[0] if mb else f.node, not probs, "; ".join(probs) if probs else
          "successors grouped by the regulator-closed variable set of their reduced motif", key="block grouping")
