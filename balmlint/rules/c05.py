"""C05 -- diagrams completed with skip nodes never lose an attractor."""

from __future__ import annotations

import ast

from .. import logic
from ..program import FuncModel, call_arg
from ..report import Check
from ..repo import AnalysisError, dotted, own_walk, text
from .common import SD_MOD, GrowthModel, callee_name, is_empty_list, is_false, is_none, is_true
from . import c03, c08

EXPLANATION = (
    "(A) search-region provenance: in the candidate computation and in the symbolic fallback, the only regions ever "
    "removed from a node's search space are the stable motifs / spaces of that node's own successors (and, in the "
    "fallback, their backward-reachable basin and the transition-guided reduction): every value that reaches "
    "avoid_subspaces / a `.minus(...)` on the candidate set is traced to edge_stable_motif(node, s) or "
    "node_data(s)['space'] with s ranging over node_successors(node). Spaces of other nodes (ancestors, siblings, "
    "nodes found empty earlier) must not bound the search: an empty result of a node only says that its attractors are "
    "in its successors, and when those are skipped too nobody reports them. (K) skip edges: every skip site connects "
    "the node to every minimal trap space inside it (shared with C03-K). (M) skip nodes are marked skipped and "
    "expanded, and reset their cached attractor data (C14-R1, referenced)."
)
ASSUMPTIONS = [
    "a skip node's successors are exactly the minimal trap spaces inside it (C03-K), so every attractor of the node "
    "outside its successors is motif-avoidant and is searched in the node itself",
    "duplicates between overlapping skip nodes are allowed by the property",
]


def run(ck: Check) -> None:
    a(ck)
    c03.skip_edges(ck, "K")
    m(ck)
    ck.floor("A", 4)
    ck.floor("K", 3)
    ck.floor("M", 3)


def a(ck: Check) -> None:
    prog = ck.prog
    fm = prog.fm(c08.CAND_MOD, "compute_attractor_candidates")
    sd_p, node_p = fm.f.params()[0], fm.f.params()[1]
    for d, v, c, lim in c08.enum_sites(fm):
        av = next((k.value for k in c.keywords if k.arg == "avoid_subspaces"), None)
        ok = av is None or (isinstance(av, ast.Name) and c08._reduced_motifs(fm, av.id, d, sd_p, node_p))
        ck.ob("A", fm, d.ast, ok, "enumeration avoids only the node's own child motifs" if ok else
              f"the candidate enumeration avoids `{text(av)}`, which is not (only) the list of this node's child motifs: "
              f"regions that belong to other nodes are excluded from the search and attractors there can be lost")
    # retained-set heuristic and simulation get the same list
    for n in own_walk(fm.f.node):
        if isinstance(n, ast.Call) and callee_name(n) in ("make_heuristic_retained_set", "asp_greedy_retained_set_optimization",
                                                          "state_list_to_bdd"):
            cn = fm.cfgn(n)
            arg = None
            if callee_name(n) == "make_heuristic_retained_set":
                arg = n.args[2] if len(n.args) > 2 else None
            elif callee_name(n) == "asp_greedy_retained_set_optimization":
                arg = next((k.value for k in n.keywords if k.arg == "avoid_dnf"), None)
            else:
                arg = n.args[1] if len(n.args) > 1 and isinstance(n.args[1], ast.Name) and "motif" in n.args[1].id else None
            if arg is None:
                continue
            ok = isinstance(arg, ast.Name) and c08._reduced_motifs(fm, arg.id, cn, sd_p, node_p)
            ck.ob("A", fm, fm.f.stmt_of(n), ok, f"{callee_name(n)} works with the node's own child motifs" if ok else
                  f"`{text(arg)}` passed to {callee_name(n)} is not the list of this node's child motifs")
    # symbolic fallback
    fb = prog.fm("biobalm._sd_attractors.attractor_symbolic", "symbolic_attractor_fallback")
    sd_p, node_p = fb.f.params()[0], fb.f.params()[1]
    for n in own_walk(fb.f.node):
        if isinstance(n, ast.Call) and isinstance(n.func, ast.Attribute) and n.func.attr == "minus" \
                and isinstance(n.func.value, ast.Name) and n.func.value.id == "candidates":
            arg = n.args[0]
            cn = fb.cfgn(n)
            ok, why = _successor_region(fb, arg, cn, sd_p, node_p, 0)
            ck.ob("A", fb, fb.f.stmt_of(n), ok, "fallback removes only regions of the node's own successors" if ok else
                  f"the symbolic fallback removes `{text(arg)[:60]}` from the node's search space: {why}")


def _successor_region(fm: FuncModel, e: ast.AST, at, sd_p: str, node_p: str, depth: int) -> tuple[bool, str]:
    """e denotes (a union of / the basin of) spaces of successors of the node."""
    if depth > 6:
        return False, "origin too indirect"
    if isinstance(e, ast.Call):
        nm = callee_name(e)
        if nm == "mk_subspace" and e.args:
            return _successor_space(fm, e.args[0], at, sd_p, node_p, depth + 1)
        if nm == "reach_bwd" and len(e.args) == 2:
            return _successor_region(fm, e.args[1], at, sd_p, node_p, depth + 1)
        if nm == "union" and isinstance(e.func, ast.Attribute):
            a = _successor_region(fm, e.func.value, at, sd_p, node_p, depth + 1)
            b = _successor_region(fm, e.args[0], at, sd_p, node_p, depth + 1)
            return (a[0] and b[0]), (a[1] or b[1])
        if nm in ("mk_empty_colored_vertices", "mk_empty_vertices"):
            return True, ""
        return False, f"`{text(e)[:50]}` is not a successor region"
    if isinstance(e, ast.Name):
        defs = fm.cfg.reaching_defs(e.id, at)
        if not defs:
            return False, f"`{e.id}` undefined"
        for d in defs:
            a = d.ast
            if d.kind == "for" and isinstance(a.target, ast.Name) and a.target.id == e.id:
                # element of a list of successor regions: [mk_subspace(space of s) for s in node_successors(node)]
                okc = True
                for it_ in c08._alternatives(fm, a.iter, d):       # every list the loop may range over
                    if is_empty_list(it_):
                        continue
                    ok1 = isinstance(it_, ast.ListComp) and len(it_.generators) == 1 and not it_.generators[0].ifs \
                        and isinstance(it_.generators[0].target, ast.Name)
                    if ok1:
                        g0 = it_.generators[0]
                        src = g0.iter
                        ok1 = isinstance(src, ast.Call) and callee_name(src) == "node_successors" and bool(src.args) and text(src.args[0]) == node_p
                        el = it_.elt
                        ok1 = ok1 and isinstance(el, ast.Call) and callee_name(el) == "mk_subspace" and bool(el.args)
                        if ok1:
                            sp_ = el.args[0]
                            h = fm.raw_handle(sp_.value) if isinstance(sp_, ast.Subscript) and isinstance(sp_.slice, ast.Constant) \
                                and sp_.slice.value == "space" else None
                            ok1 = h is not None and text(h[1]) == g0.target.id
                    okc = okc and ok1
                if not okc:
                    return False, f"`{e.id}` does not range over the regions of the successors of `{node_p}`"
                continue
            if d.kind == "stmt" and isinstance(a, (ast.Assign, ast.AnnAssign)) and a.value is not None:
                if isinstance(a.value, ast.Call) and callee_name(a.value) == "union" and text(a.value.func.value) == e.id:
                    r = _successor_region(fm, a.value.args[0], d, sd_p, node_p, depth + 1)
                else:
                    r = _successor_region(fm, a.value, d, sd_p, node_p, depth + 1)
                if not r[0]:
                    return r
            else:
                return False, f"line {d.lineno}: `{e.id}` bound by {type(a).__name__}"
        return True, ""
    return False, f"`{text(e)[:50]}`"


def _successor_space(fm: FuncModel, e: ast.AST, at, sd_p: str, node_p: str, depth: int) -> tuple[bool, str]:
    if isinstance(e, ast.Name):
        defs = fm.cfg.reaching_defs(e.id, at)
        for d in defs:
            a = d.ast
            if d.kind == "for" and isinstance(a.iter, ast.Name) and isinstance(a.target, ast.Name) and a.target.id == e.id:
                # element of a list of successor spaces
                for d2, v2 in fm.value_defs(a.iter.id, d):
                    if is_empty_list(v2):
                        continue
                    okc = isinstance(v2, ast.ListComp) and len(v2.generators) == 1 and not v2.generators[0].ifs \
                        and isinstance(v2.generators[0].target, ast.Name)
                    if okc:
                        g0 = v2.generators[0]
                        el = v2.elt
                        h = fm.raw_handle(el.value) if isinstance(el, ast.Subscript) and isinstance(el.slice, ast.Constant) \
                            and el.slice.value == "space" else None
                        it = g0.iter
                        okc = h is not None and text(h[1]) == g0.target.id and isinstance(it, ast.Call) \
                            and callee_name(it) == "node_successors" and bool(it.args) and text(it.args[0]) == node_p
                    if not okc:
                        return False, f"`{a.iter.id}` is not a list of the spaces of the successors of `{node_p}`"
                continue
            v = a.value if d.kind == "stmt" and isinstance(a, (ast.Assign, ast.AnnAssign)) else None
            if v is None:
                return False, f"`{e.id}` is not a space of a successor"
            r = _successor_space(fm, v, d, sd_p, node_p, depth + 1)
            if not r[0]:
                return r
        return bool(defs), "" if defs else f"`{e.id}` undefined"
    # sd.node_data(s)["space"] with s from node_successors(node_id)
    if isinstance(e, ast.Subscript) and isinstance(e.slice, ast.Constant) and e.slice.value == "space":
        h = fm.raw_handle(e.value)
        if h is not None and isinstance(h[1], ast.Name):
            s = h[1].id
            for d in fm.cfg.reaching_defs(s, at):
                if d.kind == "for":
                    it = d.ast.iter
                    if isinstance(it, ast.Call) and callee_name(it) == "node_successors" and it.args and text(it.args[0]) == node_p:
                        continue
                return False, (f"the space of `{s}` is removed, and `{s}` does not range over the successors of `{node_p}` "
                               f"(another node's emptiness says nothing about attractors in the overlap)")
            return True, ""
    return False, f"`{text(e)[:50]}` is not the space of a successor of the node"


def m(ck: Check) -> None:
    """Every function that creates skip edges marks the node skipped (True) and expanded on the same paths."""
    prog = ck.prog
    n = 0
    for fm in prog.models():
        for e in fm.field_events():
            if e.kind == "store" and e.field == "skipped":
                n += 1
                probs = []
                if not is_true(e.value):
                    probs.append(f"skipped stored as `{text(e.value)}`")
                marks = [x for x in fm.field_events() if x.kind == "store" and x.field == "expanded" and x.hk == e.hk and is_true(x.value)]
                if not marks:
                    probs.append("a skip node is not marked expanded")
                ck.ob("M", fm, e.stmt, not probs, "; ".join(probs) if probs else "skip node flagged skipped and expanded")
    # the candidate computation must not treat skip nodes specially by other nodes' results (covered by A);
    # the flag itself is created as None
    for fm in prog.models():
        for e in fm.field_events():
            if e.kind == "create" and e.field == "skipped":
                ok = is_none(e.value) or is_false(e.value)
                ck.ob("M", fm, e.stmt, ok, "nodes are created unskipped" if ok else "nodes are created with skipped set")
