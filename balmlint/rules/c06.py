"""C06 -- every intervention reported successful really forces the network into the target (structural clauses)."""

from __future__ import annotations

import ast

from .. import logic
from ..program import FuncModel, call_arg
from ..report import Check
from ..repo import AnalysisError, dotted, own_walk, text
from .common import callee_name, escapes, is_empty_list, is_false, is_none, is_true

CTRL = "biobalm.control"

EXPLANATION = (
    "(D1) acceptance: every driver set that find_drivers reports is appended on the true edge of "
    "`motif.items() <= L.items()` where motif is the step's full stable motif (the parameter) and L is "
    "percolate_space(bn, d | assume_fixed) computed from that same driver set d and the values already fixed -- "
    "directly, not through a cache or helper that could answer for another network. (D2) accumulation: in "
    "drivers_of_succession every step is followed, on every path to the next step, by assume_fixed.update(percolate_space("
    "bn, step | assume_fixed)), and that accumulated dict is what the next step receives. (D3) end nodes: the 'hot lava' "
    "predicate is equivalent (truth table over consistent / goal / minimal) to `not consistent or (not goal and minimal)`; "
    "the descendant sets are nx.descendants of the diagram's dag plus the node itself; a node is an end point only if "
    "its descendant set is disjoint from the hot set. (D5) the target-directed expansion that precedes the analysis leaves "
    "a node unexpanded only if it is disjoint from the target or strictly inside it (pruning-guard engine of C03-G): an "
    "unexpanded stub is never 'minimal', so a stub hiding a minimal trap space outside the target would be accepted as "
    "end point."
)
ASSUMPTIONS = [
    "LDOI containment forces the dynamics (theorem behind stable-motif control)",
    "the target-directed expansion leaves no stub that hides a minimal trap space outside the target (C03-G / C07-D5)",
]


def run(ck: Check) -> None:
    d1(ck)
    d2(ck)
    d3(ck)
    from . import c03
    c03.g_level(ck, "D5")  # the target-directed expansion may leave a node unexpanded only if disjoint / strictly inside
    ck.floor("D5", 3)
    ck.floor("D1", 2)
    ck.floor("D2", 2)
    ck.floor("D3", 3)


def d1(ck: Check) -> None:
    fm = ck.prog.fm(CTRL, "find_drivers")
    f = fm.f
    motif_p = f.params()[1]
    res = next((r.value.id for r in own_walk(f.node) if isinstance(r, ast.Return) and isinstance(r.value, ast.Name)), None)
    apps = [n for n in own_walk(f.node) if isinstance(n, ast.Call) and isinstance(n.func, ast.Attribute) and n.func.attr == "append"
            and text(n.func.value) == res]
    if not apps:
        raise AnalysisError("anchor vanished: drivers.append in find_drivers")
    for ap in apps:
        cn = fm.cfgn(ap)
        d = ap.args[0]
        probs = []
        tests = [(t, p, b) for t, p, b in fm.facts(cn) if b.loop is None and isinstance(t, ast.Compare) and ".items()" in text(t)]
        if not tests:
            probs.append("a driver set is reported without testing that its domain of influence contains the motif")
        else:
            t, pol, b = tests[-1]
            ok_dir = pol and isinstance(t.ops[0], ast.LtE) and text(t.left) == f"{motif_p}.items()"
            ok_dir = ok_dir or (pol and isinstance(t.ops[0], ast.GtE) and text(t.comparators[0]) == f"{motif_p}.items()")
            if not ok_dir:
                probs.append(f"acceptance test is `{text(t)}` (polarity {pol}); a driver set may only be accepted when the full motif "
                             f"`{motif_p}` is contained in its domain of influence")
            other = t.comparators[0] if text(t.left) == f"{motif_p}.items()" else t.left
            L = other.func.value if isinstance(other, ast.Call) and isinstance(other.func, ast.Attribute) else None
            tnode = fm.cfg.nodes[next(iter(fm.cfg.g.predecessors(b.id)))]
            sd_ = fm.single_def(L.id, tnode) if isinstance(L, ast.Name) else None
            src = sd_[1] if sd_ else L
            if not (isinstance(src, ast.Call) and isinstance(src.func, ast.Name) and src.func.id == "percolate_space" and len(src.args) == 2):
                probs.append(f"the domain of influence is `{text(src)[:60] if src is not None else '?'}`, not percolate_space(bn, ...) of "
                             f"this very driver set (a cached or shared result can belong to another network or another set)")
            else:
                a1 = src.args[1]
                parts = [text(x) for x in (a1.left, a1.right)] if isinstance(a1, ast.BinOp) and isinstance(a1.op, ast.BitOr) else []
                if text(d) not in parts or "assume_fixed" not in parts:
                    probs.append(f"the percolated space `{text(a1)}` is not `{text(d)} | assume_fixed`")
                if text(src.args[0]) != f.params()[0]:
                    probs.append("percolation is not run on the network passed to find_drivers")
                if sd_ and fm.stale(sd_[0], cn, src):
                    probs.append("the driver set changes between its percolation and its acceptance")
        ck.ob("D1", fm, f.stmt_of(ap), not probs, "; ".join(probs) if probs else
              "driver set accepted only if motif <= LDOI(driver set | already fixed)")


def d2(ck: Check) -> None:
    fm = ck.prog.fm(CTRL, "drivers_of_succession")
    f = fm.f
    calls = [n for n in own_walk(f.node) if isinstance(n, ast.Call) and callee_name(n) == "find_drivers"]
    if len(calls) != 1:
        raise AnalysisError("anchor vanished: find_drivers call in drivers_of_succession")
    c = calls[0]
    cn = fm.cfgn(c)
    loops = [l for l in fm.cfg.enclosing_loops(cn) if isinstance(l, ast.For)]
    probs = []
    af = next((k.value for k in c.keywords if k.arg == "assume_fixed"), c.args[3] if len(c.args) > 3 else None)
    if not isinstance(af, ast.Name):
        probs.append("find_drivers is called without the accumulated fixed values")
        A = None
    else:
        A = af.id
    if not loops:
        probs.append("steps are not processed in a loop over the succession")
    elif A:
        lp = loops[0]
        it, tg = lp.iter, lp.target
        if isinstance(it, ast.Call) and callee_name(it) == "enumerate" and it.args and isinstance(tg, ast.Tuple) and len(tg.elts) == 2:
            it, tg = it.args[0], tg.elts[1]
        ts = text(tg)
        if text(it) != f.params()[1]:
            probs.append(f"the loop ranges over `{text(it)}`, not over the succession")
        if text(c.args[1]) != ts:
            probs.append("find_drivers is not called for the current step of the succession")
        ups = []
        for n in ast.walk(lp):
            if isinstance(n, ast.Call) and isinstance(n.func, ast.Attribute) and n.func.attr == "update" and text(n.func.value) == A:
                arg = n.args[0]
                sd_ = fm.single_def(arg.id, fm.cfgn(n)) if isinstance(arg, ast.Name) else None
                src = sd_[1] if sd_ else arg
                okp = isinstance(src, ast.Call) and isinstance(src.func, ast.Name) and src.func.id == "percolate_space" \
                    and len(src.args) == 2 and isinstance(src.args[1], ast.BinOp) \
                    and {text(src.args[1].left), text(src.args[1].right)} == {ts, A}
                if okp:
                    ups.append(fm.cfgn(n))
                else:
                    probs.append(f"line {n.lineno}: `{A}` is updated with `{text(src)[:50]}`, not with percolate_space(bn, {ts} | {A})")
        from .c13 import _within
        hdr = fm.cfg.loop_header[lp]
        if not ups or hdr.id in _within(fm, lp, cn, {u.id for u in ups}):
            probs.append(f"a path reaches the next step without adding the percolation of this step to `{A}`: drivers of later "
                         f"steps are then searched as if earlier motifs were not locked in (or are validated against too little)")
        init = [d for d in fm.cfg.reaching_defs(A, hdr) if d.id not in fm.cfg.loop_nodes[lp]]
        if not init or not all(isinstance(d.ast, (ast.Assign, ast.AnnAssign)) and isinstance(d.ast.value, ast.Dict) and not d.ast.value.keys for d in init):
            probs.append(f"`{A}` does not start empty")
        for n in ast.walk(lp):
            if isinstance(n, (ast.Break, ast.Continue)):
                probs.append(f"line {n.lineno}: `{text(n)}` skips steps of the succession")
    ck.ob("D2", fm, f.stmt_of(c), not probs, "; ".join(probs) if probs else
          "each step's LDOI is accumulated and passed to the next step")
    # result: one entry per step, in order
    probs = []
    par = fm.f.parents.get(c)
    appended = isinstance(par, ast.Call) and isinstance(par.func, ast.Attribute) and par.func.attr == "append"
    st = f.stmt_of(c)
    if not appended and isinstance(st, ast.Assign) and st.value is c and isinstance(st.targets[0], ast.Name) and loops:
        v = st.targets[0].id
        apps = {fm.cfgn(x).id for x in ast.walk(loops[0]) if isinstance(x, ast.Call) and isinstance(x.func, ast.Attribute)
                and x.func.attr == "append" and x.args and text(x.args[0]) == v}
        from .c13 import _within as _w
        appended = bool(apps) and fm.cfg.loop_header[loops[0]].id not in _w(fm, loops[0], cn, apps)
    if not appended:
        probs.append("the drivers of a step are not appended to the result list")
    ck.ob("D2", fm, f.node, not probs, "; ".join(probs) if probs else "one control entry per succession step, in order", key="result list")


def d3(ck: Check) -> None:
    fm = ck.prog.fm(CTRL, "successions_to_target")
    f = fm.f
    sdp, tgt = f.params()[0], f.params()[1]
    adds = [n for n in own_walk(f.node) if isinstance(n, ast.Call) and isinstance(n.func, ast.Attribute) and n.func.attr == "add"
            and "hot" in text(n.func.value)]
    if len(adds) != 1:
        raise AnalysisError("anchor vanished: hot-lava classification in successions_to_target")
    ad = adds[0]
    cn = fm.cfgn(ad)
    loops = [l for l in fm.cfg.enclosing_loops(cn) if isinstance(l, ast.For)]
    s = text(loops[0].target) if loops else "?"
    space = f"FIELD<{sdp}|{s}|space>"

    def k(x):
        try:
            return fm.key(x, fm.cfgn(x))
        except AnalysisError:
            return text(x)  # already canonical (expanded abbreviation)

    def atomize(e):
        if isinstance(e, ast.Name):
            try:
                sd_ = fm.single_def(e.id, fm.cfgn(e))
            except AnalysisError:
                sd_ = None
            if sd_ and isinstance(sd_[1], ast.Call) and not fm.stale(sd_[0], cn, sd_[1]):
                return atomize(sd_[1])
            return None
        if isinstance(e, ast.Call):
            nm = callee_name(e)
            if nm == "intersect" and len(e.args) == 2 and k(e.args[0]) == space and text(e.args[1]) == tgt:
                return logic.B("CONSISTENT")
            if nm == "is_subspace" and len(e.args) == 2 and k(e.args[0]) == space and text(e.args[1]) == tgt:
                return logic.B("GOAL")
            if nm == "node_is_minimal" and e.args and text(e.args[0]) == s:
                return logic.B("MINIMAL")
        return None

    pc = fm.pc(cn, atomize=atomize)
    ref = logic.Or(logic.Not(logic.B("CONSISTENT")), logic.And(logic.Not(logic.B("GOAL")), logic.B("MINIMAL")))
    extra = [a for a in logic.atoms(pc) if a[0] != "b" or a[1] not in ("CONSISTENT", "GOAL", "MINIMAL")]
    try:
        ok = not extra and logic.equivalent(pc, ref)
    except logic.TooBig:
        ok = False
    probs = []
    if not ok:
        probs.append(f"a node is classified as forbidden under `{logic.show(pc)[:200]}`; expected exactly: it does not intersect the "
                     f"target, or it is a minimal trap space that is not inside the target (argument order of is_subspace/intersect "
                     f"matters: space first, target second)")
    if text(ad.args[0]) != s:
        probs.append("the classified node is not the one added to the hot set")
    if loops and text(loops[0].iter) != f"{sdp}.node_ids()":
        probs.append(f"classification ranges over `{text(loops[0].iter)}`, not over all nodes")
    ck.ob("D3", fm, f.stmt_of(ad), not probs, "; ".join(probs) if probs else
          "hot = not consistent or (not goal and minimal), for every node", key="hot lava predicate")
    # descendant sets
    probs = []
    dm = [n for n in own_walk(f.node) if isinstance(n, ast.Assign) and isinstance(n.targets[0], ast.Subscript)
          and "descendant" in text(n.targets[0].value)]
    if len(dm) != 1:
        probs.append("descendant sets are not filled at one place")
    else:
        v = dm[0].value
        local = None
        if isinstance(v, ast.Name):
            sd_ = fm.single_def(v.id, fm.cfgn(dm[0]))
            if sd_:
                local, v = v.id, sd_[1]
        inner = v.args[0] if isinstance(v, ast.Call) and callee_name(v) == "set" and v.args else v
        if not (isinstance(inner, ast.Call) and (dotted(inner.func) or "").endswith("descendants") and len(inner.args) == 2
                and text(inner.args[0]) == f"{sdp}.dag" and text(inner.args[1]) == text(dm[0].targets[0].slice)):
            probs.append(f"descendants of a node are computed as `{text(v)[:70]}`, not as nx.descendants(dag, node): hot nodes below "
                         f"a node can be missed (node ids are not topologically ordered)")
        key = text(dm[0].targets[0].slice)
        selfadd = [n for n in own_walk(f.node) if isinstance(n, ast.Call) and isinstance(n.func, ast.Attribute) and n.func.attr == "add"
                   and ("descendant" in text(n.func.value) or (local and text(n.func.value) == local)) and n.args and text(n.args[0]) == key]
        if not selfadd:
            probs.append("a node is not counted among its own descendants: a hot node itself could be an end point")
        lp = [l for l in fm.cfg.enclosing_loops(fm.cfgn(dm[0])) if isinstance(l, ast.For)]
        if not lp or text(lp[0].iter) != f"{sdp}.node_ids()":
            probs.append("descendant sets are not computed for every node")
    ck.ob("D3", fm, dm[0] if dm else f.node, not probs, "; ".join(probs) if probs else
          "descendant sets = nx.descendants(dag, s) + {s} for every node", key="descendants")
    # end-point selection
    probs = []
    conts = []
    for n in own_walk(f.node):
        if isinstance(n, ast.Continue):
            lps = fm.cfg.enclosing_loops(fm.cfgn(n))
            if lps and isinstance(lps[0], ast.For) and text(lps[0].iter) == f"{sdp}.node_ids()" and "descendant" in text(fm.f.parents.get(n).test if isinstance(fm.f.parents.get(n), ast.If) else ast.Constant(0)):
                conts.append(n)
    first = [n for n in conts if "&" in text(fm.f.parents[n].test) and "any(" not in text(fm.f.parents[n].test)]
    if not first:
        probs.append("nodes with a hot descendant are not excluded from the end points")
    else:
        t = fm.f.parents[first[0]].test
        while isinstance(t, ast.Call) and callee_name(t) == "bool" and len(t.args) == 1:
            t = t.args[0]
        if not (isinstance(t, ast.BinOp) and isinstance(t.op, ast.BitAnd) and "descendant" in text(t.left) and "hot" in text(t.right)):
            probs.append(f"end-point test is `{text(t)}`")
    ck.ob("D3", fm, first[0] if first else f.node, not probs, "; ".join(probs) if probs else
          "end points have no hot node among their descendants (including themselves)", key="end points")
