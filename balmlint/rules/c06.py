"""C06 -- every intervention reported successful really forces the network into the target (structural clauses)."""

from __future__ import annotations

import ast

from .. import logic
from ..program import FuncModel, call_arg
from ..report import Check
from ..repo import AnalysisError, dotted, own_walk, text
from .common import callee_name, escapes, is_empty_list, is_false, is_none, is_true

CTRL = "biobalm.control"

EXPLANATION = (
    "(D1) acceptance: every driver set that find_drivers reports is appended on the true edge of "
    "`motif.items() <= L.items()` where motif is the step's full stable motif (the parameter) and L is "
    "percolate_space(bn, d | assume_fixed) computed from that same driver set d and the values already fixed -- "
    "directly, not through a cache or helper that could answer for another network. (D2) accumulation: in "
    "drivers_of_succession every step is followed, on every path to the next step, by assume_fixed.update(percolate_space("
    "bn, step | assume_fixed)), and that accumulated dict is what the next step receives. (D3) end nodes: the 'hot lava' "
    "predicate is equivalent (truth table over consistent / goal / minimal) to `not consistent or (not goal and minimal)`; "
    "the descendant sets are nx.descendants of the diagram's dag plus the node itself; a node is an end point only if "
    "its descendant set is disjoint from the hot set. (D5) the target-directed expansion that precedes the analysis leaves "
    "a node unexpanded only if it is disjoint from the target or strictly inside it (pruning-guard engine of C03-G): an "
    "unexpanded stub is never 'minimal', so a stub hiding a minimal trap space outside the target would be accepted as "
    "end point."
)
ASSUMPTIONS = [
    "LDOI containment forces the dynamics (theorem behind stable-motif control)",
    "the target-directed expansion leaves no stub that hides a minimal trap space outside the target (C03-G / C07-D5)",
]


def run(ck: Check) -> None:
    d1(ck)
    d2(ck)
    d3(ck)
    from . import c03
    c03.g_level(ck, "D5")  # the target-directed expansion may leave a node unexpanded only if disjoint / strictly inside
    c03.wrappers(ck, "D5", only=("expand_to_target",))  # ... and the public method really runs it
    ck.floor("D5", 3)
    ck.floor("D1", 1)      # one acceptance site per strategy, or one shared by both
    ck.floor("D2", 2)
    ck.floor("D3", 3)


def d1(ck: Check) -> None:
    fm = ck.prog.fm(CTRL, "find_drivers")
    f = fm.f
    motif_p = f.params()[1]
    res = next((r.value.id for r in own_walk(f.node) if isinstance(r, ast.Return) and isinstance(r.value, ast.Name)), None)
    apps = [n for n in own_walk(f.node) if isinstance(n, ast.Call) and isinstance(n.func, ast.Attribute) and n.func.attr == "append"
            and text(n.func.value) == res]
    if not apps:
        raise AnalysisError("anchor vanished: drivers.append in find_drivers")
    for ap in apps:
        cn = fm.cfgn(ap)
        d = ap.args[0]
        probs = []

        def items_of(e, at):
            """`X.items()` (directly or through a local) -> the expression X"""
            e2, at2 = fm.deref_at(e, at)
            if isinstance(e2, ast.Call) and isinstance(e2.func, ast.Attribute) and e2.func.attr == "items" and not e2.args:
                return e2.func.value, at2
            return None, at2

        tests = []
        for t, p, b in fm.facts(cn):
            if b.loop is None and isinstance(t, ast.Compare) and len(t.ops) == 1:
                tnode = fm.cfg.nodes[next(iter(fm.cfg.g.predecessors(b.id)))]
                l_, lat = items_of(t.left, tnode)
                r_, rat = items_of(t.comparators[0], tnode)
                if l_ is not None and r_ is not None:
                    tests.append((t, p, b, (l_, lat), (r_, rat)))
        if not tests:
            probs.append("a driver set is reported without testing that its domain of influence contains the motif")
        else:
            t, pol, b, (l_, lat), (r_, rat) = tests[-1]
            if isinstance(t.ops[0], ast.GtE):
                (l_, lat), (r_, rat) = (r_, rat), (l_, lat)
            ok_dir = pol and isinstance(t.ops[0], (ast.LtE, ast.GtE)) and text(fm.deref(l_, lat)) == motif_p
            if not ok_dir:
                probs.append(f"acceptance test is `{text(t)}` (polarity {pol}); a driver set may only be accepted when the full motif "
                             f"`{motif_p}` is contained in its domain of influence")
            L = r_ if ok_dir else (r_ if text(fm.deref(l_, lat)) == motif_p else l_)
            Lat = rat if L is r_ else lat
            src, sat = fm.deref_at(L, Lat)
            sd_ = (sat, src) if src is not L else None
            if not (isinstance(src, ast.Call) and isinstance(src.func, ast.Name) and src.func.id == "percolate_space" and len(src.args) == 2):
                probs.append(f"the domain of influence is `{text(src)[:60] if src is not None else '?'}`, not percolate_space(bn, ...) of "
                             f"this very driver set (a cached or shared result can belong to another network or another set)")
            else:
                a1 = fm.deref(src.args[1], sat)
                parts = [text(x) for x in (a1.left, a1.right)] if isinstance(a1, ast.BinOp) and isinstance(a1.op, ast.BitOr) else []
                if text(d) not in parts or "assume_fixed" not in parts:
                    probs.append(f"the percolated space `{text(a1)}` is not `{text(d)} | assume_fixed`")
                if text(src.args[0]) != f.params()[0]:
                    probs.append("percolation is not run on the network passed to find_drivers")
                if sd_ and fm.stale(sd_[0], cn, src):
                    probs.append("the driver set changes between its percolation and its acceptance")
        ck.ob("D1", fm, f.stmt_of(ap), not probs, "; ".join(probs) if probs else
              "driver set accepted only if motif <= LDOI(driver set | already fixed)")


def d2(ck: Check) -> None:
    fm = ck.prog.fm(CTRL, "drivers_of_succession")
    f = fm.f
    calls = [n for n in own_walk(f.node) if isinstance(n, ast.Call) and callee_name(n) == "find_drivers"]
    if len(calls) != 1:
        raise AnalysisError("anchor vanished: find_drivers call in drivers_of_succession")
    c = calls[0]
    cn = fm.cfgn(c)
    loops = [l for l in fm.cfg.enclosing_loops(cn) if isinstance(l, ast.For)]
    probs = []
    af = next((k.value for k in c.keywords if k.arg == "assume_fixed"), c.args[3] if len(c.args) > 3 else None)
    if not isinstance(af, ast.Name):
        probs.append("find_drivers is called without the accumulated fixed values")
        A = None
    else:
        A = af.id
    if not loops:
        probs.append("steps are not processed in a loop over the succession")
    elif A:
        lp = loops[0]
        it, tg = lp.iter, lp.target
        if isinstance(it, ast.Call) and callee_name(it) == "enumerate" and it.args and isinstance(tg, ast.Tuple) and len(tg.elts) == 2:
            it, tg = it.args[0], tg.elts[1]
        ts = text(tg)
        if text(it) != f.params()[1]:
            probs.append(f"the loop ranges over `{text(it)}`, not over the succession")
        if text(c.args[1]) != ts:
            probs.append("find_drivers is not called for the current step of the succession")
        ups = []
        for n in ast.walk(lp):
            # A.update(E)   /   A = A | E   /   A |= E
            arg = None
            if isinstance(n, ast.Call) and isinstance(n.func, ast.Attribute) and n.func.attr == "update" and text(n.func.value) == A:
                arg = n.args[0]
            elif isinstance(n, ast.Assign) and text(n.targets[0]) == A and isinstance(n.value, ast.BinOp) and isinstance(n.value.op, ast.BitOr) \
                    and text(n.value.left) == A:
                arg = n.value.right
            elif isinstance(n, ast.AugAssign) and text(n.target) == A and isinstance(n.op, ast.BitOr):
                arg = n.value
            elif isinstance(n, ast.Assign) and text(n.targets[0]) == A and isinstance(n.value, ast.Call) \
                    and isinstance(n.value.func, ast.Name) and n.value.func.id == "percolate_space":
                # A = percolate_space(bn, step | A): the percolation keeps every value it is given, so the result is the
                # accumulated dict together with what this step adds
                arg = n.value
            if arg is not None:
                sd_ = fm.single_def(arg.id, fm.cfgn(n)) if isinstance(arg, ast.Name) else None
                src = sd_[1] if sd_ else arg
                okp = isinstance(src, ast.Call) and isinstance(src.func, ast.Name) and src.func.id == "percolate_space" \
                    and len(src.args) == 2 and isinstance(src.args[1], ast.BinOp) \
                    and {text(src.args[1].left), text(src.args[1].right)} == {ts, A}
                if okp:
                    ups.append(fm.cfgn(n))
                else:
                    probs.append(f"line {n.lineno}: `{A}` is updated with `{text(src)[:50]}`, not with percolate_space(bn, {ts} | {A})")
        from .c13 import _within
        hdr = fm.cfg.loop_header[lp]
        if not ups or hdr.id in _within(fm, lp, cn, {u.id for u in ups}):
            probs.append(f"a path reaches the next step without adding the percolation of this step to `{A}`: drivers of later "
                         f"steps are then searched as if earlier motifs were not locked in (or are validated against too little)")
        init = [d for d in fm.cfg.reaching_defs(A, hdr) if d.id not in fm.cfg.loop_nodes[lp]]
        if not init or not all(isinstance(d.ast, (ast.Assign, ast.AnnAssign)) and isinstance(d.ast.value, ast.Dict) and not d.ast.value.keys for d in init):
            probs.append(f"`{A}` does not start empty")
        for n in ast.walk(lp):
            if isinstance(n, (ast.Break, ast.Continue)):
                probs.append(f"line {n.lineno}: `{text(n)}` skips steps of the succession")
    ck.ob("D2", fm, f.stmt_of(c), not probs, "; ".join(probs) if probs else
          "each step's LDOI is accumulated and passed to the next step")
    # result: one entry per step, in order
    probs = []
    par = fm.f.parents.get(c)
    appended = isinstance(par, ast.Call) and isinstance(par.func, ast.Attribute) and par.func.attr == "append"
    st = f.stmt_of(c)
    if not appended and isinstance(st, ast.Assign) and st.value is c and isinstance(st.targets[0], ast.Name) and loops:
        v = st.targets[0].id
        apps = {fm.cfgn(x).id for x in ast.walk(loops[0]) if isinstance(x, ast.Call) and isinstance(x.func, ast.Attribute)
                and x.func.attr == "append" and x.args and text(x.args[0]) == v}
        from .c13 import _within as _w
        appended = bool(apps) and fm.cfg.loop_header[loops[0]].id not in _w(fm, loops[0], cn, apps)
    if not appended:
        probs.append("the drivers of a step are not appended to the result list")
    ck.ob("D2", fm, f.node, not probs, "; ".join(probs) if probs else "one control entry per succession step, in order", key="result list")


# calls that can add nodes to a diagram (the public expansion entry points and the primitives below them)
GROWERS = ("expand_to_target", "expand_bfs", "expand_dfs", "expand_minimal_spaces", "expand_attractor_seeds", "expand_block",
           "expand_scc", "expand_source_SCCs", "expand_source_blocks", "build", "skip_to_minimal", "skip_remaining",
           "_expand_one_node", "_ensure_node")


def d3(ck: Check) -> None:
    fm = ck.prog.fm(CTRL, "successions_to_target")
    f = fm.f
    sdp, tgt = f.params()[0], f.params()[1]
    adds = [n for n in own_walk(f.node) if isinstance(n, ast.Call) and isinstance(n.func, ast.Attribute) and n.func.attr == "add"
            and isinstance(n.func.value, ast.Name) and len(n.args) == 1
            and any(isinstance(t, ast.AST) and any(isinstance(c_, ast.Call) and callee_name(c_) in ("intersect", "is_subspace", "node_is_minimal")
                                                   for c_ in ast.walk(fm.deref(t, b_) if isinstance(t, ast.Name) else t))
                    or any(isinstance(x_, ast.Name) and any(isinstance(c_, ast.Call) and callee_name(c_) in ("intersect", "is_subspace", "node_is_minimal")
                                                            for v_ in [fm.deref(x_, b_)] for c_ in ast.walk(v_))
                           for x_ in ast.walk(t))
                    for t, p_, b_ in fm.facts(fm.cfgn(n)))]
    if len({text(a_.func.value) for a_ in adds}) > 1:
        # several sets are filled under classification guards: the forbidden set is the one the end-point loop tests (`D[s] & H`
        # followed by `continue`); the others are side tables and are judged by what is done with them
        tested = set()
        for n in own_walk(f.node):
            if isinstance(n, ast.If) and any(isinstance(y, ast.Continue) for y in n.body):
                for y in ast.walk(n.test):
                    if isinstance(y, ast.BinOp) and isinstance(y.op, ast.BitAnd):
                        tested |= {z.id for z in ast.walk(y) if isinstance(z, ast.Name)}
        keep = {text(a_.func.value) for a_ in adds} & tested
        if len(keep) == 1:
            adds = [a_ for a_ in adds if text(a_.func.value) in keep]
    if not adds or len({text(a_.func.value) for a_ in adds}) != 1 or len({text(a_.args[0]) for a_ in adds}) != 1:
        raise AnalysisError("anchor vanished: hot-lava classification in successions_to_target")
    ad = adds[0]      # (several adds of the same node to the same set -- `if a: add  elif b: add` -- are one classification)
    cn = fm.cfgn(ad)
    loops = [l for l in fm.cfg.enclosing_loops(cn) if isinstance(l, ast.For)]
    s = text(loops[0].target) if loops else "?"
    space = f"FIELD<{sdp}|{s}|space>"

    def k(x):
        try:
            return fm.key(x, fm.cfgn(x))
        except AnalysisError:
            return text(x)  # already canonical (expanded abbreviation)

    def atomize(e):
        if isinstance(e, ast.Name):
            try:
                sd_ = fm.single_def(e.id, fm.cfgn(e))
            except AnalysisError:
                sd_ = None
            if sd_ and isinstance(sd_[1], ast.Call) and not fm.stale(sd_[0], cn, sd_[1]):
                return atomize(sd_[1])
            return None
        if isinstance(e, ast.Call):
            nm = callee_name(e)
            if nm == "intersect" and len(e.args) == 2 and k(e.args[0]) == space and text(e.args[1]) == tgt:
                return logic.B("CONSISTENT")
            if nm == "is_subspace" and len(e.args) == 2 and k(e.args[0]) == space and text(e.args[1]) == tgt:
                return logic.B("GOAL")
            if nm == "node_is_minimal" and e.args and text(e.args[0]) == s:
                return logic.B("MINIMAL")
        if isinstance(e, ast.Compare) and len(e.ops) == 1 and isinstance(e.ops[0], (ast.Is, ast.IsNot)) and is_none(e.comparators[0]):
            # `intersect(space, target) is None`: for the non-empty targets the property speaks about, the intersection of two
            # spaces is falsy exactly when it is None
            inner = e.left
            if isinstance(inner, ast.Name):
                try:
                    sd_ = fm.single_def(inner.id, fm.cfgn(e))
                except AnalysisError:
                    sd_ = None
                inner = sd_[1] if sd_ and isinstance(sd_[1], ast.Call) and not fm.stale(sd_[0], cn, sd_[1]) else None
            if isinstance(inner, ast.Call) and callee_name(inner) == "intersect":
                a_ = atomize(inner)
                if a_ is not None:
                    return logic.Not(a_) if isinstance(e.ops[0], ast.Is) else a_
        if isinstance(e, ast.Compare) and len(e.ops) == 1 and isinstance(e.ops[0], ast.In) and text(e.left) == s:
            # membership in the diagram's list of minimal trap spaces (= the expanded nodes without successors)
            c_ = e.comparators[0]
            try:
                at_ = fm.cfgn(e)
            except AnalysisError:
                at_ = cn
            for _ in range(3):
                while isinstance(c_, ast.Call) and callee_name(c_) in ("set", "frozenset", "list", "sorted", "tuple") and len(c_.args) == 1:
                    c_ = c_.args[0]
                if isinstance(c_, ast.Name):
                    sd2 = fm.single_def(c_.id, at_)
                    if sd2 is None:
                        break
                    c_, at_ = sd2[1], sd2[0]
            if isinstance(c_, ast.Call) and callee_name(c_) == "minimal_trap_spaces" and isinstance(c_.func, ast.Attribute) \
                    and text(c_.func.value) == sdp and not c_.args:
                # the list is that of the diagram as it is classified: nothing grows the diagram between the two
                for x_ in own_walk(f.node):
                    if isinstance(x_, ast.Call) and callee_name(x_) in GROWERS:
                        xn = fm.cfgn(x_)
                        if at_ is not cn and xn.id in fm.cfg.reach_avoiding(at_, []) and cn.id in fm.cfg.reach_avoiding(xn, []):
                            stale_min.append(f"line {at_.lineno}: the minimal trap spaces are listed before `{callee_name(x_)}` (line "
                                             f"{x_.lineno}) grows the diagram: nodes that become minimal by the expansion are not in "
                                             f"the list, and a minimal trap space outside the target is not treated as forbidden")
                            return None
                return logic.B("MINIMAL")
        return None

    stale_min: list[str] = []
    pc = fm.pc(cn, atomize=atomize)
    if len(adds) > 1:
        pc = logic.Or(*[fm.pc(fm.cfgn(a_), atomize=atomize) for a_ in adds])
    # the target that is classified against is the caller's target
    tgt_rebound = [d_ for d_ in fm.cfg.reaching_defs(tgt, cn) if d_.kind != "entry"]
    ref = logic.Or(logic.Not(logic.B("CONSISTENT")), logic.And(logic.Not(logic.B("GOAL")), logic.B("MINIMAL")))
    extra = [a for a in logic.atoms(pc) if a[0] != "b" or a[1] not in ("CONSISTENT", "GOAL", "MINIMAL")]
    try:
        ok = not extra and logic.equivalent(pc, ref)
    except logic.TooBig:
        ok = False
    probs = []
    if not ok:
        probs.append(f"a node is classified as forbidden under `{logic.show(pc)[:200]}`; expected exactly: it does not intersect the "
                     f"target, or it is a minimal trap space that is not inside the target (argument order of is_subspace/intersect "
                     f"matters: space first, target second)")
    probs += sorted(set(stale_min))
    if tgt_rebound:
        probs.append(f"line {tgt_rebound[0].lineno}: the target `{tgt}` is re-bound before the nodes are classified: a node whose space "
                     f"disagrees with the caller's target on a dropped entry counts as consistent")
    if text(ad.args[0]) != s:
        probs.append("the classified node is not the one added to the hot set")
    if loops and text(loops[0].iter) != f"{sdp}.node_ids()":
        probs.append(f"classification ranges over `{text(loops[0].iter)}`, not over all nodes")
    ck.ob("D3", fm, f.stmt_of(ad), not probs, "; ".join(probs) if probs else
          "hot = not consistent or (not goal and minimal), for every node", key="hot lava predicate")
    # "reaches a forbidden node" (the node itself included): recognised complete constructions only
    HOT = ad.func.value.id
    dag = f"{sdp}.dag"
    # the set that is tested later is the set that was classified: nothing but the classification (and, in the fused
    # form, the ancestors added next to it) changes it
    probs = []
    for n_ in own_walk(f.node):
        if isinstance(n_, ast.AugAssign) and text(n_.target) == HOT:
            probs.append(f"line {n_.lineno}: `{text(n_)[:60]}` changes the forbidden set after the classification")
        elif isinstance(n_, ast.Call) and isinstance(n_.func, ast.Attribute) and text(n_.func.value) == HOT and n_ not in adds \
                and n_.func.attr in ("discard", "remove", "pop", "clear", "difference_update", "intersection_update",
                                     "symmetric_difference_update", "add", "update"):
            arg0 = n_.args[0] if n_.args else None
            if n_.func.attr == "update" and isinstance(arg0, ast.Call) and (dotted(arg0.func) or "").split(".")[-1] == "ancestors":
                continue
            probs.append(f"line {n_.lineno}: `{text(n_)[:60]}` changes the forbidden set outside the classification")
        elif isinstance(n_, ast.Assign) and any(text(t_) == HOT for t_ in n_.targets):
            v_ = n_.value
            if not (isinstance(v_, ast.Call) and callee_name(v_) in ("set",) and not v_.args):
                probs.append(f"line {n_.lineno}: the forbidden set is re-bound (`{text(n_)[:60]}`)")
    ck.ob("D3", fm, f.stmt_of(ad), not probs, ("; ".join(probs) + ": a forbidden node that leaves the set can become an end point, "
          "and its safe parents no longer count as reaching a forbidden node") if probs else
          "the forbidden set is only filled by the classification", key="hot set stable")

    def closure_maps():
        """D with D[s] = set(descendants(dag, s)) + {s} for every node s  ->  {name: problems}"""
        out = {}
        for n in own_walk(f.node):
            if isinstance(n, ast.Assign) and isinstance(n.targets[0], ast.Subscript) and isinstance(n.targets[0].value, ast.Name):
                v, at = fm.deref_at(n.value, fm.cfgn(n))
                local = n.value.id if isinstance(n.value, ast.Name) else None
                inner = v.args[0] if isinstance(v, ast.Call) and callee_name(v) in ("set", "frozenset") and v.args else v
                extra_self = False
                if isinstance(inner, ast.BinOp) and isinstance(inner.op, ast.BitOr):
                    l_, r_ = inner.left, inner.right
                    for x_, y_ in ((l_, r_), (r_, l_)):
                        if isinstance(y_, ast.Set) and len(y_.elts) == 1 and text(y_.elts[0]) == text(n.targets[0].slice):
                            inner, extra_self = x_, True
                            inner = inner.args[0] if isinstance(inner, ast.Call) and callee_name(inner) in ("set", "frozenset") and inner.args else inner
                            break
                if not (isinstance(inner, ast.Call) and (dotted(inner.func) or "").split(".")[-1] == "descendants"):
                    continue
                D = n.targets[0].value.id
                key = text(n.targets[0].slice)
                pr = []
                if not (len(inner.args) == 2 and text(inner.args[0]) == dag and text(inner.args[1]) == key):
                    pr.append(f"descendants of a node are computed as `{text(inner)[:70]}`, not as descendants({dag}, node)")
                selfadd = extra_self or any(
                    isinstance(c_, ast.Call) and isinstance(c_.func, ast.Attribute) and c_.func.attr == "add" and c_.args
                    and text(c_.args[0]) == key and (text(c_.func.value) == f"{D}[{key}]" or (local and text(c_.func.value) == local))
                    for c_ in own_walk(f.node))
                if not selfadd:
                    pr.append("a node is not counted among its own descendants: a forbidden node itself could be an end point")
                lp = [l for l in fm.cfg.enclosing_loops(fm.cfgn(n)) if isinstance(l, ast.For)]
                if not lp or text(lp[0].iter) != f"{sdp}.node_ids()" or text(lp[0].target) != key:
                    pr.append("descendant sets are not computed for every node")
                else:
                    hdr_ = fm.cfg.loop_header[lp[0]]
                    from .c13 import _within as _w2, _tbranch as _tb2
                    if hdr_.id in _w2(fm, lp[0], _tb2(fm, lp[0]), {fm.cfgn(n).id}):
                        pr.append("an iteration can skip the computation of the descendant set")
                out[D] = (n, pr)
        return out

    def reach_sets():
        """R = forbidden nodes plus everything that reaches them  ->  {name: (stmt, problems)}"""
        out = {}
        for n in own_walk(f.node):
            if not (isinstance(n, ast.Assign) and isinstance(n.targets[0], ast.Name)):
                continue
            v = n.value
            if text(v) not in (f"set({HOT})", f"{HOT}.copy()", f"{HOT} | set()", f"set() | {HOT}"):
                continue
            R = n.targets[0].id
            pr = []
            ups = [c_ for c_ in own_walk(f.node) if isinstance(c_, ast.Call) and isinstance(c_.func, ast.Attribute)
                   and text(c_.func.value) == R and c_.func.attr in ("add", "update")]
            ups += [c_ for c_ in own_walk(f.node) if isinstance(c_, ast.AugAssign) and text(c_.target) == R]
            sound = False
            for u in ups:
                lps = [l for l in fm.cfg.enclosing_loops(fm.cfgn(u)) if isinstance(l, (ast.For, ast.While))]
                arg = u.value if isinstance(u, ast.AugAssign) else u.args[0]
                # (b) union of the ancestors of every forbidden node
                if lps and isinstance(lps[0], ast.For) and text(lps[0].iter) in (HOT, f"sorted({HOT})", f"list({HOT})") \
                        and isinstance(arg, ast.Call) and (dotted(arg.func) or "").split(".")[-1] == "ancestors" \
                        and [text(x) for x in arg.args] == [dag, text(lps[0].target)]:
                    sound = True
                    continue
                # (c) one sweep in reverse topological order
                if lps and isinstance(lps[0], ast.For) and "topological_sort" in text(lps[0].iter) and "reversed" in text(lps[0].iter):
                    sound = True
                    continue
                # (d) sweeps repeated until nothing changes
                if any(isinstance(l, ast.While) for l in lps):
                    sound = True
                    continue
                it = text(lps[0].iter) if lps and isinstance(lps[0], ast.For) else "?"
                pr.append(f"line {u.lineno}: `{R}` is filled in one sweep over `{it[:60]}`; a node whose successors are visited "
                          f"later is missed, and node ids are not a topological order (a node can get an additional parent that was "
                          f"created after it)")
            if not ups or (not sound and not pr):
                pr.append(f"`{R}` never receives the nodes above the forbidden ones")
            out[R] = (n, pr)
        # (e) one set for both: every forbidden node is added together with all its ancestors, next to each other
        # under the classification (`HOT.add(s); HOT.update(ancestors(dag, s))`)
        ad_stmt = f.stmt_of(ad)
        sibs = f.parents.get(ad_stmt)
        for fld in ("body", "orelse"):
            lst = getattr(sibs, fld, None)
            if isinstance(lst, list) and ad_stmt in lst:
                for st_ in lst:
                    c_ = st_.value if isinstance(st_, ast.Expr) else None
                    if isinstance(c_, ast.Call) and isinstance(c_.func, ast.Attribute) and c_.func.attr == "update" \
                            and text(c_.func.value) == HOT and len(c_.args) == 1 and isinstance(c_.args[0], ast.Call) \
                            and (dotted(c_.args[0].func) or "").split(".")[-1] == "ancestors" \
                            and [text(x) for x in c_.args[0].args] == [dag, s] \
                            and not any(isinstance(z, (ast.If, ast.For, ast.While, ast.Try, ast.Break, ast.Continue, ast.Return))
                                        for z in lst[min(lst.index(ad_stmt), lst.index(st_)):max(lst.index(ad_stmt), lst.index(st_)) + 1]):
                        out[HOT] = (st_, [])
        return out

    def filtered_reach_sets():
        """R = {s for every node s if (descendants(dag, s) + {s}) & HOT}  (filled by a loop or written as a comprehension)"""
        out = {}
        for n in own_walk(f.node):
            if not (isinstance(n, ast.Assign) and isinstance(n.targets[0], ast.Name)
                    and isinstance(n.value, ast.Call) and callee_name(n.value) == "set" and not n.value.args):
                continue
            R = n.targets[0].id
            if R == HOT:
                continue
            adds = [c_ for c_ in own_walk(f.node) if isinstance(c_, ast.Call) and isinstance(c_.func, ast.Attribute)
                    and text(c_.func.value) == R and c_.func.attr == "add" and len(c_.args) == 1]
            others = [c_ for c_ in own_walk(f.node) if isinstance(c_, ast.Call) and isinstance(c_.func, ast.Attribute)
                      and text(c_.func.value) == R and c_.func.attr in ("update", "discard", "remove", "clear", "pop")]
            if len(adds) != 1 or others:
                continue
            a_ = adds[0]
            an = fm.cfgn(a_)
            lps = [l for l in fm.cfg.enclosing_loops(an) if isinstance(l, ast.For)]
            if not lps or text(lps[0].iter) != f"{sdp}.node_ids()" or text(lps[0].target) != text(a_.args[0]):
                continue
            x = text(lps[0].target)
            pr = []
            # the guard: (descendants-or-self of x) & HOT, D a local of this iteration
            ok_guard = False
            for t_, pol, b_ in fm.facts(an):
                if b_.id not in fm.cfg.loop_nodes[lps[0]] or not pol:
                    continue
                e = t_
                while isinstance(e, ast.Call) and callee_name(e) == "bool" and len(e.args) == 1:
                    e = e.args[0]
                if isinstance(e, ast.BinOp) and isinstance(e.op, ast.BitAnd):
                    for l_, r_ in ((e.left, e.right), (e.right, e.left)):
                        if text(r_) == HOT and isinstance(l_, ast.Name):
                            tn = fm.cfg.nodes[next(iter(fm.cfg.g.predecessors(b_.id)))]
                            vds = fm.value_defs(l_.id, tn)
                            dv = vds[0][1] if len(vds) == 1 else None
                            inner = dv.args[0] if isinstance(dv, ast.Call) and callee_name(dv) in ("set", "frozenset") and dv.args else dv
                            self_in = False
                            if isinstance(inner, ast.BinOp) and isinstance(inner.op, ast.BitOr):
                                for p_, q_ in ((inner.left, inner.right), (inner.right, inner.left)):
                                    if isinstance(q_, ast.Set) and len(q_.elts) == 1 and text(q_.elts[0]) == x:
                                        inner, self_in = p_, True
                                        inner = inner.args[0] if isinstance(inner, ast.Call) and callee_name(inner) in ("set", "frozenset") and inner.args else inner
                                        break
                            if isinstance(inner, ast.Call) and (dotted(inner.func) or "").split(".")[-1] == "descendants" \
                                    and [text(z) for z in inner.args] == [dag, x]:
                                self_in = self_in or any(
                                    isinstance(c2, ast.Call) and isinstance(c2.func, ast.Attribute) and c2.func.attr == "add"
                                    and text(c2.func.value) == l_.id and c2.args and text(c2.args[0]) == x
                                    and fm.cfg.dominates(fm.cfgn(c2), tn) for c2 in ast.walk(lps[0]))
                                if not self_in:
                                    pr.append("a node is not counted among its own descendants: a forbidden node itself could be an end point")
                                ok_guard = True
            if not ok_guard:
                continue
            from .c13 import _within as _w3, _tbranch as _tb3
            hdr_ = fm.cfg.loop_header[lps[0]]
            if any(isinstance(z, (ast.Break, ast.Return)) for z in ast.walk(lps[0])):
                pr.append("not every node is examined")
            out[R] = (n, pr)
        return out

    maps = closure_maps()
    rsets = reach_sets()
    rsets.update(filtered_reach_sets())

    def reach_form(e: ast.AST, x: str, at):
        """is `e` the test "x reaches a forbidden node"?  -> (bool, construction-name)"""
        e = fm.deref(e, at)
        while isinstance(e, ast.Call) and callee_name(e) == "bool" and len(e.args) == 1:
            e = e.args[0]
        if isinstance(e, ast.UnaryOp) and isinstance(e.op, ast.Not) and isinstance(e.operand, ast.Compare) and len(e.operand.ops) == 1 \
                and isinstance(e.operand.ops[0], ast.NotIn):
            e = ast.Compare(e.operand.left, [ast.In()], e.operand.comparators)     # not (x not in R)
        if isinstance(e, ast.Compare) and len(e.ops) == 1 and isinstance(e.ops[0], (ast.Gt, ast.NotEq)) and text(e.comparators[0]) == "0" \
                and isinstance(e.left, ast.Call) and callee_name(e.left) == "len" and e.left.args:
            e = e.left.args[0]
        if isinstance(e, ast.BinOp) and isinstance(e.op, ast.BitAnd):
            for l_, r_ in ((e.left, e.right), (e.right, e.left)):
                if text(r_) == HOT and isinstance(l_, ast.Subscript) and isinstance(l_.value, ast.Name) and l_.value.id in maps \
                        and text(l_.slice) == x:
                    return True, l_.value.id
        if isinstance(e, ast.UnaryOp) and isinstance(e.op, ast.Not) and isinstance(e.operand, ast.Call) \
                and callee_name(e.operand) == "isdisjoint" and len(e.operand.args) == 1:
            l_, r_ = e.operand.func.value, e.operand.args[0]
            for l2, r2 in ((l_, r_), (r_, l_)):
                if text(r2) == HOT and isinstance(l2, ast.Subscript) and isinstance(l2.value, ast.Name) and l2.value.id in maps \
                        and text(l2.slice) == x:
                    return True, l2.value.id
        if isinstance(e, ast.Compare) and len(e.ops) == 1 and isinstance(e.ops[0], ast.In) and text(e.left) == x \
                and isinstance(e.comparators[0], ast.Name) and e.comparators[0].id in rsets:
            return True, e.comparators[0].id
        return False, None

    # end-point selection: in the loop over all nodes, a node that reaches a forbidden node is skipped
    probs = []
    used = set()
    first = None
    for n in own_walk(f.node):
        if isinstance(n, ast.Continue) and isinstance(fm.f.parents.get(n), ast.If):
            lps = fm.cfg.enclosing_loops(fm.cfgn(n))
            if not (lps and isinstance(lps[0], ast.For) and text(lps[0].iter) == f"{sdp}.node_ids()"):
                continue
            t = fm.f.parents[n].test
            if n not in fm.f.parents[n].body:
                continue
            ok_, via = reach_form(t, text(lps[0].target), fm.cfgn(fm.f.parents[n]))
            if ok_:
                first = n
                used.add(via)
    # the classification is made over the target-directed expansion: succession_control asks for it unconditionally, and
    # successions_to_target runs it exactly when asked, with the caller's target
    sc = ck.prog.fm(CTRL, "succession_control")
    for c_ in own_walk(sc.f.node):
        if isinstance(c_, ast.Call) and callee_name(c_) == "successions_to_target":
            ed = call_arg(c_, f.params().index("expand_diagram"), "expand_diagram") if "expand_diagram" in f.params() else None
            dflt_true = False
            if ed is None and "expand_diagram" in f.params():
                a__ = f.node.args
                pos__ = a__.posonlyargs + a__.args
                dd = dict(zip([x.arg for x in pos__[len(pos__) - len(a__.defaults):]], a__.defaults))
                dd.update({x.arg: d for x, d in zip(a__.kwonlyargs, a__.kw_defaults) if d is not None})
                dflt_true = is_true(dd.get("expand_diagram"))
            if not (is_true(ed) or dflt_true):
                probs.append(f"line {c_.lineno}: succession_control asks for the target-directed expansion only under "
                             f"`{text(ed) if ed is not None else '?'}`: on a diagram that is only partly expanded the stubs count as "
                             f"end points or hide forbidden nodes, and successions are missing or wrong")
    exp_calls = [c_ for c_ in own_walk(f.node) if isinstance(c_, ast.Call) and callee_name(c_) == "expand_to_target"]
    if "expand_diagram" in f.params():
        if not exp_calls:
            probs.append("successions_to_target never runs the target-directed expansion")
        for c_ in exp_calls:
            pc_ = fm.pc(fm.cfgn(c_))
            ta = call_arg(c_, 0, "target")
            if not logic.equivalent(pc_, logic.B("T:expand_diagram")):
                probs.append(f"line {c_.lineno}: the expansion runs under `{logic.show(pc_)[:60]}`, not exactly when expand_diagram is set")
            if ta is None or text(ta) != tgt or any(d_.kind != "entry" for d_ in fm.cfg.reaching_defs(tgt, fm.cfgn(c_))):
                probs.append(f"line {c_.lineno}: the diagram is not expanded towards the caller's target")
    # ... and among those, a node is an end point only if SOME parent reaches a forbidden node (otherwise one can stop
    # at the parent): the filter is an existential test over the predecessors
    par_tests = []
    for n in own_walk(f.node):
        if isinstance(n, ast.Continue) and isinstance(fm.f.parents.get(n), ast.If) and n in fm.f.parents[n].body:
            t0 = fm.deref(fm.f.parents[n].test, fm.cfgn(fm.f.parents[n]))
            q = logic.quantifier(t0.operand) if isinstance(t0, ast.UnaryOp) and isinstance(t0.op, ast.Not) else None
            q_pos = logic.quantifier(t0)
            for qq, negated in ((q, True), (q_pos, False)):
                if qq is not None and isinstance(qq[1], ast.Call) and callee_name(qq[1]) == "predecessors":
                    par_tests.append((n, qq, negated))
    for n, qq, negated in par_tests:
        exists, it_, var_, cond_ = qq
        # skipped  <=>  not exists parent reaching hot
        okq = negated and exists and isinstance(var_, str) and reach_form(cond_, var_, fm.cfgn(fm.f.parents[n]))[0]
        if not okq:
            probs.append(f"line {fm.f.parents[n].lineno}: a node is dropped from the end points unless "
                         f"{'some' if exists else 'every'} parent {'' if negated else 'does not '}reach(es) a forbidden node; it must be "
                         f"kept as soon as SOME parent does (with `all`, a node below one safe and one unsafe parent is lost and the "
                         f"paths through the unsafe parent get no succession)")
    if first is None:
        hot_ = text(adds[0].func.value)
        for n in own_walk(f.node):
            if isinstance(n, (ast.ListComp, ast.SetComp, ast.GeneratorExp, ast.DictComp)) \
                    and any(isinstance(y, ast.Name) and y.id == hot_ for g_ in n.generators for t_ in g_.ifs for y in ast.walk(t_)):
                raise AnalysisError(f"line {n.lineno}: the end points of successions_to_target are selected by comprehension filters over "
                                    f"`{hot_}`; this form of the selection is not followed (anchor: skip test of the end-point loop)")
        probs.append("nodes that reach a forbidden node are not excluded from the end points (no recognised test "
                     "`descendants-or-self & forbidden` / `node in reach-set` skips them)")
    ck.ob("D3", fm, first if first is not None else f.node, not probs, "; ".join(probs) if probs else
          "end points have no forbidden node among their descendants (including themselves)", key="end points")
    # the construction that the test relies on is complete
    probs = []
    stmt = f.node
    if first is not None:
        for via in sorted(used):
            stmt, pr = (maps.get(via) or rsets.get(via))
            probs += pr
    else:
        for via, (st_, pr) in list(maps.items()) + list(rsets.items()):
            stmt = st_
            probs += pr
        if not maps and not rsets:
            probs.append("no descendant map / reach set is computed")
    ck.ob("D3", fm, stmt, not probs, "; ".join(probs) if probs else
          "reachability of forbidden nodes: " + ", ".join(
              (f"`{v}` = descendants(dag, s) + {{s}} for every node" if v in maps else f"`{v}` = forbidden nodes and all their ancestors")
              for v in sorted(used)), key="descendants")
