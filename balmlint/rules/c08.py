"""C08 -- attractor candidates cover every attractor under every option and limit setting."""

from __future__ import annotations

import ast

from .. import logic
from ..program import FuncModel, call_arg
from ..report import Check
from ..repo import AnalysisError, dotted, own_walk, text
from .common import callee_name, is_empty_list, is_false, is_none, is_true, reach_stop

CAND_MOD = "biobalm._sd_attractors.attractor_candidates"
ENUM = "compute_fixed_point_reduced_STG"

EXPLANATION = (
    "Provenance and completeness discipline of the candidate computation, on every path (all option combinations "
    "are branches). (K1) every returned list is the node's full state under the full-state guard, an element of / a "
    "map over a candidate list joined with the node space, the empty list after an emptiness test of a complete list, "
    "or the documented exemption (empty NFVS in a node with child motifs); an empty placeholder assigned before a "
    "loop can reach a consumer only through a zero-trip edge that the path condition excludes; retained-set "
    "dictionaries never become states. (K2) every enumeration with solution_limit=L yields a possibly truncated list; "
    "wherever such a list is consumed (returned, copied into the candidate variable, passed to a filter/optimiser, "
    "iterated) `len < L` must follow from the valid path facts, the solver contract len <= L, and the bounds of the "
    "loop-carried candidate list -- decided by exhaustive enumeration of the integer orderings of the terms involved. "
    "(K3) enumerations run on the node's own percolated net with reduced avoid-spaces; returns are full states. "
    "(K4) drop discipline of the simulation filter. (K5) the feedback vertex set is computed with parity negative or "
    "none. (K6) the greedy optimiser replaces retained set and candidate list together, only under a strict decrease "
    "with limit = old length."
)
ASSUMPTIONS = [
    "solver contract len(result) <= solution_limit, result empty for a limit <= 0 (decided by C09-T3); limits are >= 0",
    "the NFVS reduction theorem: fixed points of the reduced STG for any retained set cover all attractors",
    "clingo enumerates all solutions when not stopped",
]


def run(ck: Check) -> None:
    fm = ck.prog.fm(CAND_MOD, "compute_attractor_candidates")
    k1(ck, fm)
    k2(ck)
    k3(ck, fm)
    k3_pint(ck, fm)
    k4_decoder(ck)
    k4(ck)
    k5(ck)
    k6(ck)
    k7(ck)
    ck.floor("K7", 2)
    ck.floor("K1", 6)
    ck.floor("K2", 8)
    ck.floor("K3", 5)
    ck.floor("K4", 5)
    ck.floor("K5", 1)
    ck.floor("K6", 2)


# ------------------------------------------------------------------------------------------ enumeration sites
def enum_sites(fm: FuncModel):
    """[(def node, variable, call, limit expr or None)]"""
    out = []
    for n in fm.cfg.nodes:
        if n.kind == "stmt" and isinstance(n.ast, ast.Assign) and len(n.ast.targets) == 1 \
                and isinstance(n.ast.targets[0], ast.Name) and isinstance(n.ast.value, ast.Call) \
                and callee_name(n.ast.value) == ENUM:
            c = n.ast.value
            lim = next((k.value for k in c.keywords if k.arg == "solution_limit"), None)
            if lim is None and len(c.args) >= 5:
                lim = c.args[4]
            out.append((n, n.ast.targets[0].id, c, lim))
    return out


def _limit_term(fm: FuncModel, lim: ast.AST, at) -> str:
    if isinstance(lim, ast.Constant) and isinstance(lim.value, int):
        return str(lim.value)
    if isinstance(lim, ast.Call) and callee_name(lim) == "len" and lim.args:
        return f"len({text(lim.args[0])})"
    return text(lim)


class Completeness:
    """Completeness facts of enumeration results in one function."""

    def __init__(self, ck: Check, fm: FuncModel):
        self.ck, self.fm = ck, fm
        self.sites = enum_sites(fm)
        self.by_def = {d.id: (v, c, lim) for d, v, c, lim in self.sites}
        self.numeric = set()
        for d, v, c, lim in self.sites:
            if lim is not None:
                self.numeric.add(_limit_term(fm, lim, d))
        self._proved: dict[int, bool] = {}

    def tr(self, at):
        return logic.Translator(lambda e: text(e), numeric=self.numeric)

    def _facts(self, at):
        fs = list(self.fm.facts(at))
        if at.kind == "branch" and at.test is not None:
            fs.append((at.test, at.pol, at))
        return fs

    def facts_formula(self, at):
        fs = []
        for test, pol, b in self._facts(at):
            f = self.tr(at).f(test)
            fs.append(f if pol else logic.Not(f))
        return logic.And(*fs)

    def ub(self, v_def_id: int, depth=0) -> str | None:
        """A configuration-level upper bound term for the limit of enumeration def."""
        v, c, lim = self.by_def[v_def_id]
        if lim is None:
            return None
        t = _limit_term(self.fm, lim, None)
        if t.startswith("len(") and depth < 4:
            w = t[4:-1]
            # limit = len(W): W's own limit bounds it
            ubs = set()
            for d, v2, c2, lim2 in self.sites:
                if v2 == w:
                    u = self.ub(d.id, depth + 1)
                    if u:
                        ubs.add(u)
            if len(ubs) == 1:
                return ubs.pop()
            return None
        return t

    def contracts(self, at, names: set[str]):
        """len(V) <= lim(V) for every enumeration variable whose (only) reaching definitions at `at` are
        enumerations; limits are >= 0."""
        cs = []
        for v in names:
            defs = self.fm.cfg.reaching_defs(v, at)
            if defs and all(d.id in self.by_def for d in defs):
                lims = {(_limit_term(self.fm, self.by_def[d.id][2], d) if self.by_def[d.id][2] is not None else None)
                        for d in defs}
                if len(lims) == 1:
                    l = lims.pop()
                    if l is not None:
                        cs.append(logic.Le(f"len({v})", l))
                        if not l.lstrip("-").isdigit():
                            cs.append(logic.Le("0", l))
        return cs

    def carried_bound(self, v: str, at, seen=None, depth=0):
        """Hypothesis about the current value of list variable v at `at`, from its reaching definitions:
        Or over definitions of (len == 0 | len < config bound).  None = unknown (no hypothesis)."""
        seen = seen or set()
        alts = []
        for d in self.fm.cfg.reaching_defs(v, at):
            if (v, d.id) in seen or depth > 5:
                continue
            seen = seen | {(v, d.id)}
            a = d.ast
            if d.id in self.by_def:
                lim = self.by_def[d.id][2]
                if lim is None:
                    return None
                alts.append(logic.Le(f"len({v})", _limit_term(self.fm, lim, d)))
                continue
            if d.kind != "stmt" or not isinstance(a, (ast.Assign, ast.AnnAssign)) or a.value is None:
                return None
            val = a.value
            if is_empty_list(val):
                alts.append(logic.Eq(f"len({v})", "0"))
                continue
            if isinstance(val, ast.Name):
                # copy of an enumeration variable proven complete at the copy
                wdefs = self.fm.cfg.reaching_defs(val.id, d)
                if wdefs and all(w.id in self.by_def for w in wdefs):
                    us = {self.ub(w.id) for w in wdefs}
                    if len(us) == 1 and None not in us:
                        alts.append(logic.Lt(f"len({v})", us.pop()))
                        continue
                sub = self.carried_bound(val.id, d, seen, depth + 1)
                if sub is None:
                    return None
                alts.append(_rename(sub, f"len({val.id})", f"len({v})"))
                continue
            if isinstance(val, ast.Subscript) and isinstance(val.value, ast.Name):
                # component of the optimiser's result: not longer than its candidate_states argument
                sd = self.fm.single_def(val.value.id, d)
                if sd and isinstance(sd[1], ast.Call) and callee_name(sd[1]) == "asp_greedy_retained_set_optimization":
                    arg = next((k.value for k in sd[1].keywords if k.arg == "candidate_states"), None)
                    if isinstance(arg, ast.Name):
                        sub = self.carried_bound(arg.id, sd[0], seen, depth + 1)
                        if sub is None:
                            return None
                        alts.append(_weaken(_rename(sub, f"len({arg.id})", f"len({v})")))
                        continue
            return None
        if not alts:
            return None
        return logic.Or(*alts)

    def complete_at(self, v: str, at) -> tuple[bool, str]:
        """Is the list held by variable v complete at node `at`?"""
        defs = self.fm.cfg.reaching_defs(v, at)
        if not defs:
            return False, f"`{v}` undefined"
        whys = []
        for d in defs:
            ok, why = self._def_complete(v, d, at)
            if not ok:
                whys.append(why)
        return (not whys), "; ".join(whys)

    def _hyp(self, v: str, at):
        hyp = [self.facts_formula(at)]
        names = {x.id for t, _, _ in self._facts(at) for x in ast.walk(t) if isinstance(x, ast.Name)} | {v}
        hyp += self.contracts(at, names)
        # bounds of other list variables mentioned in the facts (loop-carried candidate list)
        shown = logic.show(hyp[0])
        for nm in sorted(names - {v}):
            if f"len({nm})" in shown:
                rd = self.fm.cfg.reaching_defs(nm, at)
                if rd and not all(x.id in self.by_def for x in rd):
                    b = self.carried_bound(nm, at)
                    if b is not None:
                        hyp.append(b)
        return logic.And(*hyp)

    def _good(self, v: str, d, n, L: str) -> bool:
        """At node n (reached from definition d without redefinition of v) the facts imply len(v) < L."""
        k = (v, d.id, n.id)
        if k not in self._proved:
            try:
                self._proved[k] = logic.implies(self._hyp(v, n), logic.Lt(f"len({v})", L))
            except logic.TooBig:
                self._proved[k] = False
        return self._proved[k]

    def _def_complete(self, v: str, d, at, depth=0) -> tuple[bool, str]:
        a = d.ast
        cfg = self.fm.cfg
        if d.id in self.by_def:
            lim = self.by_def[d.id][2]
            if lim is None:
                return True, ""
            L = _limit_term(self.fm, lim, d)
            redefs = {n.id for n in cfg.nodes if n is not d and n.id in cfg.g and v in cfg.defs_of(n)}
            # nodes between d and `at` at which completeness is established cut the paths
            region = reach_stop(self.fm, d, redefs, set())
            if at.id not in region and at is not d:
                return True, ""
            good = set()
            for i in region:
                n = cfg.nodes[i]
                if n.kind == "branch" and n.test is not None and f"len({v})" in text(n.test):
                    if self._good(v, d, n, L):
                        good.add(i)
            if self._good(v, d, at, L):
                return True, ""
            if at.id not in reach_stop(self.fm, d, redefs | good, set()):
                return True, ""
            H = self._hyp(v, at)
            try:
                cex = logic.counterexample(logic.Or(logic.Not(H), logic.Lt(f"len({v})", L)))
            except logic.TooBig:
                cex = "?"
            return False, (f"`{v}` was enumerated with solution_limit={L} (line {d.lineno}) and a path reaches this use "
                           f"without establishing `len({v}) < {L}`: the list may be truncated (an ordering that is not "
                           f"excluded here: {cex})")
        if d.kind == "stmt" and isinstance(a, (ast.Assign, ast.AnnAssign)) and a.value is not None:
            val = a.value
            if isinstance(val, ast.Name) and depth < 6:
                return self.complete_at(val.id, d)
            # anything else (filters, maps, literals) is complete if its inputs were -- inputs are consumption
            # points themselves and are checked where they are consumed
            return True, ""
        return True, ""


def _rename(f, old: str, new: str):
    k = f[0]
    if k == "atom":
        a = f[1]
        if a[0] == "b":
            return f
        return ("atom", (a[0],) + tuple(new if t == old else t for t in a[1:])) if a[0] == "lt" else \
            logic.Eq(*[new if t == old else t for t in a[1:]])
    if k == "not":
        return ("not", _rename(f[1], old, new))
    if k in ("and", "or"):
        return (k, [_rename(g, old, new) for g in f[1]])
    return f


def _weaken(f):
    """x == 0 | x < B | x <= B stay valid for a list that is not longer: nothing to change."""
    return f


# ------------------------------------------------------------------------------------------ consumption points
def consumptions(fm: FuncModel, v: str):
    """(cfg node, ast node, kind) where list variable v is consumed (not merely measured)."""
    out = []
    for n in fm.cfg.nodes:
        if n.id not in fm.cfg.g or n.ast is None or n.kind not in ("stmt", "test", "for"):
            continue
        root = n.ast.iter if n.kind == "for" else n.ast
        if n.kind == "stmt" and isinstance(root, (ast.FunctionDef, ast.ClassDef)):
            continue
        for x in ast.walk(root):
            if not (isinstance(x, ast.Name) and x.id == v and isinstance(x.ctx, ast.Load)):
                continue
            par = fm.f.parents.get(x)
            # measured only
            if isinstance(par, ast.Call) and callee_name(par) == "len":
                continue
            if _in_print(fm, x):
                continue
            kind = "use"
            if isinstance(par, ast.Return) or any(isinstance(a, ast.Return) for a in fm.f.ancestors(x)):
                kind = "return"
            elif isinstance(par, (ast.Assign, ast.AnnAssign)) and par.value is x:
                kind = "copy"
            elif isinstance(par, ast.keyword) or isinstance(par, ast.Call):
                kind = "argument"
            elif isinstance(par, ast.comprehension) or n.kind == "for":
                kind = "iteration"
            out.append((n, x, kind))
    return out


def _in_print(fm: FuncModel, x: ast.AST) -> bool:
    for a in fm.f.ancestors(x):
        if isinstance(a, ast.Call) and callee_name(a) == "print":
            return True
        if isinstance(a, ast.stmt):
            return False
    return False


# ------------------------------------------------------------------------------------------ K2
def k2(ck: Check) -> None:
    prog = ck.prog
    for fm in prog.models():
        sites = enum_sites(fm)
        if not sites:
            continue
        comp = Completeness(ck, fm)
        vars_ = sorted({v for _, v, _, _ in sites})
        # also variables that receive copies of enumeration results (the candidate variable)
        copies = set()
        for v in vars_:
            for n, x, kind in consumptions(fm, v):
                if kind == "copy":
                    tg = n.ast.targets[0] if isinstance(n.ast, ast.Assign) else n.ast.target
                    if isinstance(tg, ast.Name):
                        copies.add(tg.id)
        for v in vars_:
            for n, x, kind in consumptions(fm, v):
                defs = [d for d in fm.cfg.reaching_defs(v, n) if d.id in comp.by_def]
                if not defs:
                    continue  # copies/filters: their inputs were checked where they were consumed
                whys = []
                for d in defs:
                    ok1, why1 = comp._def_complete(v, d, n)
                    if not ok1:
                        whys.append(why1)
                ok, why = (not whys), "; ".join(whys)
                ck.ob("K2", fm, fm.f.stmt_of(x) if n.kind != "test" else fm.f.stmt_of(x), ok,
                      why if not ok else f"`{v}` is complete where it is consumed ({kind})",
                      key=f"{kind} of {v} @ {text(fm.f.stmt_of(x))[:90]}")
        # emptiness decisions: a branch taken because len(V) == 0 for a possibly truncated V
        for b in fm.cfg.nodes:
            if b.kind != "branch" or b.test is None or b.id not in fm.cfg.g:
                continue
            tnode = fm.cfg.nodes[next(iter(fm.cfg.g.predecessors(b.id)))]
            for v in vars_:
                if f"len({v})" not in text(b.test):
                    continue
                defs = [d for d in fm.cfg.reaching_defs(v, tnode) if d.id in comp.by_def]
                if not defs:
                    continue
                own = comp.tr(b).f(b.test)
                own = own if b.pol else logic.Not(own)
                try:
                    if not logic.implies(own, logic.Eq(f"len({v})", "0")):
                        continue
                except logic.TooBig:
                    continue
                probs = []
                for d in defs:
                    lim = comp.by_def[d.id][2]
                    if lim is None or (isinstance(lim, ast.Constant) and isinstance(lim.value, int) and lim.value >= 1):
                        continue
                    if isinstance(lim, ast.Constant):
                        probs.append(f"`{v}` was enumerated with solution_limit={lim.value}: it is always empty, so its "
                                     f"emptiness proves nothing")
                        continue
                    ok1, why1 = comp._def_complete(v, d, b)
                    if not ok1:
                        probs.append(why1)
                ck.ob("K2", fm, fm.f.stmt_of(b.test) if b.test in fm.f.parents else b.stmt, not probs,
                      "; ".join(probs) if probs else f"'nothing found' concluded from an empty list `{v}` that is complete",
                      key=f"empty decision on {v}: {text(b.test)[:70]}")


def _returns_empty(v: ast.AST) -> bool:
    if is_empty_list(v):
        return True
    if isinstance(v, ast.Tuple) and v.elts and is_empty_list(v.elts[-1]):
        return True
    return False


# ------------------------------------------------------------------------------------------ K1
def k1(ck: Check, fm: FuncModel) -> None:
    f = fm.f
    sd_p, node_p = f.params()[0], f.params()[1]
    space_key = f"FIELD<{sd_p}|{node_p}|space>"
    comp = Completeness(ck, fm)
    cand_vars = _candidate_vars(fm)
    for n in own_walk(f.node):
        if not isinstance(n, ast.Return) or n.value is None:
            continue
        rn = fm.cfgn(n)
        v = n.value
        if isinstance(v, ast.Name) and v.id not in cand_vars:
            v = fm.deref(v, rn)      # a local that holds the result (left behind by an inlined helper)
        probs = []
        if is_empty_list(v):
            pc = fm.pc(rn)
            ok = False
            # (a) documented exemption: NFVS empty and the node has child motifs
            nf = _nfvs_var(fm)
            if nf is not None:
                cm = next((n_.targets[0].id for n_ in own_walk(f.node) if isinstance(n_, ast.Assign) and isinstance(n_.targets[0], ast.Name)
                           and isinstance(n_.value, ast.ListComp) and any(isinstance(c_, ast.Call) and callee_name(c_) == "edge_stable_motif"
                                                                          for c_ in ast.walk(n_.value))), "child_motifs_reduced")
                ex = logic.And(logic.Not(logic.Lt("0", f"len({nf})")), logic.Lt("0", f"len({cm})"))
                try:
                    if logic.implies(pc, ex):
                        ok = True
                except logic.TooBig:
                    pass
            # (b) after an emptiness test of a candidate list (completeness is K2)
            for cv in cand_vars:
                t = f"len({cv})"
                if t in {x for a in logic.atoms(pc) if a[0] != "b" for x in a[1:]}:
                    try:
                        if logic.implies(pc, logic.Not(logic.Lt("0", t))):
                            ok = True
                    except logic.TooBig:
                        pass
            if not ok:
                probs.append(f"an empty candidate list is returned without an emptiness test of a complete candidate list "
                             f"and outside the empty-NFVS exemption (path condition {logic.show(pc)[:200]})")
        elif isinstance(v, ast.List) and len(v.elts) == 1:
            e = v.elts[0]
            ek = fm.key(e, rn)
            if ek == space_key:
                pc = fm.pc(rn, numeric={f"{sd_p}.network.variable_count()"})
                want = logic.Eq(f"len({space_key})", f"{sd_p}.network.variable_count()")
                if not logic.implies(pc, want):
                    probs.append("the node space is returned as a state although it may not fix every variable")
            elif isinstance(e, ast.BinOp) and isinstance(e.op, ast.BitOr):
                sides = [e.left, e.right]
                sp = [s for s in sides if fm.key(s, rn) == space_key]
                ot = [s for s in sides if fm.key(s, rn) != space_key]
                if len(sp) != 1:
                    probs.append(f"returned state `{text(e)}` is not joined with the node's space (reduced coordinates)")
                elif not (isinstance(ot[0], ast.Subscript) and isinstance(ot[0].value, ast.Name) and ot[0].value.id in cand_vars):
                    probs.append(f"returned state `{text(ot[0])}` is not an element of a candidate list (e.g. a retained "
                                 f"set is a description of a network modification, not a state that covers attractors)")
                else:
                    # one element stands for the whole list only if it is the whole list
                    L_ = f"len({ot[0].value.id})"
                    pc = fm.pc(rn, numeric={L_})
                    try:
                        one = L_ in {x for a_ in logic.atoms(pc) if a_[0] != "b" for x in a_[1:]} and logic.implies(pc, logic.Eq(L_, "1"))
                    except logic.TooBig:
                        one = False
                    if not one:
                        probs.append(f"`{text(ot[0])}` alone is returned although `{ot[0].value.id}` may hold several candidates (path "
                                     f"condition {logic.show(pc)[:120]}): a node without known successors covers every attractor below "
                                     f"it, and all candidates but one are dropped")
            else:
                probs.append(f"returned state `{text(e)}` has unknown origin / coordinates")
        elif isinstance(v, ast.Name) and v.id in cand_vars:
            # final return: every reaching definition is a map `x | node_space` over a candidate list
            for d in fm.cfg.reaching_defs(v.id, rn):
                a = d.ast
                val = a.value if d.kind == "stmt" and isinstance(a, (ast.Assign, ast.AnnAssign)) else None
                if not (isinstance(val, ast.ListComp) and len(val.generators) == 1 and not val.generators[0].ifs
                        and isinstance(val.elt, ast.BinOp) and isinstance(val.elt.op, ast.BitOr)
                        and space_key in (fm.key(val.elt.left, d), fm.key(val.elt.right, d))
                        and isinstance(val.generators[0].iter, ast.Name) and val.generators[0].iter.id in cand_vars):
                    probs.append(f"line {d.lineno}: the returned list is not `[x | node_space for x in candidates]` "
                                 f"(reduced states, a filtered comprehension, or another list would be returned)")
        elif isinstance(v, ast.ListComp) and len(v.generators) == 1 and not v.generators[0].ifs \
                and isinstance(v.elt, ast.BinOp) and isinstance(v.elt.op, ast.BitOr) \
                and space_key in (fm.key(v.elt.left, rn), fm.key(v.elt.right, rn)) \
                and isinstance(v.generators[0].iter, ast.Name) and v.generators[0].iter.id in cand_vars:
            pass        # `return [x | node_space for x in candidates]` without a name for the list
        else:
            probs.append(f"return value `{text(v)[:60]}` of unknown shape")
        ck.ob("K1", fm, n, not probs, "; ".join(probs) if probs else "returned list has candidate provenance and full coordinates")
    # candidates leave the list only through the eliminations that prove something about them (simulation into a child
    # space, pint reachability): a filter of any other kind drops attractors
    for n in own_walk(f.node):
        if isinstance(n, ast.Assign) and isinstance(n.targets[0], ast.Name) and n.targets[0].id in cand_vars \
                and isinstance(n.value, (ast.ListComp, ast.GeneratorExp)) and any(g_.ifs for g_ in n.value.generators) \
                and isinstance(n.value.generators[0].iter, ast.Name) and n.value.generators[0].iter.id in cand_vars:
            ck.ob("K1", fm, n, False,
                  f"candidates are removed by the filter `{text(n.value.generators[0].ifs[0])[:70]}`: a candidate may only be discarded "
                  f"by an elimination that shows its state is not in an attractor of this node (simulation, reachability); "
                  f"every attractor whose only candidate is filtered out is lost", key=f"filter on {n.targets[0].id}")
    # placeholders
    for cv in cand_vars:
        for d in fm.cfg.nodes:
            if d.kind == "stmt" and isinstance(d.ast, (ast.Assign, ast.AnnAssign)) and d.ast.value is not None \
                    and is_empty_list(d.ast.value) and text(d.ast.targets[0] if isinstance(d.ast, ast.Assign) else d.ast.target) == cv:
                ok, why = _placeholder_dead(fm, cv, d)
                ck.ob("K1", fm, d.ast, ok, why)


def _candidate_vars(fm: FuncModel) -> set[str]:
    out = {v for _, v, _, _ in enum_sites(fm)}
    changed = True
    while changed:
        changed = False
        for n in fm.cfg.nodes:
            if n.kind == "stmt" and isinstance(n.ast, ast.Assign) and isinstance(n.ast.targets[0], ast.Name):
                t = n.ast.targets[0].id
                v = n.ast.value
                src = None
                if isinstance(v, ast.Name):
                    src = v.id
                elif isinstance(v, ast.Call) and callee_name(v) == "run_simulation_minification":
                    src = next((text(a) for a in v.args if isinstance(a, ast.Name) and a.id in out), None)
                elif isinstance(v, ast.Subscript) and isinstance(v.value, ast.Name):
                    sd = fm.single_def(v.value.id, n)
                    if sd and isinstance(sd[1], ast.Call) and callee_name(sd[1]) == "asp_greedy_retained_set_optimization":
                        if isinstance(v.slice, ast.Constant) and v.slice.value == 1:
                            src = next(iter(out))
                elif isinstance(v, ast.ListComp) and isinstance(v.generators[0].iter, ast.Name):
                    src = v.generators[0].iter.id
                if src in out and t not in out:
                    out.add(t)
                    changed = True
            # lists filled by appending elements of a candidate list (pint filter)
            if n.kind == "for" and isinstance(n.ast.iter, ast.Call) and callee_name(n.ast.iter) == "enumerate" \
                    and isinstance(n.ast.iter.args[0], ast.Name) and n.ast.iter.args[0].id in out:
                for c in ast.walk(n.ast):
                    if isinstance(c, ast.Call) and isinstance(c.func, ast.Attribute) and c.func.attr == "append" \
                            and isinstance(c.func.value, ast.Name) and c.func.value.id not in out:
                        out.add(c.func.value.id)
                        changed = True
    return out


def _nfvs_var(fm: FuncModel) -> str | None:
    for n in fm.cfg.nodes:
        if n.kind == "stmt" and isinstance(n.ast, ast.Assign) and isinstance(n.ast.value, ast.Call) \
                and callee_name(n.ast.value) == "node_percolated_nfvs" and isinstance(n.ast.targets[0], ast.Name):
            a = n.ast.value
            if a.args and text(a.args[0]) == fm.f.params()[1]:
                return n.ast.targets[0].id
    return None


def _placeholder_dead(fm: FuncModel, cv: str, d) -> tuple[bool, str]:
    """The empty placeholder assigned at d can reach a consumer only through a zero-trip loop edge that the path
    condition excludes."""
    cfg = fm.cfg
    for n in cfg.nodes:
        if n.kind == "stmt" and n.ast is not None and not isinstance(n.ast, (ast.FunctionDef, ast.ClassDef)):
            for c in ast.walk(n.ast):
                if isinstance(c, ast.Call) and isinstance(c.func, ast.Attribute) and c.func.attr in ("append", "extend") \
                        and isinstance(c.func.value, ast.Name) and c.func.value.id == cv:
                    return True, f"`{cv}` is an accumulator filled by {c.func.attr}(), not a placeholder"
    redefs = {n.id for n in cfg.nodes if n is not d and n.id in cfg.g and cv in cfg.defs_of(n)}
    reach = reach_stop(fm, d, redefs, set())
    cons = [(n, x, k) for n, x, k in consumptions(fm, cv) if n.id in reach]
    # emptiness tests that lead to `return []` also consume the placeholder
    tests = [n for n in cfg.nodes if n.id in reach and n.kind == "test" and f"len({cv})" in text(n.ast)]
    if not cons and not tests:
        return True, f"placeholder `{cv} = []` is overwritten before any use"
    # it must be followed by a loop that redefines cv on every iteration path and cannot run zero times
    loops = [l for l in cfg.loop_nodes if isinstance(l, ast.For) and cfg.loop_header[l].id in reach]
    for l in loops:
        hdr = cfg.loop_header[l]
        if not cfg.dominates(d, hdr):
            continue
        tb = next(cfg.nodes[s] for s in cfg.g.successors(hdr.id) if cfg.nodes[s].kind == "branch" and cfg.nodes[s].pol)
        ids = cfg.loop_nodes[l]
        # (i) every path through the body redefines cv
        seen = set()
        todo = [tb.id]
        escapes_body = False
        while todo:
            i = todo.pop()
            if i in seen or i in redefs:
                continue
            seen.add(i)
            if i == hdr.id:
                escapes_body = True
                break
            for s in cfg.g.successors(i):
                if s in ids or s == hdr.id:
                    todo.append(s)
                elif s not in redefs:
                    # leaving the loop (break) with the placeholder intact
                    pass
        if escapes_body:
            return False, (f"the empty placeholder `{cv} = []` survives an iteration of the loop at line {hdr.lineno} and "
                           f"can be returned as the (empty) candidate list")
        # (ii) the zero-trip edge is excluded
        it = l.iter
        if not isinstance(it, ast.Name):
            return False, f"placeholder before a loop over `{text(it)}`: cannot exclude zero iterations"
        pc = fm.pc(hdr)
        t = f"len({it.id})"
        try:
            ok = t in {x for a in logic.atoms(pc) if a[0] != "b" for x in a[1:]} and logic.implies(pc, logic.Lt("0", t))
        except logic.TooBig:
            ok = False
        if not ok:
            return False, (f"the loop over `{it.id}` at line {hdr.lineno} may run zero times (nothing on the path implies "
                           f"len({it.id}) > 0); the placeholder `{cv} = []` assigned at line {d.lineno} is then returned: "
                           f"an empty candidate list although attractors exist")
        return True, f"placeholder `{cv} = []` is dead: the loop over `{it.id}` runs at least once and always redefines it"
    return False, f"placeholder `{cv} = []` at line {d.lineno} can reach a use of `{cv}`"


# ------------------------------------------------------------------------------------------ K3
def k4_decoder(ck: Check) -> None:
    """`valuation_to_state` (the way surviving candidates come back from the simulation): every BDD variable that stands for a
    network variable contributes its value under that variable's name; only the others (parameters) are skipped."""
    try:
        fm = ck.prog.fm("biobalm.symbolic_utils", "valuation_to_state")
    except Exception:
        raise AnalysisError("anchor vanished: biobalm.symbolic_utils.valuation_to_state")
    f = fm.f
    loops = [n for n in own_walk(f.node) if isinstance(n, ast.For) and isinstance(n.iter, ast.Call) and callee_name(n.iter) == "items"]
    stores = [n for n in own_walk(f.node) if isinstance(n, ast.Assign) and isinstance(n.targets[0], ast.Subscript)]
    probs = []
    if len(loops) != 1 or len(stores) != 1 or not isinstance(loops[0].target, ast.Tuple) or len(loops[0].target.elts) != 2:
        raise AnalysisError("anchor vanished: item loop / store of valuation_to_state")
    lp, st = loops[0], stores[0]
    bvar, bval = (text(e) for e in lp.target.elts)
    cn = fm.cfgn(st)
    # the network variable is looked up from the BDD variable of this item
    nv = None
    for y in ast.walk(st.targets[0].slice):
        if isinstance(y, ast.Name):
            d = fm.deref(y, cn)
            if isinstance(d, ast.Call) and callee_name(d) == "find_network_variable" and d.args and text(d.args[0]) == bvar:
                nv = y.id
    if nv is None or callee_name(st.targets[0].slice) != "get_network_variable_name":
        probs.append("the key of the result is not the name of the network variable found for the item's BDD variable")
    if bval not in {y.id for y in ast.walk(st.value) if isinstance(y, ast.Name)}:
        probs.append("the stored value is not the item's value")
    if nv is not None:
        pc = fm.pc(cn)
        at = logic.B(f"none:{nv}")
        try:
            guard_ok = logic.equivalent(pc, logic.Not(at)) or logic.equivalent(pc, logic.TRUE)
        except logic.TooBig:
            guard_ok = False
        if not guard_ok:
            probs.append(f"the value is stored under `{logic.show(pc)[:60]}`: every item whose BDD variable stands for a network variable "
                         f"(`{nv} is not None`) must be stored, and only those")
    ck.ob("K4", fm, st, not probs, "; ".join(probs) if probs else
          "every network variable of the valuation is decoded under its own name", key="valuation decoder")


def k3_pint(ck: Check, fm: FuncModel) -> None:
    """The reachability filter (pint) drops a candidate only when the tool has shown that the state reaches the rest of the
    avoided region; 'cannot verify' and 'not reachable' both keep it."""
    from .c13 import _tbranch
    from .common import paths_imply
    f = fm.f
    for lp in [n for n in own_walk(f.node) if isinstance(n, ast.For)]:
        calls = [c for c in ast.walk(lp) if isinstance(c, ast.Call) and callee_name(c) == "pint_reachability"]
        if not calls:
            continue
        if any(isinstance(l2, ast.For) and l2 is not lp and any(c in list(ast.walk(l2)) for c in calls) for l2 in ast.walk(lp)):
            continue        # the innermost loop that holds the call is the filter loop
        keeps = [c for c in ast.walk(lp) if isinstance(c, ast.Call) and isinstance(c.func, ast.Attribute) and c.func.attr == "append"
                 and c.args and isinstance(lp.target, (ast.Tuple, ast.Name))
                 and text(c.args[0]) in ([text(e) for e in lp.target.elts] if isinstance(lp.target, ast.Tuple) else [text(lp.target)])]
        probs = []
        if not keeps:
            probs.append("no candidate is ever kept by the reachability filter")
        else:
            tr = logic.Translator(lambda e: text(e))
            hit = logic.Or(*[logic.B("T:" + text(c)) for c in calls])
            why = paths_imply(fm, _tbranch(fm, lp), fm.cfg.loop_header[lp], hit, tr, stop={fm.cfgn(k).id for k in keeps})
            if why is not None:
                probs.append(f"a candidate is dropped although the reachability tool has not shown that it reaches the avoided region: {why}")
        ck.ob("K3", fm, lp, not probs, "; ".join(probs) if probs else
              "the reachability filter drops a state only on a positive answer of the tool", key="pint filter: drop discipline")


def k3(ck: Check, fm: FuncModel) -> None:
    f = fm.f
    sd_p, node_p = f.params()[0], f.params()[1]
    for d, v, c, lim in enum_sites(fm):
        probs = []
        net = c.args[0] if c.args else None
        ok_net = False
        if isinstance(net, ast.Name):
            sd = fm.single_def(net.id, d)
            if sd and isinstance(sd[1], ast.Call) and callee_name(sd[1]) == "node_percolated_petri_net" \
                    and text(sd[1].func.value) == sd_p and text(sd[1].args[0]) == node_p:
                ok_net = True
        if not ok_net:
            probs.append(f"enumeration runs on `{text(net) if net is not None else '?'}`, not on the node's own percolated Petri net")
        av = next((k.value for k in c.keywords if k.arg == "avoid_subspaces"), None)
        if av is None:
            probs.append("child motifs are not avoided (attractors of successors would be covered again; harmless) ")
            probs.pop()
        elif not (isinstance(av, ast.Name) and _reduced_motifs(fm, av.id, d, sd_p, node_p)):
            probs.append(f"avoid_subspaces `{text(av)}` is not the list of reduced child motifs of this node")
        es = next((k.value for k in c.keywords if k.arg == "ensure_subspace"), None)
        if es is not None:
            probs.append("ensure_subspace restricts the enumeration (attractors outside it would be lost)")
        ck.ob("K3", fm, d.ast, not probs, "; ".join(probs) if probs else
              "enumeration on the node's own reduced net, avoiding reduced child motifs")
    # graph used by filters is built from the node's own percolated network
    for n in own_walk(f.node):
        if isinstance(n, ast.Call) and callee_name(n) == "run_simulation_minification":
            g = n.args[2] if len(n.args) > 2 else None
            cn = fm.cfgn(n)
            ok = False
            if isinstance(g, ast.Name):
                sd = fm.single_def(g.id, cn)
                if sd and isinstance(sd[1], ast.Call) and callee_name(sd[1]) == "AsynchronousGraph" and isinstance(sd[1].args[0], ast.Name):
                    sd2 = fm.single_def(sd[1].args[0].id, sd[0])
                    if sd2 and isinstance(sd2[1], ast.Call) and callee_name(sd2[1]) == "node_percolated_network" \
                            and text(sd2[1].args[0]) == node_p:
                        ok = True
            ck.ob("K3", fm, fm.f.stmt_of(n), ok, "simulation runs on the node's own percolated network" if ok else
                  "simulation filter runs on a graph that is not the node's percolated network")
            av = n.args[4] if len(n.args) > 4 else None
            okav = False
            if isinstance(av, ast.Name):
                sd = fm.single_def(av.id, cn)
                if sd and isinstance(sd[1], ast.Call) and callee_name(sd[1]) == "state_list_to_bdd" and len(sd[1].args) == 2 \
                        and isinstance(sd[1].args[1], ast.Name) and _reduced_motifs(fm, sd[1].args[1].id, sd[0], sd_p, node_p):
                    okav = True
            ck.ob("K3", fm, fm.f.stmt_of(n), okav, "simulation avoid set = reduced child motifs" if okav else
                  "the avoid set of the simulation filter is not built from the node's reduced child motifs",
                  key="simulation avoid set")


def _alternatives(fm: FuncModel, e: ast.expr, at, depth: int = 0) -> list[ast.expr]:
    """The expressions a value can come from: both arms of a conditional expression, every plain definition of a local."""
    if depth > 4:
        return [e]
    if isinstance(e, ast.IfExp):
        return _alternatives(fm, e.body, at, depth + 1) + _alternatives(fm, e.orelse, at, depth + 1)
    if isinstance(e, ast.Name):
        defs = fm.cfg.reaching_defs(e.id, at)
        out = []
        for d in defs:
            a = d.ast
            if not (d.kind == "stmt" and isinstance(a, ast.Assign) and len(a.targets) == 1 and isinstance(a.targets[0], ast.Name)):
                return [e]
            out += _alternatives(fm, a.value, d, depth + 1)
        return out or [e]
    return [e]


def _reduced_motifs(fm: FuncModel, name: str, at, sd_p: str, node_p: str) -> bool:
    """All definitions/extensions of the list are reduced motifs of this node's edges (or intersections reduced to
    the node's free variables)."""
    for d in fm.cfg.reaching_defs(name, at):
        a = d.ast
        val = a.value if d.kind == "stmt" and isinstance(a, (ast.Assign, ast.AnnAssign)) else None
        if val is None:
            return False
        if is_empty_list(val):
            continue
        if isinstance(val, ast.ListComp) and isinstance(val.elt, ast.Call) and callee_name(val.elt) == "edge_stable_motif":
            c = val.elt
            red = next((k.value for k in c.keywords if k.arg == "reduced"), c.args[2] if len(c.args) > 2 else None)
            if not (is_true(red) and text(c.args[0]) == node_p):
                return False
            it = val.generators[0].iter
            for src in _alternatives(fm, it, d):
                # the successors of the node, or nothing (`... if expanded else []`)
                if is_empty_list(src):
                    continue
                if not (isinstance(src, ast.Call) and callee_name(src) == "node_successors" and text(src.args[0]) == node_p):
                    return False
            if val.generators[0].ifs:
                return False
            continue
        return False
    # nothing else may be added to the avoided region: only the node's own successors bound the search
    for n in fm.cfg.nodes:
        if n.kind == "stmt" and n.ast is not None and not isinstance(n.ast, (ast.FunctionDef, ast.ClassDef)):
            for c in ast.walk(n.ast):
                if isinstance(c, ast.Call) and isinstance(c.func, ast.Attribute) and c.func.attr in ("append", "extend", "insert") \
                        and isinstance(c.func.value, ast.Name) and c.func.value.id == name:
                    return False
            if isinstance(n.ast, ast.AugAssign) and isinstance(n.ast.target, ast.Name) and n.ast.target.id == name:
                return False
    return True


def pc_text(fm: FuncModel, n, numeric=None):
    """Path condition with plain-text atoms (no alias expansion)."""
    tr = logic.Translator(lambda e: text(e), numeric=numeric or set())
    fs = []
    for test, pol, b in fm.facts(n):
        f = tr.f(test)
        fs.append(f if pol else logic.Not(f))
    return logic.And(*fs)


# ------------------------------------------------------------------------------------------ K4
def k4(ck: Check) -> None:
    fm = ck.prog.fm(CAND_MOD, "run_simulation_minification")
    f = fm.f
    # the two branches: `if not avoid_bdd.is_false():` ... else ...
    def _split_test(s_):
        """the test of the split, with a Boolean local (`nothing_to_avoid = avoid_bdd.is_false()`) read through"""
        t_, neg = s_.test, False
        while isinstance(t_, ast.UnaryOp) and isinstance(t_.op, ast.Not):
            t_, neg = t_.operand, not neg
        if isinstance(t_, ast.Name):
            d_ = fm.deref(t_, fm.cfgn(s_.test))
            while isinstance(d_, ast.UnaryOp) and isinstance(d_.op, ast.Not):
                d_, neg = d_.operand, not neg
            t_ = d_
        return t_, neg
    top = [s for s in f.node.body if isinstance(s, ast.If) and _split_test(s)[0] is not None and "is_false" in text(_split_test(s)[0])]
    if len(top) != 1:
        raise AnalysisError("anchor vanished: avoid/no-avoid split of run_simulation_minification")
    br = top[0]
    pol_avoid = _split_test(br)[1]
    body_, orelse_ = br.body, br.orelse
    rest_ = f.node.body[f.node.body.index(br) + 1:]
    if not orelse_ and body_ and isinstance(body_[-1], (ast.Return, ast.Raise)):
        orelse_ = rest_          # early-return style: the statements after the `if` are the other branch
    avoid_body, noavoid_body = (body_, orelse_) if pol_avoid else (orelse_, body_)
    # ---- avoid branch
    loop = next((s for s in avoid_body if isinstance(s, ast.For)), None)
    if loop is None:
        raise AnalysisError("anchor vanished: candidate loop of the avoid branch")
    def _cand_bdd(body_x):
        """the BDD of the candidate list used by this branch: built inside it, or once in front of the split"""
        for s_ in body_x:
            if isinstance(s_, ast.Assign) and isinstance(s_.value, ast.Call) and callee_name(s_.value) == "state_list_to_bdd":
                return s_.targets[0].id
        used = {y.id for s_ in body_x for y in ast.walk(s_) if isinstance(y, ast.Name)}
        for s_ in f.node.body[:f.node.body.index(br)]:
            if isinstance(s_, ast.Assign) and isinstance(s_.value, ast.Call) and callee_name(s_.value) == "state_list_to_bdd" \
                    and isinstance(s_.targets[0], ast.Name) and s_.targets[0].id in used and len(s_.value.args) == 2 \
                    and text(s_.value.args[1]) in f.params():
                return s_.targets[0].id
        return None
    cb = _cand_bdd(avoid_body)
    probs = []
    sub = [s for s in loop.body if isinstance(s, ast.Assign) and isinstance(s.targets[0], ast.Name) and s.targets[0].id == cb
           and isinstance(s.value, ast.Call) and callee_name(s.value) == "l_and_not"]
    walk = next((s for s in loop.body if isinstance(s, ast.For)), None)
    if not sub or walk is None or sub[0].lineno > walk.lineno:
        probs.append("the current state is not removed from the candidate set before its random walk: it 'reaches "
                     "itself' and is dropped (attractor lost)")
    ck.ob("K4", fm, loop, not probs, "; ".join(probs) if probs else "current state subtracted before its walk",
          key="avoid: subtract current state")
    # drops: an iteration that does not keep the state has seen candidates_bdd(sim) or avoid_bdd(sim) (flag, for/else, ...)
    probs = []
    from .c13 import _tbranch, _within
    from .common import paths_imply
    avoid_p = [p for p in f.params() if "avoid" in p][0]
    keeps = [n for n in ast.walk(loop) if isinstance(n, ast.Call) and isinstance(n.func, ast.Attribute)
             and n.func.attr == "append"]
    reun = [s for s in ast.walk(loop) if isinstance(s, ast.Assign) and isinstance(s.targets[0], ast.Name)
            and s.targets[0].id == cb and isinstance(s.value, ast.Call) and callee_name(s.value) == "l_or"]
    hdr = fm.cfg.loop_header[loop]
    tr = logic.Translator(lambda e: text(e))
    SIM = next((text(c_.args[0]) for c_ in ast.walk(loop) if isinstance(c_, ast.Call) and isinstance(c_.func, ast.Name)
                and c_.func.id in (cb, avoid_p) and len(c_.args) == 1), "simulation")   # the state of the random walk
    hit = logic.Or(logic.B(f"T:{cb}({SIM})"), logic.B(f"T:{avoid_p}({SIM})"))
    if not keeps:
        probs.append("no state is ever kept")
    else:
        kn = {fm.cfgn(k).id for k in keeps}
        why = paths_imply(fm, _tbranch(fm, loop), hdr, hit, tr, stop=kn)
        if why is not None:
            probs.append(f"a candidate is dropped although its walk reached neither another candidate nor the avoid set "
                         f"(e.g. when the step budget runs out): {why}")
        # a state that was ruled out is not kept
        for bnode in [fm.cfg.nodes[i] for i in fm.cfg.loop_nodes[loop]]:
            if bnode.kind == "branch" and bnode.pol and bnode.test is not None and logic.implies(tr.f(bnode.test), hit) \
                    and logic.atoms(tr.f(bnode.test)):
                for k in kn:
                    if k in _within(fm, loop, bnode, set()):
                        w2 = paths_imply(fm, bnode, fm.cfg.nodes[k], logic.FALSE, tr, stop={hdr.id})
                        if w2 is not None:
                            probs.append(f"a state is kept although it was ruled out ({w2})")
        if not reun:
            probs.append("a kept state is not put back into the candidate set")
        else:
            rn_ = {fm.cfgn(s).id for s in reun}
            for k in kn:
                kn_node = fm.cfg.nodes[k]
                before = all(fm.cfg.dominates(fm.cfg.nodes[r], kn_node) for r in rn_)
                after = hdr.id not in _within(fm, loop, kn_node, rn_)
                if not (before or after):
                    probs.append("kept state and candidate set are updated on different paths")
    ck.ob("K4", fm, loop, not probs, "; ".join(probs) if probs else
          "a state is dropped only when its walk hit another candidate or the avoid set; kept states are re-united",
          key="avoid: drop discipline")
    # the loop ranges over all candidate states
    it = loop.iter
    src = it.args[0] if isinstance(it, ast.Call) and callee_name(it) == "enumerate" else it
    okr = isinstance(src, ast.Name) and src.id in f.params()
    ck.ob("K4", fm, loop, okr, "every candidate is examined" if okr else f"avoid branch iterates `{text(it)}`", key="avoid: range")
    # ---- both branches: a walk advances one variable at a time (asynchronous semantics)
    UF = None
    for n in own_walk(f.node):
        if isinstance(n, ast.Assign) and isinstance(n.targets[0], ast.Name):
            v_ = n.value
            vals = [v_.value] if isinstance(v_, ast.DictComp) else []
            if vals and isinstance(vals[0], ast.Call) and callee_name(vals[0]) == "mk_update_function":
                UF = n.targets[0].id
    if UF is None:
        for n in own_walk(f.node):   # filled by a loop
            if isinstance(n, ast.Assign) and isinstance(n.targets[0], ast.Subscript) and isinstance(n.targets[0].value, ast.Name) \
                    and isinstance(n.value, ast.Call) and callee_name(n.value) == "mk_update_function":
                UF = n.targets[0].value.id
    if UF is None:
        raise AnalysisError("anchor vanished: table of update functions in run_simulation_minification")
    # the table pairs the symbolic variable of v with the update function of v. Written by position,
    # `{S[i]: G.mk_update_function(N[i]) for i in range(len(N))}`, that holds when S was filled by one pass over the same
    # list N, in its order
    for n in own_walk(f.node):
        if isinstance(n, ast.Assign) and isinstance(n.targets[0], ast.Name) and n.targets[0].id == UF and isinstance(n.value, ast.DictComp):
            dc = n.value
            g_ = dc.generators[0]
            if isinstance(dc.key, ast.Subscript) and isinstance(dc.key.value, ast.Name) and isinstance(dc.value, ast.Call) and dc.value.args \
                    and isinstance(dc.value.args[0], ast.Subscript) and isinstance(dc.value.args[0].value, ast.Name) \
                    and text(dc.key.slice) == text(dc.value.args[0].slice) == text(g_.target):
                S_, N_ = dc.key.value.id, dc.value.args[0].value.id
                apps = [c_ for c_ in own_walk(f.node) if isinstance(c_, ast.Call) and isinstance(c_.func, ast.Attribute)
                        and c_.func.attr == "append" and text(c_.func.value) == S_]
                okp = bool(apps)
                why_ = ""
                for c_ in apps:
                    lps_ = [l_ for l_ in fm.cfg.enclosing_loops(fm.cfgn(c_)) if isinstance(l_, ast.For)]
                    if not lps_ or text(lps_[0].iter) != N_:
                        okp = False
                        why_ = f"`{S_}` is filled by a loop over `{text(lps_[0].iter)[:50] if lps_ else '?'}`, the table reads `{N_}[i]`"
                ck.ob("K4", fm, n, okp, "symbolic variables and update functions are paired by one pass over the same list" if okp else
                      f"the table pairs `{S_}[i]` with the update function of `{N_}[i]`, but {why_ or 'the two lists are not built in step'}: "
                      f"when the two orders differ a symbolic variable gets the update function of another variable, the walk leaves "
                      f"the transition graph and candidates are dropped wrongly", key="update-function table pairing")
    walks = {text(c_.args[0]) for c_ in own_walk(f.node) if isinstance(c_, ast.Call) and isinstance(c_.func, ast.Subscript)
             and text(c_.func.value) == UF and len(c_.args) == 1}
    n_steps = 0
    for n in own_walk(f.node):
        if not (isinstance(n, ast.Assign) and isinstance(n.targets[0], ast.Subscript) and text(n.targets[0].value) in walks):
            continue
        SIMv, var = text(n.targets[0].value), text(n.targets[0].slice)
        cn_ = fm.cfgn(n)
        val, at_ = fm.deref_at(n.value, cn_)
        okv = isinstance(val, ast.Call) and isinstance(val.func, ast.Subscript) and text(val.func.value) == UF \
            and text(val.func.slice) == var and [text(a_) for a_ in val.args] == [SIMv]
        lp_eval = fm.cfg.enclosing_loops(at_)[:1]
        lp_store = fm.cfg.enclosing_loops(cn_)[:1]
        same_iter = (lp_eval == lp_store) or not lp_store
        n_steps += 1
        ck.ob("K4", fm, n, okv and same_iter,
              "one variable is updated with its own update function evaluated on the current state of the walk" if okv and same_iter else
              f"`{text(n)[:60]}`: the written value is not `{UF}[{var}]({SIMv})` evaluated on the walk's current state right "
              f"before the write; values computed ahead of the writes make the sweep a synchronous step, and a synchronous "
              f"successor need not be reachable asynchronously: the walk can leave its attractor, whose candidate is then lost",
              key=f"asynchronous step {n_steps}")
    if n_steps < 2:
        raise AnalysisError("anchor vanished: state updates of the simulation walks")
    # ---- no-avoid branch
    cb2 = _cand_bdd(noavoid_body)
    outer = next((s for s in noavoid_body if isinstance(s, ast.For)), None)
    probs = []
    if outer is None or cb2 is None:
        raise AnalysisError("anchor vanished: simulation rounds of the no-avoid branch")
    inner = next((s for s in outer.body if isinstance(s, ast.For)), None)
    newb = None
    for s in outer.body:
        if isinstance(s, ast.Assign) and isinstance(s.value, ast.Call) and callee_name(s.value) == "mk_constant" and is_false(s.value.args[0]):
            newb = s.targets[0].id
    if inner is None or newb is None:
        probs.append("round structure (fresh new set + loop over the old set) not recognised")
    else:
        if not (isinstance(inner.iter, ast.Call) and callee_name(inner.iter) == "valuation_iterator" and text(inner.iter.func.value) == cb2):
            probs.append("a round does not visit every remaining candidate")
        sv = text(inner.target)
        subs = [s for s in inner.body if isinstance(s, ast.Assign) and isinstance(s.targets[0], ast.Name) and s.targets[0].id == cb2
                and isinstance(s.value, ast.Call) and callee_name(s.value) == "l_and_not" and sv in text(s.value)]
        step = [s for s in inner.body if isinstance(s, ast.For)]
        if not subs or not step or subs[0].lineno > step[0].lineno:
            probs.append("the visited state is not removed from the old set before it is advanced: a state whose walk "
                         "returns to itself (e.g. a fixed point) is merged away with itself and every candidate can vanish")
        drops = [s for s in ast.walk(inner) if isinstance(s, ast.Continue)]
        for dnode in drops:
            pc = pc_text(fm, fm.cfgn(dnode))
            ats = {a[1] for a in logic.atoms(pc) if a[0] == "b"}
            SIM2 = next((text(c_.args[0]) for c_ in ast.walk(inner) if isinstance(c_, ast.Call) and isinstance(c_.func, ast.Name)
                         and c_.func.id in (cb2, newb) and len(c_.args) == 1), "simulation")
            want = logic.Or(*[logic.B(t) for t in ats if t in (f"T:{cb2}({SIM2})", f"T:{newb}({SIM2})")]) if ats else logic.FALSE
            if not logic.implies(pc, want):
                probs.append(f"line {dnode.lineno}: a state is dropped without having reached another remaining or new candidate")
        adds = [s for s in ast.walk(inner) if isinstance(s, ast.Assign) and isinstance(s.targets[0], ast.Name) and s.targets[0].id == newb
                and isinstance(s.value, ast.Call) and callee_name(s.value) == "l_or"]
        if not adds:
            probs.append("advanced states are not collected into the new set")
        elif any(a_ not in inner.body for a_ in adds):
            # the collection is conditional (`if not (reached another): new = new | state`): every way around it has seen the
            # walk reach a remaining or a new candidate
            SIM3 = next((text(c_.args[0]) for c_ in ast.walk(inner) if isinstance(c_, ast.Call) and isinstance(c_.func, ast.Name)
                         and c_.func.id in (cb2, newb) and len(c_.args) == 1), "simulation")
            hit2 = logic.Or(logic.B(f"T:{cb2}({SIM3})"), logic.B(f"T:{newb}({SIM3})"))
            why2 = paths_imply(fm, _tbranch(fm, inner), fm.cfg.loop_header[inner], hit2, tr, stop={fm.cfgn(a_).id for a_ in adds})
            if why2 is not None:
                probs.append(f"a state is dropped without having reached another remaining or new candidate: {why2}")
        sw = [s for s in outer.body if isinstance(s, ast.Assign) and isinstance(s.targets[0], ast.Name) and s.targets[0].id == cb2
              and text(s.value) == newb]
        if not sw:
            probs.append("the new set does not become the candidate set of the next round")
    ck.ob("K4", fm, outer, not probs, "; ".join(probs) if probs else
          "no-avoid rounds: visited state removed first, merged only into another candidate, survivors carried over",
          key="no-avoid: round discipline")
    # result read back from the final BDD
    probs = []
    tail = [s for s in noavoid_body if isinstance(s, ast.For) and s is not outer]
    its = [tail[-1].iter] if tail else []
    # ... or by a comprehension in / before the return
    for s_ in noavoid_body:
        if isinstance(s_, (ast.Return, ast.Assign)) and s_.value is not None and s_.lineno > outer.lineno:
            for c_ in ast.walk(s_.value):
                if isinstance(c_, ast.ListComp) and len(c_.generators) == 1 and not c_.generators[0].ifs:
                    its.append(c_.generators[0].iter)
    if not any(isinstance(it_, ast.Call) and callee_name(it_) == "valuation_iterator" and text(it_.func.value) == cb2 for it_ in its):
        probs.append("result is not read back from the final candidate set")
    elif tail and isinstance(tail[-1].iter, ast.Call) and callee_name(tail[-1].iter) == "valuation_iterator":
        # the read-back loop stores every state it visits in the list that is returned
        rl = tail[-1]
        rets_ = [r_ for r_ in noavoid_body if isinstance(r_, ast.Return) and isinstance(r_.value, ast.Name)]
        res_ = rets_[-1].value.id if rets_ else None
        unconditional = [st_ for st_ in rl.body if isinstance(st_, ast.Expr) and isinstance(st_.value, ast.Call)
                         and isinstance(st_.value.func, ast.Attribute) and st_.value.func.attr == "append"
                         and text(st_.value.func.value) == res_ and st_.value.args
                         and any(isinstance(y, ast.Name) and y.id == text(rl.target) for y in ast.walk(st_.value.args[0]))]
        if res_ is not None and not unconditional:
            probs.append(f"the states of the final candidate set are visited but not all collected in the returned list `{res_}`")
    brk = [s for s in ast.walk(outer) if isinstance(s, ast.Break)]
    for b in brk:
        pc = fm.pc(fm.cfgn(b), numeric=set())
        t = f"{cb2}.cardinality()"
        tr = logic.Translator(lambda e: text(e), numeric={t})
        facts = []
        for test, pol, bb in fm.facts(fm.cfgn(b)):
            ff = tr.f(test)
            facts.append(ff if pol else logic.Not(ff))
        if t in text(outer) and facts and not logic.implies(logic.And(*facts), logic.Le(t, "1")):
            probs.append("simulation stops early with more than one candidate left (fine) -- but the exit test is not `<= 1`")
            probs.pop()
    ck.ob("K4", fm, tail[-1] if tail else outer, not probs, "; ".join(probs) if probs else
          "result = states of the final candidate set", key="no-avoid: result")


# ------------------------------------------------------------------------------------------ K5
def k5(ck: Check) -> None:
    for fm in ck.prog.models():
        for n in own_walk(fm.f.node):
            if isinstance(n, ast.Call) and callee_name(n) == "feedback_vertex_set" and isinstance(n.func, ast.Name):
                par = call_arg(n, 1, "parity")
                def _par_ok(p_) -> bool:
                    if isinstance(p_, ast.IfExp):       # "negative" if small else None
                        return _par_ok(p_.body) and _par_ok(p_.orelse)
                    if isinstance(p_, ast.Name):
                        vd_ = fm.value_defs(p_.id, fm.cfgn(n))
                        return bool(vd_) and all(v_ is not None and _par_ok(v_) for _d, v_ in vd_)
                    return p_ is None or is_none(p_) or (isinstance(p_, ast.Constant) and p_.value == "negative")
                ok = _par_ok(par)
                probs = [] if ok else [f"feedback vertex set computed with parity={text(par)}: negative cycles may stay "
                                       f"uncovered, so complex attractors can have no candidate"]
                sub = call_arg(n, 2, "subgraph")
                if sub is not None and not is_none(sub):
                    probs.append(f"the feedback vertex set is searched inside `{text(sub)[:40]}` only: a cycle through a variable left "
                                 f"out (a negative self-loop is a cycle of length one) stays uncovered, and the attractors that "
                                 f"oscillate on it get no candidate")
                net = n.args[0] if n.args else None
                if fm.f.name == "node_percolated_nfvs" and isinstance(net, ast.Name):
                    sd = fm.single_def(net.id, fm.cfgn(n))
                    if not (sd and isinstance(sd[1], ast.Call) and callee_name(sd[1]) == "node_percolated_network"
                            and text(sd[1].args[0]) == fm.f.params()[1]):
                        probs.append("NFVS is not computed on the node's own percolated network")
                ck.ob("K5", fm, fm.f.stmt_of(n), not probs, "; ".join(probs) if probs else "NFVS parity negative/none on the node's network")


# ------------------------------------------------------------------------------------------ K7
def k7(ck: Check) -> None:
    """A retained set must give a value to *every* variable of the NFVS: with a partial retained set the remaining
    negative cycles still oscillate, the reduced STG has fewer (often no) fixed points and 'no candidate' proves nothing.
    Every loop that fills a retained set variable by variable visits the whole NFVS: it has no early exit, and every
    iteration leaves its variable in the set."""
    from .c13 import _within, _tbranch
    n_ = 0
    prog = ck.prog
    # roles: NFVS-valued names (results of node_percolated_nfvs, and parameters that receive one), retained-set names
    # (second argument of the reduced-STG solver / the greedy optimiser, and what make_heuristic_retained_set returns)
    nfvs_names: dict[str, set[str]] = {}
    rs_names: dict[str, set[str]] = {}
    models = [m for m in prog.models() if m.f.module.name == CAND_MOD]
    for m in models:
        for x in own_walk(m.f.node):
            if isinstance(x, ast.Assign) and isinstance(x.targets[0], ast.Name) and isinstance(x.value, ast.Call) \
                    and callee_name(x.value) == "node_percolated_nfvs":
                nfvs_names.setdefault(m.f.key, set()).add(x.targets[0].id)
            if isinstance(x, ast.Call) and callee_name(x) in ("compute_fixed_point_reduced_STG", "compute_fixed_point_reduced_STG_async",
                                                              "asp_greedy_retained_set_optimization"):
                idx = 3 if callee_name(x) == "asp_greedy_retained_set_optimization" else 1
                a_ = call_arg(x, idx, "retained_set")
                if isinstance(a_, ast.Name):
                    rs_names.setdefault(m.f.key, set()).add(a_.id)
        if m.f.name == "make_heuristic_retained_set":
            for r in own_walk(m.f.node):
                if isinstance(r, ast.Return) and isinstance(r.value, ast.Name):
                    rs_names.setdefault(m.f.key, set()).add(r.value.id)
    for _ in range(2):
        for m in models:
            for x in own_walk(m.f.node):
                if isinstance(x, ast.Call):
                    tgt = prog.repo.resolve_call(m.f, x)
                    if tgt and tgt in prog.repo.functions and tgt.startswith(CAND_MOD + ":"):
                        ps = prog.repo.functions[tgt].params()
                        for i, p_ in enumerate(ps):
                            a_ = call_arg(x, i, p_)
                            if isinstance(a_, ast.Name) and a_.id in nfvs_names.get(m.f.key, set()):
                                nfvs_names.setdefault(tgt, set()).add(p_)
    # the candidate search of a node is always given a retained set; leaving it out (or `{}`) means "retain nothing",
    # which is right only when the NFVS is empty
    cm = next((m for m in models if m.f.name == "compute_attractor_candidates"), None)
    if cm is not None:
        nf = _nfvs_var(cm)
        for x in own_walk(cm.f.node):
            if isinstance(x, ast.Call) and callee_name(x) in ("compute_fixed_point_reduced_STG", "compute_fixed_point_reduced_STG_async"):
                a_ = call_arg(x, 1, "retained_set")
                empty = a_ is None or is_none(a_) or (isinstance(a_, ast.Dict) and not a_.keys)
                if not empty:
                    continue
                n_ += 1
                pc = cm.pc(cm.cfgn(x), numeric={f"len({nf})"} if nf else None)
                try:
                    ok = nf is not None and logic.implies(pc, logic.Not(logic.Lt("0", f"len({nf})")))
                except logic.TooBig:
                    ok = False
                ck.ob("K7", cm, cm.f.stmt_of(x), ok, "no retained set where the NFVS is empty" if ok else
                      f"candidates are enumerated without a retained set although the NFVS may be non-empty (path condition "
                      f"{logic.show(pc)[:100]}): the fixed points of the unmodified network are only the fixed-point attractors, every "
                      f"complex attractor is left without a candidate", key="candidate search without retained set")
    for fm in models:
        f = fm.f
        for lp in own_walk(f.node):
            if not (isinstance(lp, ast.For) and isinstance(lp.target, ast.Name)):
                continue
            v = lp.target.id
            stores = [s_ for s_ in ast.walk(lp) if isinstance(s_, ast.Assign) and isinstance(s_.targets[0], ast.Subscript)
                      and isinstance(s_.targets[0].value, ast.Name) and text(s_.targets[0].slice) == v
                      and s_.targets[0].value.id in rs_names.get(f.key, set())]
            it = lp.iter
            while isinstance(it, ast.Call) and callee_name(it) in ("sorted", "list", "enumerate") and it.args:
                it = it.args[0]
            if not stores or not (isinstance(it, ast.Name) and it.id in nfvs_names.get(f.key, set())):
                continue
            q = f.name
            n_ += 1
            RS = stores[0].targets[0].value.id
            probs = []
            for x in ast.walk(lp):
                if isinstance(x, (ast.Break, ast.Return)) and fm.cfg.enclosing_loops(fm.cfgn(x))[:1] == [lp]:
                    probs.append(f"line {x.lineno}: `{text(x)[:30]}` leaves the loop before every NFVS variable has a value: the "
                                 f"retained set stays partial, and an empty or small candidate list obtained with it says "
                                 f"nothing about the node (attractors get no candidate)")
            hdr = fm.cfg.loop_header[lp]
            cuts = {fm.cfgn(s_).id for s_ in stores}
            # an iteration that stores nothing must know that the variable is in the set already
            for b in fm.cfg.nodes:
                if b.kind == "branch" and b.test is not None and b.id in fm.cfg.loop_nodes[lp]:
                    t, pol = b.test, b.pol
                    while isinstance(t, ast.UnaryOp) and isinstance(t.op, ast.Not):
                        t, pol = t.operand, not pol
                    if isinstance(t, ast.Compare) and len(t.ops) == 1 and text(t.left) == v and text(t.comparators[0]) == RS \
                            and ((isinstance(t.ops[0], ast.In) and pol) or (isinstance(t.ops[0], ast.NotIn) and not pol)):
                        cuts.add(b.id)
            if hdr.id in _within(fm, lp, _tbranch(fm, lp), cuts):
                probs.append("an iteration can pass without giving its NFVS variable a value in the retained set")
            ck.ob("K7", fm, lp, not probs, "; ".join(probs) if probs else
                  f"every NFVS variable gets a value in `{RS}` (no early exit, no iteration without a store)",
                  key=f"retained set covers the NFVS ({q})")
    if n_ == 0:
        raise AnalysisError("anchor vanished: loops that fill a retained set over the NFVS")


# ------------------------------------------------------------------------------------------ K6
def _fresh_copy_of(e: ast.AST, rs: str) -> bool:
    """`e` builds a new dict that starts from the entries of `rs` (so that changing it leaves `rs` alone)."""
    t = text(e)
    if t in (f"{rs}.copy()", f"dict({rs})", f"copy({rs})", f"copy.copy({rs})", f"deepcopy({rs})", f"copy.deepcopy({rs})"):
        return True
    if isinstance(e, ast.Call) and text(e.func) == "dict" and e.args and text(e.args[0]) == rs:
        return True
    if isinstance(e, ast.BinOp) and isinstance(e.op, ast.BitOr) and text(e.left) == rs:
        return True
    if isinstance(e, ast.Dict) and e.keys and e.keys[0] is None and text(e.values[0]) == rs:
        return True
    if isinstance(e, ast.DictComp) and len(e.generators) == 1 and text(e.generators[0].iter) in (f"{rs}.items()", rs):
        return True
    return False


def k6(ck: Check) -> None:
    fm = ck.prog.fm(CAND_MOD, "asp_greedy_retained_set_optimization")
    f = fm.f
    rs = next((p for p in f.params() if "retained" in p), None)
    cs = next((p for p in f.params() if "candidate" in p), None)
    if rs is None or cs is None:
        raise AnalysisError("anchor vanished: parameters of asp_greedy_retained_set_optimization")
    sites = enum_sites(fm)
    probs = []
    if len(sites) != 1:
        probs.append(f"{len(sites)} enumeration sites (one expected)")
    else:
        d, v2, c, lim = sites[0]
        rs2 = c.args[1] if len(c.args) > 1 else None
        # the trial enumeration is as wide as the one it replaces: no enclosing subspace (a fixed point of the flipped
        # reduction can hold the flipped variable at its old value while another retained variable is what stops it)
        es_ = next((k_.value for k_ in c.keywords if k_.arg == "ensure_subspace"), c.args[2] if len(c.args) > 2 else None)
        es_v = fm.deref(es_, d) if isinstance(es_, ast.Name) else es_
        if es_v is not None and not (is_none(es_v) or isinstance(es_v, ast.Dict) and not es_v.keys):
            probs.append(f"the trial enumeration is restricted by ensure_subspace=`{text(es_)[:50]}`: fixed points outside it are not "
                         f"counted, the shorter list passes the strict-decrease test, and attractors lose their candidates")
        if lim is None or text(lim) != f"len({cs})":
            probs.append(f"trial enumeration limited by `{text(lim) if lim is not None else None}`, not by len({cs}): a "
                         f"strictly smaller result would not be known to be complete")
        # accepted together under strict decrease
        acc_cs = [n for n in fm.cfg.nodes if n.kind == "stmt" and isinstance(n.ast, ast.Assign) and text(n.ast.targets[0]) == cs
                  and text(n.ast.value) == v2]
        acc_rs = [n for n in fm.cfg.nodes if n.kind == "stmt" and isinstance(n.ast, ast.Assign) and text(n.ast.targets[0]) == rs
                  and rs2 is not None and text(n.ast.value) == text(rs2)]
        if not acc_cs or not acc_rs:
            probs.append("retained set and candidate list are not replaced together")
        else:
            for a in acc_cs:
                tr = logic.Translator(lambda e: text(e))
                fs = []
                for test, pol, b in fm.facts(a):
                    ff = tr.f(test)
                    fs.append(ff if pol else logic.Not(ff))
                if not logic.implies(logic.And(*fs), logic.Lt(f"len({v2})", f"len({cs})")):
                    probs.append("a trial result is accepted without being strictly smaller (it may be truncated at the "
                                 "limit, and the search may cycle)")
                # same path replaces the retained set
                same = any(fm.cfg.dominates(a, r) or fm.cfg.dominates(r, a) for r in acc_rs)
                blk = {id(fm.f.parents.get(a.ast))} & {id(fm.f.parents.get(r.ast)) for r in acc_rs}
                if not same or not blk:
                    probs.append("candidate list replaced on a path where the retained set is not")
            for r in acc_rs:
                if not any(id(fm.f.parents.get(r.ast)) == id(fm.f.parents.get(a.ast)) for a in acc_cs):
                    probs.append("retained set replaced on a path where the candidate list is not: the returned pair is inconsistent")
        # the flipped copy differs from the retained set in exactly the flipped variable
        if isinstance(rs2, ast.Name):
            sd = fm.single_def(rs2.id, d)
            if not (sd and _fresh_copy_of(sd[1], rs)):
                probs.append("trial retained set is not a copy of the current one")
    ck.ob("K6", fm, f.node, not probs, "; ".join(probs) if probs else
          "trial accepted only if strictly smaller than the limit it was enumerated with; pair replaced together", key="greedy accept")
    # returns are consistent pairs
    probs = []
    for n in own_walk(f.node):
        if isinstance(n, ast.Return) and n.value is not None:
            v = n.value
            if not (isinstance(v, ast.Tuple) and len(v.elts) == 2 and text(v.elts[0]) == rs and
                    (text(v.elts[1]) == cs or is_empty_list(v.elts[1]))):
                probs.append(f"line {n.lineno}: returns `{text(v)}`")
            elif is_empty_list(v.elts[1]):
                pc = fm.pc(fm.cfgn(n))
                if not logic.implies(pc, logic.Not(logic.Lt("0", f"len({cs})"))):
                    probs.append(f"line {n.lineno}: empty list returned although the current list may not be empty")
    ck.ob("K6", fm, f.node, not probs, "; ".join(probs) if probs else "returns the current (retained set, candidates) pair",
          key="greedy returns")
