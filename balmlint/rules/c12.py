"""C12 -- attractor sets are the complete attractors and the symbolic fallback agrees (structural clauses)."""

from __future__ import annotations

import ast

from .. import logic
from ..program import FuncModel, call_arg
from ..report import Check
from ..repo import AnalysisError, dotted, own_walk, text
from .common import SD_MOD, callee_name, escapes, is_empty_list, is_false, is_none, is_true
from . import c01

SYM = "biobalm._sd_attractors.attractor_symbolic"

EXPLANATION = (
    "(A) context typing of the returned sets: every set appended to the result is the closure computed on the reduced "
    "graph, transferred with sd.symbolic.transfer_from(., the same reduced graph) and intersected with "
    "sd.symbolic.mk_subspace(node space); no step is skipped and no other graph is involved. (B) order contract: in the "
    "default method seed and set are recorded on the same path of the same iteration (shared with C01-S2), in the "
    "fallback both lists are appended unconditionally in one loop over the attractors. (C) node_attractor_sets "
    "recomputes from the node's own seeds, stores the second component, asserts it is not None, and the None left by "
    "the seeds-only computation is only ever read behind a None test. (D) closure of the reachability test: the set is "
    "returned only after the main fixpoint loop, the variable-extension loop ranges over the conflict variables and "
    "over all other variables of the reduced network (no filter), a variable is passed over only when it has neither a "
    "forward step from the reach set nor a backward step into the avoid set, and the avoid-hit exit returns None."
)
ASSUMPTIONS = [
    "AEON's var_post_out/var_pre_out, transfer_from, xie_beerel and transition_guided_reduction are correct",
    "termination of the fixpoint loops is C13",
]


def a_pairing(ck: Check) -> None:
    """Seeds and sets stay aligned: in the candidate loop of compute_attractors_symbolic every list that records a found
    attractor receives its entry on exactly the iterations on which the others do (or one list of records is kept)."""
    fm = c01._cas(ck)
    f = fm.f
    loops = [l for l in own_walk(f.node) if isinstance(l, ast.For)
             and any(isinstance(c_, ast.Call) and callee_name(c_) == "symbolic_attractor_test" for c_ in ast.walk(l))]
    if not loops:
        raise AnalysisError("anchor vanished: candidate loop of compute_attractors_symbolic")
    lp = loops[0]
    hdr = fm.cfg.loop_header[lp]
    apps = [c_ for c_ in ast.walk(lp) if isinstance(c_, ast.Call) and isinstance(c_.func, ast.Attribute) and c_.func.attr == "append"
            and isinstance(c_.func.value, ast.Name)]
    by = {}
    for c_ in apps:
        by.setdefault(c_.func.value.id, []).append(c_)
    probs = []
    names = sorted(by)
    for i_, a_ in enumerate(names):
        for b_ in names[i_ + 1:]:
            for x in by[a_]:
                xn = fm.cfgn(x)
                ok = False
                for y in by[b_]:
                    yn = fm.cfgn(y)
                    first, second = (xn, yn) if fm.cfg.dominates(xn, yn) else (yn, xn) if fm.cfg.dominates(yn, xn) else (None, None)
                    if first is not None and hdr.id not in fm.cfg.reach_avoiding(first, [second]) \
                            and not any(n_.kind == "exit" for n_ in [fm.cfg.nodes[i] for i in fm.cfg.reach_avoiding(first, [second, hdr])]):
                        ok = True
                def _param_guards(c0):
                    return {y.id for t_, p_, b_ in fm.facts(fm.cfgn(c0)) if b_.id in fm.cfg.loop_nodes[lp]
                            for y in ast.walk(t_) if isinstance(y, ast.Name) and y.id in f.params()}
                if not ok and any(_param_guards(x) != _param_guards(y) for y in by[b_]):
                    continue       # one of the lists is only kept in a mode chosen by the caller (`if not seeds_only:`): not decided here
                if not ok:
                    probs.append(f"line {x.lineno}: `{a_}` records an attractor on an iteration on which `{b_}` does not (or the other way "
                                 f"round): seed k and set k no longer belong to the same attractor")
    # a result list that is read later but never filled in the loop
    for n in own_walk(f.node):
        if isinstance(n, (ast.Assign, ast.AnnAssign)) and n.value is not None and is_empty_list(n.value):
            tg = n.targets[0] if isinstance(n, ast.Assign) else n.target
            if isinstance(tg, ast.Name) and n.lineno < lp.lineno and tg.id not in by:
                later = [l2 for l2 in own_walk(f.node) if isinstance(l2, ast.For) and l2.lineno > lp.lineno and isinstance(l2.iter, ast.Name) and l2.iter.id == tg.id]
                restores = [m for m in own_walk(f.node) if isinstance(m, (ast.Assign, ast.AugAssign)) and m is not n
                            and any(isinstance(y, ast.Name) and y.id == tg.id and isinstance(y.ctx, ast.Store) for y in ast.walk(m))]
                if later and not restores:
                    probs.append(f"`{tg.id}` is read after the candidate loop but nothing is ever recorded in it")
    ck.ob("A", fm, lp, not probs, "; ".join(sorted(set(probs))) if probs else
          "the lists that record found attractors are filled on the same iterations", key="seeds and sets aligned")


def d_fixpoint(ck: Check) -> None:
    """The closure returned by symbolic_attractor_test is a fixed point: each flag-controlled loop (`while not F`) is entered,
    and a round that enlarged one of the state sets lowers the flag again before it ends. (C13 checks the converse -- the flag is
    lowered only with progress -- for termination; this is the completeness side: stopping early returns a set that is not
    closed, so a candidate that reaches the avoid set passes as an attractor and attractor sets miss states.)"""
    from .c13 import _assigns
    fm = ck.prog.fm(SYM, "symbolic_attractor_test")
    f = fm.f
    loops = [l for l in own_walk(f.node) if isinstance(l, ast.While) and isinstance(l.test, ast.UnaryOp) and isinstance(l.test.op, ast.Not)
             and isinstance(l.test.operand, ast.Name)]
    if len(loops) < 2:
        raise AnalysisError("anchor vanished: flag-controlled fixpoint loops of symbolic_attractor_test")
    for lp in loops:
        F = lp.test.operand.id
        hdr = fm.cfg.loop_header[lp]
        ids = fm.cfg.loop_nodes[lp]
        probs = []
        # entered: every definition of the flag that reaches the header from outside the loop is False
        outside = [d for d in fm.cfg.reaching_defs(F, hdr) if d.id not in ids]
        if not outside or not all(d.kind == "stmt" and isinstance(d.ast, ast.Assign) and is_false(d.ast.value) for d in outside):
            probs.append(f"`{F}` is not False when the loop is first reached: the loop body may never run and the set is returned as it is")
        downs = [n for n in _assigns(fm, lp, F) if n.kind == "stmt" and isinstance(n.ast, ast.Assign) and is_false(n.ast.value)]
        ups = [n for n in _assigns(fm, lp, F) if n not in downs]
        # growth statements of this loop: X = X.union(..) on a set that lives across rounds
        grows = []
        for i in ids:
            n = fm.cfg.nodes[i]
            if n.kind == "stmt" and isinstance(n.ast, ast.Assign) and len(n.ast.targets) == 1 and isinstance(n.ast.targets[0], ast.Name):
                X = n.ast.targets[0].id
                v = fm.deref(n.ast.value, n) if isinstance(n.ast.value, ast.Name) else n.ast.value
                if isinstance(v, ast.Call) and callee_name(v) == "union" and isinstance(v.func, ast.Attribute) and text(v.func.value) == X:
                    grows.append(n)
        if not grows:
            raise AnalysisError(f"anchor vanished: growth statements in the `while not {F}` loop")
        for g in grows:
            lowered_before = False
            for d in downs:
                if fm.cfg.dominates(d, g):
                    between = fm.cfg.reach_avoiding(d, [hdr]) & fm.cfg.can_reach_avoiding(g, [hdr])
                    if not any(u.id in between for u in ups):
                        lowered_before = True
            # a witness raised next to the growth (`grown = True; avoid = avoid.union(..)`) and tested later (`if grown:` /
            # `if avoid_grown:` with `avoid_grown = grown`) decides that test: its false edge is not a way around the lowering
            blocked = []
            par_ = f.parents.get(g.ast)
            sibs = []
            for fld_ in ("body", "orelse", "finalbody"):
                b_ = getattr(par_, fld_, None)
                if isinstance(b_, list) and g.ast in b_:
                    sibs = b_
            Ws = {st_.targets[0].id for st_ in sibs if isinstance(st_, ast.Assign) and len(st_.targets) == 1
                  and isinstance(st_.targets[0], ast.Name) and is_true(st_.value)}
            after_g = fm.cfg.reach_avoiding(g, [hdr])
            for W in Ws:
                lowered_later = any(n_.kind == "stmt" and isinstance(n_.ast, ast.Assign) and len(n_.ast.targets) == 1
                                    and isinstance(n_.ast.targets[0], ast.Name) and n_.ast.targets[0].id == W and not is_true(n_.ast.value)
                                    for n_ in (fm.cfg.nodes[i] for i in after_g))
                if lowered_later:
                    continue
                for i in ids:
                    bn = fm.cfg.nodes[i]
                    if bn.kind == "branch" and not bn.pol and isinstance(bn.test, ast.Name) and i in after_g:
                        tn_ = fm.cfg.nodes[next(iter(fm.cfg.g.predecessors(bn.id)))]
                        T = bn.test.id
                        rd = fm.cfg.reaching_defs(T, tn_)
                        if T == W or (rd and all(d_.kind == "stmt" and isinstance(d_.ast, ast.Assign) and isinstance(d_.ast.value, ast.Name)
                                                 and d_.ast.value.id == W for d_ in rd if d_.id in after_g)
                                      and any(d_.id in after_g for d_ in rd)):
                            blocked.append(bn)
            if not lowered_before and hdr.id in fm.cfg.reach_avoiding(g, downs + blocked):
                probs.append(f"line {g.ast.lineno}: `{text(g.ast)[:50]}` enlarges a set, and the round can end with `{F}` still raised: "
                             f"the loop stops although the set has just changed")
        for d in downs:
            if any(u.id in fm.cfg.reach_avoiding(d, [hdr]) for u in ups):
                probs.append(f"line {d.ast.lineno}: `{F}` is raised again after it was lowered in the same round")
        ck.ob("D", fm, lp, not probs, "; ".join(sorted(set(probs))) if probs else
              f"`while not {F}`: entered, and every round that enlarges a set runs another round", key=f"fixpoint reached: {F}")


def run(ck: Check) -> None:
    a(ck)
    a_pairing(ck)
    d_fixpoint(ck)
    b(ck)
    c(ck)
    d(ck)
    ck.floor("A", 2)
    ck.floor("B", 4)
    ck.floor("C", 3)
    ck.floor("D", 4)


def a(ck: Check) -> None:
    fm = c01._cas(ck)
    f = fm.f
    sd_p, node_p = f.params()[0], f.params()[1]
    rets = [n for n in f.node.body if isinstance(n, ast.Return) and isinstance(n.value, ast.Tuple)]
    if not rets or len(rets[-1].value.elts) != 2:
        raise AnalysisError("anchor vanished: final return of compute_attractors_symbolic")
    out_e = rets[-1].value.elts[1]
    producers = []
    if isinstance(out_e, ast.Name):
        out = out_e.id
        apps = [n for n in own_walk(f.node) if isinstance(n, ast.Call) and isinstance(n.func, ast.Attribute) and n.func.attr == "append"
                and text(n.func.value) == out]
        # element producers: `out.append(e)` in a loop, or `out = [e for x in ...]`
        producers = [(ap.args[0], fm.cfgn(ap), None, f.stmt_of(ap)) for ap in apps]
        for d, v in fm.value_defs(out, fm.cfgn(rets[-1])):
            if isinstance(v, ast.ListComp):
                producers.append((v.elt, d, v, d.ast))
    elif isinstance(out_e, ast.ListComp):
        producers = [(out_e.elt, fm.cfgn(rets[-1]), out_e, rets[-1])]
    if not producers:
        raise AnalysisError("anchor vanished: conversion of attractor sets")
    # the reduced graph used for the reachability test
    test = next((c for c in own_walk(f.node) if isinstance(c, ast.Call) and callee_name(c) == "symbolic_attractor_test"), None)
    gname = text(test.args[2]) if test is not None and len(test.args) > 2 else None
    fused: list = []
    for e, cn, comp, pstmt in producers:
        chain = []
        probs = []
        steps = []
        cur, at = e, cn
        for _ in range(8):
            if isinstance(cur, ast.Name):
                if comp is not None and any(isinstance(x, ast.Name) and x.id == cur.id for g_ in comp.generators for x in ast.walk(g_.target)):
                    steps.append(("elem", comp.generators[0].iter))
                    break
                defs = fm.cfg.reaching_defs(cur.id, at)
                if len(defs) != 1:
                    break
                d = defs[0]
                if d.kind == "for":
                    steps.append(("elem", d.ast.iter))
                    break
                v = d.ast.value if d.kind == "stmt" and isinstance(d.ast, (ast.Assign, ast.AnnAssign)) else None
                if v is None:
                    break
                cur, at = v, d
                continue
            if isinstance(cur, ast.Call) and isinstance(cur.func, ast.Attribute):
                steps.append((cur.func.attr, cur))
                if cur.func.attr in ("intersect",):
                    cur = cur.func.value
                    continue
                if cur.func.attr == "transfer_from":
                    cur = cur.args[0]
                    continue
                if cur.func.attr == "vertices":
                    cur = cur.func.value
                    continue
            break
        if isinstance(cur, ast.Call) and callee_name(cur) == "symbolic_attractor_test":
            steps.append(("closure", cur))      # converted right where the closure is found
        kinds = [s[0] for s in steps]
        if kinds[:3] != ["intersect", "transfer_from", "vertices"]:
            probs.append(f"the set is converted by the steps {kinds}; expected closure.vertices() -> transfer_from -> intersect(node space)")
        else:
            inter, trans = steps[0][1], steps[1][1]
            if not text(trans.func.value).endswith(".symbolic") or text(trans.func.value).split(".")[0] != sd_p:
                probs.append("the set is not transferred into the diagram's full symbolic context")
            if len(trans.args) < 2 or text(trans.args[1]) != gname:
                probs.append(f"the set is transferred from `{text(trans.args[1]) if len(trans.args) > 1 else '?'}`, but it was "
                             f"computed on `{gname}`")
            sp = inter.args[0]
            sd_ = fm.single_def(sp.id, cn if isinstance(cn, type(fm.cfg.entry)) else fm.cfgn(pstmt)) if isinstance(sp, ast.Name) else None
            spv = sd_[1] if sd_ else sp
            t = text(spv)
            if not (f"{sd_p}.symbolic.mk_subspace(" in t and fm.key(spv.func.value.args[0] if isinstance(spv, ast.Call) and isinstance(spv.func, ast.Attribute)
                                                                   and isinstance(spv.func.value, ast.Call) else spv, sd_[0] if sd_ else cn) == f"FIELD<{sd_p}|{node_p}|space>"):
                probs.append("the transferred set is not restricted to the node's space (states with other values of the fixed "
                             "variables would be included)")
            if kinds[3:4] == ["closure"]:
                fused.append(pstmt)
            elif kinds[3:4] != ["elem"] or "sets" not in text(steps[3][1]):
                probs.append("the converted sets are not the closures recorded by the seed loop")
        ck.ob("A", fm, pstmt, not probs, "; ".join(probs) if probs else
              "closure -> transfer_from(same reduced graph) -> intersect(node space)",
              key="set conversion" if len(producers) == 1 else None)
    # the conversion covers every recorded closure, in order
    probs = []
    comp0 = producers[0][2]
    if fused and len(fused) == len(producers):
        # no second loop: the set is converted and recorded next to its seed (same block, nothing but plain statements
        # in between), so every recorded seed has its set, in the same order
        seeds_e = rets[-1].value.elts[0]
        for ps in fused:
            blk = None
            par = f.parents.get(ps)
            for fld in ("body", "orelse", "finalbody"):
                b_ = getattr(par, fld, None)
                if isinstance(b_, list) and ps in b_:
                    blk = b_
            sib = [x for x in (blk or []) if isinstance(x, ast.Expr) and isinstance(x.value, ast.Call) and isinstance(x.value.func, ast.Attribute)
                   and x.value.func.attr == "append" and text(x.value.func.value) == text(seeds_e)]
            if not sib:
                probs.append("a set is recorded apart from its seed: the two lists can get out of step")
                continue
            lo, hi = sorted((blk.index(ps), blk.index(sib[0])))
            if any(not isinstance(x, (ast.Assign, ast.Expr)) for x in blk[lo:hi + 1]):
                probs.append("a set is recorded apart from its seed: the two lists can get out of step")
        anchor = fused[0]
    elif comp0 is not None:
        if len(comp0.generators) != 1 or comp0.generators[0].ifs or isinstance(comp0.generators[0].iter, ast.Call):
            probs.append("not every recorded closure is converted, or the order is changed")
        anchor = producers[0][3]
    else:
        lp = [l for l in fm.cfg.enclosing_loops(producers[0][1]) if isinstance(l, ast.For)]
        if not lp or any(isinstance(x, (ast.If, ast.Continue, ast.Break)) for x in ast.walk(lp[0])) or \
                (callee_name(lp[0].iter) if isinstance(lp[0].iter, ast.Call) else False):
            probs.append("not every recorded closure is converted, or the order is changed")
        anchor = lp[0] if lp else f.node
    ck.ob("A", fm, anchor, not probs, "; ".join(probs) if probs else "all closures converted in recording order",
          key="conversion loop")
    # results come back in the order of the candidates that were given: node_attractor_sets hands in the stored seeds and
    # pairs the sets it gets back with them by position
    probs = []
    sl = c01._seed_loop(fm)
    it = sl.iter
    while isinstance(it, ast.Call) and callee_name(it) in ("enumerate", "list", "tuple") and it.args:
        it = it.args[0]
    if isinstance(it, ast.Call) and callee_name(it) in ("reversed", "sorted", "set", "frozenset"):
        probs.append(f"the seed loop ranges over `{text(it)[:50]}`: seeds and sets are not returned in the order of the candidates")
    L = it.id if isinstance(it, ast.Name) else None
    cand_p = f.params()[2] if len(f.params()) > 2 else None
    for n in own_walk(f.node):
        if isinstance(n, ast.Call) and isinstance(n.func, ast.Attribute) and n.func.attr in ("reverse", "sort") \
                and text(n.func.value) in (L, cand_p):
            probs.append(f"line {n.lineno}: `{text(n)}` re-orders the candidates before they are tested: seeds and sets no longer come "
                         f"back in the order in which the candidates (the stored seeds, when sets are recomputed) were given")
        if isinstance(n, ast.Assign) and L and text(n.targets[0]) == L and isinstance(n.value, ast.Call) \
                and callee_name(n.value) in ("sorted", "reversed", "set") and fm.cfgn(n).id not in fm.cfg.loop_nodes[sl]:
            probs.append(f"line {n.lineno}: `{text(n)[:60]}` re-orders the candidates before they are tested")
    ck.ob("A", fm, sl, not probs, "; ".join(probs) if probs else "candidates are tested in the order given", key="candidate order")


def b(ck: Check) -> None:
    fb = ck.prog.fm(SYM, "symbolic_attractor_fallback")
    f = fb.f
    rets = [n for n in own_walk(f.node) if isinstance(n, ast.Return) and isinstance(n.value, ast.Tuple)]
    if not rets:
        raise AnalysisError("anchor vanished: return of symbolic_attractor_fallback")
    names = [text(x) for x in rets[-1].value.elts]
    probs = []
    apps = {nm: [n for n in own_walk(f.node) if isinstance(n, ast.Call) and isinstance(n.func, ast.Attribute) and n.func.attr == "append"
                 and text(n.func.value) == nm] for nm in names}
    xb0 = [n for n in own_walk(f.node) if isinstance(n, ast.Call) and callee_name(n) == "xie_beerel"]
    ATTRS = "attractors"
    if xb0 and isinstance(f.stmt_of(xb0[0]), ast.Assign) and f.stmt_of(xb0[0]).value is xb0[0]:
        ATTRS = text(f.stmt_of(xb0[0]).targets[0])
    CAND = text(xb0[0].args[1]) if xb0 and len(xb0[0].args) > 1 else "candidates"
    rn = fb.cfgn(rets[-1])
    comps = {nm: [v for _, v in fb.value_defs(nm, rn)] for nm in names}
    if all(not v for v in apps.values()) and all(len(c_) == 1 and isinstance(c_[0], ast.ListComp) for c_ in comps.values()):
        # both lists are comprehensions: sets over the attractors, seeds over the sets (or the attractors), no filter
        cs, ct = comps[names[0]][0], comps[names[1]][0]
        for c_ in (cs, ct):
            if len(c_.generators) != 1 or c_.generators[0].ifs:
                probs.append("an attractor can be recorded with a seed but no set (or the reverse)")
        gt, gs = ct.generators[0], cs.generators[0]
        if text(gt.iter) != ATTRS:
            probs.append(f"the sets range over `{text(gt.iter)}`")
        if text(ct.elt) != f"{text(gt.target)}.vertices()":
            probs.append("the recorded set is not the vertex set of the loop's attractor")
        src_ok = (text(gs.iter) == names[1] and f"next({text(gs.target)}.items())" in text(cs.elt)) or \
                 (text(gs.iter) == ATTRS and f"next({text(gs.target)}.vertices().items())" in text(cs.elt))
        if not src_ok:
            probs.append("the seed is not taken from the recorded vertex set")
    elif any(len(v) != 1 for v in apps.values()):
        probs.append("seeds and sets are not each appended at exactly one place")
    else:
        a1, a2 = (apps[names[0]][0], apps[names[1]][0])
        l1 = [l for l in fb.cfg.enclosing_loops(fb.cfgn(a1)) if isinstance(l, ast.For)]
        l2 = [l for l in fb.cfg.enclosing_loops(fb.cfgn(a2)) if isinstance(l, ast.For)]
        if not l1 or not l2 or l1[0] is not l2[0]:
            probs.append("seed and set of an attractor are appended in different loops")
        else:
            lp = l1[0]
            if any(isinstance(x, (ast.If, ast.Continue, ast.Break)) for x in ast.walk(lp)):
                probs.append("an attractor can be recorded with a seed but no set (or the reverse)")
            if text(lp.iter) != ATTRS:
                probs.append(f"the loop ranges over `{text(lp.iter)}`")
            # the seed is a state of the very attractor whose vertices are recorded
            sv = fb.single_def(text(a2.args[0]), fb.cfgn(a2)) if isinstance(a2.args[0], ast.Name) else None
            if not (sv and text(sv[1]) == f"{text(lp.target)}.vertices()"):
                probs.append("the recorded set is not the vertex set of the loop's attractor")
            seed_src = [n for n in ast.walk(lp) if isinstance(n, ast.Call) and callee_name(n) == "next"]
            if not seed_src or (sv and text(a2.args[0]) not in text(seed_src[0])):
                probs.append("the seed is not taken from the recorded vertex set")
    ck.ob("B", fb, f.node, not probs, "; ".join(probs) if probs else "fallback: one (seed, set) pair per attractor, same order",
          key="fallback pairing")
    # the two lists are index-aligned: neither is re-ordered on its own on the way to the return
    for q in ("symbolic_attractor_fallback", "compute_attractors_symbolic"):
        gm_ = ck.prog.fm(SYM, q)
        probs = []
        for r in own_walk(gm_.f.node):
            if not (isinstance(r, ast.Return) and isinstance(r.value, ast.Tuple) and len(r.value.elts) == 2):
                continue
            rn_ = gm_.cfgn(r)
            for x in r.value.elts:
                if not isinstance(x, ast.Name):
                    if isinstance(x, ast.Call) and callee_name(x) in ("sorted", "reversed"):
                        probs.append(f"line {r.lineno}: `{text(x)[:50]}` re-orders one of the two parallel lists")
                    continue
                for d_, v_ in gm_.value_defs(x.id, rn_):
                    v2 = v_
                    while isinstance(v2, ast.Call) and callee_name(v2) in ("list", "tuple") and v2.args:
                        v2 = v2.args[0]
                    if isinstance(v2, ast.Call) and callee_name(v2) in ("sorted", "reversed"):
                        probs.append(f"line {d_.lineno}: `{x.id}` is re-ordered (`{text(v_)[:50]}`) while the parallel list keeps "
                                     f"the discovery order: sets[i] is no longer the attractor of seeds[i]")
                    if isinstance(v2, ast.Subscript) and isinstance(v2.slice, ast.Slice) and v2.slice.step is not None:
                        probs.append(f"line {d_.lineno}: `{x.id}` is re-ordered (`{text(v_)[:50]}`)")
                for c_ in own_walk(gm_.f.node):
                    if isinstance(c_, ast.Call) and isinstance(c_.func, ast.Attribute) and c_.func.attr in ("sort", "reverse") \
                            and text(c_.func.value) == x.id:
                        probs.append(f"line {c_.lineno}: `{text(c_)[:50]}` re-orders one of the two parallel lists in place")
                    if isinstance(c_, ast.Call) and callee_name(c_) == "shuffle" and c_.args and text(c_.args[-1]) == x.id:
                        probs.append(f"line {c_.lineno}: `{text(c_)[:50]}` re-orders one of the two parallel lists in place")
        ck.ob("B", gm_, gm_.f.node, not probs, "; ".join(sorted(set(probs))) if probs else
              "seeds and sets reach the return in the order in which the pairs were recorded", key=f"alignment {q}")
    # successors are excluded, the node's own space bounds the search
    probs = []
    init = [n for n in own_walk(f.node) if isinstance(n, ast.Assign) and text(n.targets[0]) == CAND
            and isinstance(n.value, ast.Call) and callee_name(n.value) == "mk_subspace"]
    if not init or fb.key(init[0].value.args[0], fb.cfgn(init[0])) != f"FIELD<{f.params()[0]}|{f.params()[1]}|space>":
        probs.append("the fallback does not start from the node's own space")
    xb = [n for n in own_walk(f.node) if isinstance(n, ast.Call) and callee_name(n) == "xie_beerel"]
    if not xb or not isinstance(xb[0].args[1], ast.Name):
        probs.append("attractors are not computed on the reduced candidate set")
    ck.ob("B", fb, init[0] if init else f.node, not probs, "; ".join(probs) if probs else
          "fallback searches the node's space minus its successors", key="fallback region")


def _parallel_results_untouched(ck: Check) -> None:
    """Between the computation and the two stores the accessor leaves the parallel lists as they are: re-ordering one of
    them (`result[0].sort(..)`, `seeds = sorted(seeds)`) breaks 'sets[i] is the attractor of seeds[i]'."""
    prog = ck.prog
    for q in ("SuccessionDiagram.node_attractor_seeds", "SuccessionDiagram.node_attractor_sets"):
        fm = prog.fm(SD_MOD, q)
        f = fm.f
        held = set()
        for n in own_walk(f.node):
            if isinstance(n, ast.Assign) and isinstance(n.value, ast.Call) and callee_name(n.value) in (
                    "compute_attractors_symbolic", "symbolic_attractor_fallback"):
                for t in n.targets:
                    for y in ast.walk(t):
                        if isinstance(y, ast.Name):
                            held.add(y.id)
        probs = []
        for n in own_walk(f.node):
            tgt = None
            if isinstance(n, ast.Call) and isinstance(n.func, ast.Attribute) and n.func.attr in ("sort", "reverse"):
                tgt = n.func.value
            elif isinstance(n, ast.Call) and callee_name(n) in ("sorted", "reversed", "shuffle") and n.args:
                tgt = n.args[0]
            if tgt is not None and any(isinstance(y, ast.Name) and y.id in held for y in ast.walk(tgt)):
                probs.append(f"line {n.lineno}: `{text(n)[:60]}` re-orders one of the two parallel result lists on its own")
        if held:
            ck.ob("B", fm, f.node, not probs, ("; ".join(probs) + ": seeds and sets are cached as parallel lists, so sets[i] is no "
                  "longer the attractor of seeds[i]") if probs else "computed seeds and sets are stored in the order they were computed",
                  key=f"{f.name}: result order")


def c(ck: Check) -> None:
    _parallel_results_untouched(ck)
    prog = ck.prog
    fm = prog.fm(SD_MOD, "SuccessionDiagram.node_attractor_sets")
    f = fm.f
    node_p = [p for p in f.params() if p != "self"][0]
    probs = []
    call = [n for n in own_walk(f.node) if isinstance(n, ast.Call) and callee_name(n) == "compute_attractors_symbolic"]
    if len(call) != 1:
        probs.append("sets are not recomputed by compute_attractors_symbolic")
    else:
        cc = call[0]
        cs = next((k.value for k in cc.keywords if k.arg == "candidate_states"), cc.args[2] if len(cc.args) > 2 else None)
        sd_ = fm.single_def(cs.id, fm.cfgn(cc)) if isinstance(cs, ast.Name) else None
        if not (sd_ and isinstance(sd_[1], ast.Call) and callee_name(sd_[1]) == "node_attractor_seeds" and text(sd_[1].args[0]) == node_p
                and is_true(call_arg(sd_[1], 1, "compute"))):
            probs.append("the sets are not computed from the node's own seeds")
        if text(cc.args[1]) != node_p:
            probs.append("sets computed for another node")
        so = next((k.value for k in cc.keywords if k.arg == "seeds_only"), None)
        if so is not None and not is_false(so):
            probs.append("sets requested with seeds_only (no sets are computed)")
        # the computation is skipped only for an empty list of seeds (`([], [])` is the answer for no seed, and for nothing else)
        if isinstance(cs, ast.Name):
            t_ = f"len({cs.id})"
            tr_ = logic.Translator(lambda e: text(e), numeric={t_})
            fs_ = []
            for test, pol, b in fm.facts(fm.cfgn(cc)):
                if any(isinstance(y, ast.Name) and y.id == cs.id for y in ast.walk(test)):
                    ff = tr_.f(test)
                    fs_.append(ff if pol else logic.Not(ff))
            try:
                if fs_ and not logic.implies(logic.Lt("0", t_), logic.And(*fs_)):
                    probs.append(f"the sets are computed only under `{logic.show(logic.And(*fs_))[:60]}`: a node with seeds outside that "
                                 f"condition reports no attractor set for them")
            except logic.TooBig:
                pass
    st = [e for e in fm.field_events() if e.kind == "store" and e.field == "attractor_sets"]
    def second_component(e) -> bool:
        v = e.value
        if is_empty_list(v):
            return any(second_component(o) for o in st if o is not e and not is_empty_list(o.value))   # no seeds, no sets
        if not isinstance(v, ast.Name):
            return text(v).endswith("[1]")
        kinds = []
        for d_ in fm.cfg.reaching_defs(v.id, e.cfgn):
            a_ = d_.ast if d_.kind == "stmt" else None
            if isinstance(a_, ast.Assign) and isinstance(a_.targets[0], ast.Tuple) and len(a_.targets[0].elts) == 2 \
                    and text(a_.targets[0].elts[1]) == v.id and isinstance(a_.value, ast.Call) \
                    and callee_name(a_.value) == "compute_attractors_symbolic":
                kinds.append("second")
            elif isinstance(a_, ast.Assign) and isinstance(a_.targets[0], ast.Name) and is_empty_list(a_.value):
                kinds.append("empty")
            elif isinstance(a_, ast.Assign) and isinstance(a_.targets[0], ast.Name) and text(fm.deref(a_.value, d_)).endswith("[1]"):
                kinds.append("second")
            else:
                kinds.append("other")
        return "second" in kinds and "other" not in kinds
    if not st or not all(second_component(e) for e in st):
        probs.append("the stored value is not the set component of the result")
    asr = [n for n in own_walk(f.node) if isinstance(n, ast.Assert) and "is not None" in text(n.test)]
    if not asr:
        probs.append("a None set list could be stored (no assertion)")
    ck.ob("C", fm, f.node, not probs, "; ".join(probs) if probs else "sets recomputed from the node's own seeds; second component stored",
          key="node_attractor_sets")
    # order: the seeds returned by the recomputation must be the node's seeds again (same list => same order);
    # readers of attractor_sets tolerate None
    for g in prog.models():
        for e in g.field_events():
            if e.kind == "load" and e.field == "attractor_sets":
                par = g.f.parents.get(e.node)
                ok = isinstance(par, ast.Compare)
                if not ok and isinstance(e.stmt, (ast.Assign, ast.AnnAssign)) and e.stmt.value is e.node:
                    from .c16 import _unsafe_uses
                    tg = e.stmt.targets[0] if isinstance(e.stmt, ast.Assign) else e.stmt.target
                    ok = isinstance(tg, ast.Name) and not _unsafe_uses(g, tg.id, g.cfgn(e.stmt))
                ck.ob("C", g, e.stmt, ok, "attractor_sets read behind a None test" if ok else
                      "attractor_sets (None after a seeds-only computation) is used without a None test")
    # the seeds-only result stores None for the sets, never a partial list
    sfm = prog.fm(SD_MOD, "SuccessionDiagram.node_attractor_seeds")
    for e in sfm.field_events():
        if e.kind == "store" and e.field == "attractor_sets" and e.value is not None and not is_none(e.value) and not is_empty_list(e.value):
            t = text(e.value)
            ok = t.endswith("[1]")
            if not ok and isinstance(e.value, ast.Name):
                # second element of the (seeds, sets) pair returned by the attractor computation
                for d_ in sfm.cfg.reaching_defs(e.value.id, e.cfgn):
                    a_ = d_.ast if d_.kind == "stmt" else None
                    if isinstance(a_, ast.Assign) and isinstance(a_.targets[0], ast.Tuple) and len(a_.targets[0].elts) == 2 \
                            and text(a_.targets[0].elts[1]) == e.value.id and isinstance(a_.value, ast.Call) \
                            and callee_name(a_.value) in ("symbolic_attractor_fallback", "compute_attractors_symbolic"):
                        ok = True
            ck.ob("C", sfm, e.stmt, ok, "sets stored together with the seeds they belong to" if ok else
                  f"`{t}` stored as the node's attractor sets")


def d(ck: Check) -> None:
    """symbolic_attractor_test; the working variables are identified by their role (returned set, avoid parameter, list
    that the saturation loops range over and the extension loop appends to, ...), not by their names."""
    fm = ck.prog.fm(SYM, "symbolic_attractor_test")
    f = fm.f
    main = [n for n in f.node.body if isinstance(n, ast.While)]
    if len(main) != 1:
        raise AnalysisError("anchor vanished: main loop of symbolic_attractor_test")
    loop = main[0]
    graph_p, avoid_p = f.params()[2], f.params()[-1]
    final = [r for r in f.node.body if isinstance(r, ast.Return) and isinstance(r.value, ast.Name)]
    if not final:
        raise AnalysisError("anchor vanished: final return of symbolic_attractor_test")
    REACH = final[-1].value.id
    # the (backward-growing) avoid set: the set the reach set is intersected with
    for c_ in ast.walk(loop):
        if isinstance(c_, ast.Call) and isinstance(c_.func, ast.Attribute) and c_.func.attr == "intersect" and len(c_.args) == 1:
            pair = {text(c_.func.value), text(c_.args[0])}
            if REACH in pair and len(pair) == 2:
                avoid_p = next(iter(pair - {REACH}))

    def is_hit_test(a_: str) -> bool:
        t = a_.replace(" ", "")
        return t in (f"T:{avoid_p}.intersect({REACH}).is_empty()", f"T:{REACH}.intersect({avoid_p}).is_empty()")
    # returns: reach set only after the loop; None only on an avoid hit
    probs = []
    for r in own_walk(f.node):
        if not isinstance(r, ast.Return):
            continue
        inside = fm.cfgn(r).id in fm.cfg.loop_nodes[loop]
        if r.value is None or is_none(r.value):
            tr = logic.Translator(lambda e: text(e))
            fs = []
            for test, pol, b in fm.facts(fm.cfgn(r)):
                if b.loop is not None:
                    continue
                ff = tr.f(test)
                fs.append(ff if pol else logic.Not(ff))
            pc = logic.And(*fs)
            hit = [a_ for a_ in logic.atoms(pc) if a_[0] == "b" and is_hit_test(a_[1])]
            if not hit or not logic.implies(pc, logic.Not(("atom", hit[0]))):
                probs.append(f"line {r.lineno}: None (= 'not an attractor') is returned without the reach set touching the avoid set")
        else:
            if inside:
                probs.append(f"line {r.lineno}: the reach set is returned from inside the fixpoint loop (it need not be closed yet)")
            elif text(r.value) != REACH:
                probs.append(f"line {r.lineno}: `{text(r.value)}` is returned instead of the reach set")
    ck.ob("D", fm, loop, not probs, "; ".join(probs) if probs else
          "closure returned only after the fixpoint loop; None only after an avoid hit", key="returns")
    # the list of saturated variables: iterated by a loop of the main loop and appended to in another
    iterated = {l.iter.id for l in ast.walk(loop) if isinstance(l, ast.For) and isinstance(l.iter, ast.Name)}
    appended = {c.func.value.id for c in ast.walk(loop) if isinstance(c, ast.Call) and isinstance(c.func, ast.Attribute)
                and c.func.attr == "append" and isinstance(c.func.value, ast.Name)}
    sat_names = iterated & appended
    if len(sat_names) != 1:
        raise AnalysisError("anchor vanished: list of saturated variables in symbolic_attractor_test")
    SAT = next(iter(sat_names))
    ext = [n for n in ast.walk(loop) if isinstance(n, ast.For) and any(
        isinstance(c, ast.Call) and isinstance(c.func, ast.Attribute) and c.func.attr == "append" and text(c.func.value) == SAT
        for c in ast.walk(n))]
    if len(ext) != 1:
        raise AnalysisError("anchor vanished: variable-extension loop of symbolic_attractor_test")
    el = ext[0]
    probs = []
    it = el.iter
    parts = []
    if isinstance(it, ast.BinOp) and isinstance(it.op, ast.Add):
        parts = [it.left, it.right]
    CONF = OTHER = None
    if len(parts) != 2 or not isinstance(parts[0], ast.Name):
        probs.append(f"the extension loop ranges over `{text(it)}`, not over conflict variables + all other variables")
    else:
        CONF = parts[0].id
        o = parts[1]
        sd_ = fm.single_def(o.id, fm.cfg.loop_header[el]) if isinstance(o, ast.Name) else None
        ov = sd_[1] if sd_ else o
        if isinstance(ov, ast.Call) and callee_name(ov) == "sorted" and ov.args and isinstance(ov.args[0], ast.Name):
            OTHER = ov.args[0].id
        elif isinstance(ov, ast.Name):
            OTHER = ov.id
        else:
            probs.append(f"the non-conflict variables are taken from `{text(ov)[:60]}`: variables filtered out here are never "
                         f"saturated, so the returned set is not closed under them (attractor sets too small)")
        # OTHER starts as all network variables outside the conflict set and only loses saturated variables
        if OTHER:
            seen_comp = False
            for dnode in fm.cfg.reaching_defs(OTHER, fm.cfg.loop_header[el]):
                v = dnode.ast.value if dnode.kind == "stmt" and isinstance(dnode.ast, (ast.Assign, ast.AnnAssign)) else None
                if isinstance(v, ast.ListComp):
                    g = v.generators[0]
                    seen_comp = True
                    if text(g.iter) != f"{graph_p}.network_variables()" or len(g.ifs) != 1 or text(g.ifs[0]) != f"{text(g.target)} not in {CONF}" \
                            or text(v.elt) != text(g.target):
                        probs.append("the non-conflict variables are not 'all variables of the reduced graph that are not conflict variables'")
                elif isinstance(v, ast.Call) and callee_name(v) in ("sort_variable_list", "sorted", "list") and v.args and text(v.args[0]) == OTHER:
                    continue
                else:
                    probs.append(f"line {dnode.lineno}: the non-conflict variables are redefined as `{text(v)[:50] if v is not None else '?'}`")
            # the comprehension may be hidden behind the sort: follow one more step
            if not seen_comp:
                comps = [n_ for n_ in own_walk(f.node) if isinstance(n_, ast.Assign) and text(n_.targets[0]) == OTHER and isinstance(n_.value, ast.ListComp)]
                for n_ in comps:
                    g = n_.value.generators[0]
                    seen_comp = True
                    if text(g.iter) != f"{graph_p}.network_variables()" or len(g.ifs) != 1 or text(g.ifs[0]) != f"{text(g.target)} not in {CONF}":
                        probs.append("the non-conflict variables are not 'all variables of the reduced graph that are not conflict variables'")
            if not seen_comp:
                probs.append("the non-conflict variables are not 'all variables of the reduced graph that are not conflict variables'")
            for n in own_walk(f.node):
                if isinstance(n, ast.Call) and isinstance(n.func, ast.Attribute) and n.func.attr in ("remove", "pop", "clear") \
                        and text(n.func.value) in (OTHER, CONF) and fm.cfgn(n).id in fm.cfg.loop_nodes[loop]:
                    if n.func.attr != "remove" or text(n.args[0]) != text(el.target):
                        probs.append(f"line {n.lineno}: `{text(n)}` drops a variable that was not saturated")
    # forward / backward step of the extension loop, by the calls that compute them
    FWD = BWD = None
    for n in ast.walk(el):
        if isinstance(n, ast.Assign) and isinstance(n.targets[0], ast.Name) and isinstance(n.value, ast.Call):
            if callee_name(n.value) == "var_post_out":
                FWD = n.targets[0].id
                if text(n.value) != f"{graph_p}.var_post_out({text(el.target)}, {REACH})":
                    probs.append("forward step of the extension loop is not var_post_out(var, reach_set)")
            if callee_name(n.value) == "var_pre_out":
                BWD = n.targets[0].id
        elif isinstance(n, ast.Assign) and isinstance(n.targets[0], ast.Name) and isinstance(n.value, ast.IfExp):
            # `bwd = graph.var_pre_out(var, avoid) if avoid is not None else <empty>`
            if any(isinstance(c_, ast.Call) and callee_name(c_) == "var_pre_out" for c_ in ast.walk(n.value)):
                BWD = n.targets[0].id
    if FWD is None:
        probs.append("forward step of the extension loop is not var_post_out(var, reach_set)")
    for n in ast.walk(el):
        if isinstance(n, ast.Continue):
            tr = logic.Translator(lambda e: text(e))
            fs = []
            for test, pol, b in fm.facts(fm.cfgn(n)):
                if b.id in fm.cfg.loop_nodes[el] and b.loop is None:
                    ff = tr.f(test)
                    fs.append(ff if pol else logic.Not(ff))
            pc = logic.And(*fs)
            want = logic.And(logic.B(f"T:{FWD}.is_empty()"), logic.B(f"T:{BWD}.is_empty()"))
            if not logic.implies(pc, want):
                probs.append(f"line {n.lineno}: a variable is passed over under `{logic.show(pc)[:100]}` although it may have an "
                             f"enabled step")
    ck.ob("D", fm, el, not probs, "; ".join(probs) if probs else
          "every unsaturated variable with an enabled step is eventually saturated", key="extension loop")
    # saturation loop uses all saturated variables, forward from the reach set
    probs = []
    sat = [n for n in ast.walk(loop) if isinstance(n, ast.For) and text(n.iter) == SAT]
    if len(sat) < 1:
        probs.append("no saturation loop over the saturated variables")
    else:
        s0 = sat[0]
        post = [n for n in ast.walk(s0) if isinstance(n, ast.Call) and callee_name(n) == "var_post_out"]
        if not post or text(post[0].args[0]) != text(s0.target) or text(post[0].args[1]) != REACH:
            probs.append("forward saturation is not var_post_out(var, reach_set)")
        if any(isinstance(x, ast.Continue) for x in ast.walk(s0)):
            probs.append("a saturated variable can be skipped during saturation")
    ck.ob("D", fm, sat[0] if sat else loop, not probs, "; ".join(probs) if probs else "forward saturation over all saturated variables",
          key="saturation")
    # whenever one of the two sets grows, the fixpoint loop goes round again (the new states must be saturated with the
    # variables collected so far, whichever of the two sets they joined)
    from .c13 import _flag_form, _tbranch
    from .common import paths_imply
    form = _flag_form(fm, loop)
    probs = []
    if form is not None and form[1] in (True, False):
        flag, cont = form
        clears = {n.id for n in fm.cfg.nodes if n.kind == "stmt" and n.id in fm.cfg.loop_nodes[loop] and isinstance(n.ast, ast.Assign)
                  and text(n.ast.targets[0]) == flag and isinstance(n.ast.value, ast.Constant) and n.ast.value.value is cont}
        hdr = fm.cfg.loop_header[loop]
        tb = _tbranch(fm, loop)
        tr = logic.Translator(lambda e_: text(e_))
        n_g = 0
        for n in fm.cfg.nodes:
            if n.kind != "stmt" or n.id not in fm.cfg.loop_nodes[loop] or not isinstance(n.ast, ast.Assign) \
                    or text(n.ast.targets[0]) not in (REACH, avoid_p):
                continue
            X = text(n.ast.targets[0])
            v = fm.deref(n.ast.value, n)
            if not (isinstance(v, ast.Call) and isinstance(v.func, ast.Attribute) and v.func.attr == "union" and text(v.func.value) == X
                    and v.args and isinstance(v.args[0], ast.Name)):
                continue
            n_g += 1
            D = v.args[0].id
            goal = logic.B(f"T:{D}.is_empty()")
            # conditions of the innermost iteration that contains the growth (simple paths cannot cross the loops that
            # must run before it)
            inner_ = [l_ for l_ in fm.cfg.enclosing_loops(n) if l_ is not loop]
            if any(isinstance(l_, ast.While) for l_ in inner_):
                continue        # growth inside a saturation loop: that loop goes round again itself (its witness is C13's)
            st_ = _tbranch(fm, inner_[0]) if inner_ else tb
            try:
                r1 = paths_imply(fm, st_, n, goal, tr, stop=clears)
                r2 = None if r1 is None else paths_imply(fm, n, hdr, goal, tr, stop=clears)
            except AnalysisError:
                r1 = r2 = None      # too many paths to decide: no claim
            if r1 is not None and r2 is not None:
                probs.append(f"line {n.lineno}: `{X}` can grow by a non-empty `{D}` on a path that leaves `{flag}` as it is "
                             f"({r1[:100]}): the main loop may stop although the new states were never saturated -- the returned set "
                             f"is not closed / a reachable avoid state goes unnoticed")
        if n_g:
            ck.ob("D", fm, loop, not probs, "; ".join(probs[:2]) if probs else
                  f"every growth of the reach or avoid set re-arms the fixpoint loop ({n_g} growth statements)", key="growth re-arms")
        # a forward step that is possible but not taken (size heuristic) leaves a trace that brings the loop back to it:
        # the flag itself, or a latch that a later clear of the flag tests
        from .c13 import _within
        probs = []
        latches = set()
        for cid in clears:
            for d_ in fm.cfg.dominators(fm.cfg.nodes[cid]):
                if d_.kind == "branch" and d_.test is not None and d_.id in fm.cfg.loop_nodes[loop]:
                    for y in ast.walk(d_.test):
                        if isinstance(y, ast.Name):
                            latches.add(y.id)
        latch_sets = {n.id for n in fm.cfg.nodes if n.kind == "stmt" and n.id in fm.cfg.loop_nodes[loop] and isinstance(n.ast, ast.Assign)
                      and isinstance(n.ast.targets[0], ast.Name) and n.ast.targets[0].id in latches and is_true(n.ast.value)}
        growth_ids = {n.id for n in fm.cfg.nodes if n.kind == "stmt" and n.id in fm.cfg.loop_nodes[loop] and isinstance(n.ast, ast.Assign)
                      and text(n.ast.targets[0]) == REACH}
        n_d = 0
        for b in fm.cfg.nodes:
            if b.kind != "branch" or b.test is None or b.id not in fm.cfg.loop_nodes[loop]:
                continue
            t_, pol = b.test, b.pol
            while isinstance(t_, ast.UnaryOp) and isinstance(t_.op, ast.Not):
                t_, pol = t_.operand, not pol
            if not (isinstance(t_, ast.Call) and isinstance(t_.func, ast.Attribute) and t_.func.attr == "is_empty"
                    and isinstance(t_.func.value, ast.Name) and not pol):
                continue
            tn_ = fm.cfg.nodes[next(iter(fm.cfg.g.predecessors(b.id)))]
            sd_ = fm.single_def(t_.func.value.id, tn_)
            if not (sd_ and isinstance(sd_[1], ast.Call) and callee_name(sd_[1]) == "var_post_out" and len(sd_[1].args) == 2
                    and text(sd_[1].args[1]) == REACH):
                continue
            inner_ = [l_ for l_ in fm.cfg.enclosing_loops(b) if l_ is not loop]
            if not inner_:
                continue
            n_d += 1
            il_ = inner_[0]
            reach_ = _within(fm, il_, b, growth_ids | clears | latch_sets)
            out_ = fm.cfg.loop_header[il_].id in reach_ or any(i not in fm.cfg.loop_nodes[il_] and i != fm.cfg.loop_header[il_].id for i in reach_)
            if out_:
                probs.append(f"line {b.lineno}: a non-empty forward step `{t_.func.value.id}` can be left out of `{REACH}` without the "
                             f"fixpoint flag being cleared or a latch being set that clears it later: the loop can stop with this step "
                             f"still possible, and the returned set is not closed (attractor sets too small)")
        if n_d:
            ck.ob("D", fm, loop, not probs, "; ".join(probs[:2]) if probs else
                  "a declined forward step is remembered and taken later", key="declined steps")
    # avoid-hit test precedes every saturation round
    hits = [n for n in ast.walk(loop) if isinstance(n, ast.If) and any(is_hit_test("T:" + text(x)) for x in ast.walk(n.test) if isinstance(x, ast.Call))]
    ok = len(hits) >= 1 and all(any(isinstance(x, ast.Return) for x in h.body) for h in hits)
    ck.ob("D", fm, hits[0] if hits else loop, ok, "avoid hit is tested in the saturation loops" if ok else
          "the reach set is never compared with the avoid set: spurious candidates are accepted as attractors", key="avoid test")
