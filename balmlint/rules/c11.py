"""C11 -- percolation computes exactly the logical domain of influence (delegation and propagation discipline)."""

from __future__ import annotations

import ast

from .. import logic
from ..program import FuncModel, call_arg
from ..report import Check
from ..repo import AnalysisError, dotted, own_walk, text
from .common import callee_name, is_empty_list, is_false, is_none, is_true

SP = "biobalm.space_utils"

EXPLANATION = (
    "(A) percolate_space returns AEON's Percolation.percolate_subspace(network, space) mapped name by name: every item is "
    "copied, nothing filtered, defaulted or rewritten. (B) percolate_space_strict is the chaotic iteration of the "
    "propagation operator: a `while not done` loop that rescans every remaining candidate in each round; a given value "
    "is never overwritten (the store into the working space is on the false edge of 'variable given and value differs'); "
    "variables with constant update functions are removed before the loop; only values newly fixed on that edge enter "
    "the result; a variable leaves the candidate set only after it was decided. A propagation loop of another shape is "
    "not recognised (ANALYSIS-ERROR: cannot decide), it is not reported as a violation. (C) function_eval maps "
    "is_true -> 1, is_false -> 0, undetermined -> None, before and after restriction to the state. (D) "
    "find_single_node_LDOIs uses the strict percolation of each single value, skipping constant functions; "
    "find_single_drivers tests target <= LDOI + {the fixed value itself} in that direction and computes the LDOIs from "
    "the given network when none are supplied. (E) percolation_conflicts: the space in which update functions are "
    "evaluated is the percolation of the given space by the variant the flag selects, the function evaluated is the "
    "update function of the very variable whose value is compared, and a conflict is a determined value that differs."
)
ASSUMPTIONS = [
    "AEON's percolate_subspace is the least fixed point of value propagation",
    "the result of the chaotic iteration does not depend on the visiting order (monotone operator)",
]


def run(ck: Check) -> None:
    a(ck)
    b(ck)
    c(ck)
    d(ck)
    e(ck)
    ck.floor("E", 2)
    ck.floor("A", 1)
    ck.floor("B", 3)
    ck.floor("C", 1)
    ck.floor("D", 2)


def a(ck: Check) -> None:
    from .symstr import SymEval
    fm = ck.prog.fm(SP, "percolate_space")
    f = fm.f
    net, sp = f.params()[0], f.params()[1]
    se = SymEval(fm)
    probs = []
    rets = [r for r in own_walk(f.node) if isinstance(r, ast.Return)]
    P = f"Percolation.percolate_subspace({net},{sp})"
    if len(rets) != 1:
        probs.append("the mapped dictionary is not what is returned")
    else:
        col = se.collection(rets[0].value, fm.cfgn(rets[0]))
        want_el = f"{net}.get_network_variable_name(elem({P})):idx({P},elem({P}))"
        if col is None:
            probs.append("does not delegate to Percolation.percolate_subspace(network, space)")
        else:
            for el, cnd in col:
                if el != want_el:
                    if P not in el:
                        probs.append("does not delegate to Percolation.percolate_subspace(network, space)")
                    else:
                        probs.append(f"items of AEON's result are rewritten (`{el[:90]}`): expected name -> value, copied as they are")
                if logic.atoms(cnd):
                    probs.append("items of AEON's result are filtered or skipped")
            if not col:
                probs.append("nothing is copied from AEON's result")
    ck.ob("A", fm, f.node, not probs, "; ".join(sorted(set(probs))) if probs else "AEON's percolation returned name by name, unfiltered",
          key="delegation")


def b(ck: Check) -> None:
    """percolate_space_strict as chaotic iteration, decided along the paths of one scan step: what happens to the scanned
    variable when its function is undetermined / determined without conflict / determined in conflict with a given value."""
    from .c13 import _flag_form, _tbranch
    from .common import enumerate_paths
    fm = ck.prog.fm(SP, "percolate_space_strict")
    f = fm.f
    net, sp = f.params()[0], f.params()[1]
    whiles = [n for n in f.node.body if isinstance(n, ast.While)]
    form = _flag_form(fm, whiles[0]) if len(whiles) == 1 else None
    if form is None:
        raise AnalysisError("percolate_space_strict: the propagation loop is not a flag-controlled fixpoint loop (`while not done`, "
                            "`while changed`, `while True ... if not changed: break`); this analyser only recognises the "
                            "chaotic-iteration shape and cannot decide another algorithm")
    wl = whiles[0]
    flag, cont = form
    acc_merged = False
    if cont == "acc":
        # the round's findings are collected in `flag` and merged into the result after the scan: that merge must lie on
        # every path from the scan to the next round
        from .c13 import _within
        merges = [n for n in fm.cfg.nodes if n.kind == "stmt" and n.id in fm.cfg.loop_nodes[wl] and (
            (isinstance(n.ast, ast.Expr) and isinstance(n.ast.value, ast.Call) and isinstance(n.ast.value.func, ast.Attribute)
             and n.ast.value.func.attr == "update" and n.ast.value.args and text(n.ast.value.args[0]) == flag) or
            (isinstance(n.ast, ast.AugAssign) and isinstance(n.ast.op, ast.BitOr) and text(n.ast.value) == flag) or
            (isinstance(n.ast, ast.Assign) and isinstance(n.ast.value, ast.BinOp) and isinstance(n.ast.value.op, ast.BitOr)
             and text(n.ast.value.right) == flag and text(n.ast.value.left) == text(n.ast.targets[0])))]
        if merges:
            m0 = merges[0]
            mt = text(m0.ast.value.func.value) if isinstance(m0.ast, ast.Expr) else text(m0.ast.target if isinstance(m0.ast, ast.AugAssign) else m0.ast.targets[0])
            inner_for = [n for n in wl.body if isinstance(n, ast.For)]
            if inner_for:
                ihdr = fm.cfg.loop_header[inner_for[0]]
                if fm.cfg.loop_header[wl].id not in _within(fm, wl, ihdr, {m.id for m in merges}) - set():
                    acc_merged = mt
    inner = [n for n in wl.body if isinstance(n, ast.For)]
    if len(inner) != 1:
        raise AnalysisError("percolate_space_strict: a round is not one scan over the candidate variables")
    il = inner[0]
    var = text(il.target)
    it = il.iter
    base = it.args[0] if isinstance(it, ast.Call) and callee_name(it) in ("copy", "list", "sorted", "set", "tuple") and it.args else it
    cand = text(base)
    probs = []
    # candidates: all network variables minus constants, removed before the loop
    from .symstr import SymEval
    se = SymEval(fm)
    cd = [n for n in f.node.body if isinstance(n, ast.Assign) and text(n.targets[0]) == cand]
    if not cd or "network_variable_names()" not in se.val(cd[0].value, fm.cfgn(cd[0])):
        probs.append(f"`{cand}` does not start as the set of all network variables")
    pre = [n for n in f.node.body if isinstance(n, ast.For) and n.lineno < wl.lineno]
    okc = False
    for p_ in pre:
        rm = [x for x in ast.walk(p_) if isinstance(x, ast.Call) and isinstance(x.func, ast.Attribute) and x.func.attr in ("remove", "discard")
              and text(x.func.value) == cand]
        if rm:
            pc = fm.pc(fm.cfgn(rm[0]))
            ats = {a_[1] for a_ in logic.atoms(pc) if a_[0] == "b"}
            if any("is_true()" in x for x in ats) and any("is_false()" in x for x in ats):
                okc = True
    if isinstance(cd[0].value if cd else None, (ast.SetComp, ast.ListComp)) or (cd and any(isinstance(x, (ast.SetComp, ast.ListComp)) for x in ast.walk(cd[0].value))):
        comp = next(x for x in ast.walk(cd[0].value) if isinstance(x, (ast.SetComp, ast.ListComp)))
        t_ = " ".join(text(c_) for g_ in comp.generators for c_ in g_.ifs)
        if "is_true()" in t_ and "is_false()" in t_:
            okc = True
    if not okc:
        probs.append("variables with constant update functions are not removed before propagation (the strict variant must not "
                     "propagate constants of the network itself)")
    if not (isinstance(it, ast.Call) and callee_name(it) in ("copy", "list", "sorted", "tuple", "set")) or cand == text(it):
        probs.append("a round does not scan a snapshot of all remaining candidates")
    ck.ob("B", fm, wl, not probs, "; ".join(probs) if probs else "each round rescans all remaining non-constant variables", key="rounds")
    # the working space and the evaluated value
    probs = []
    fe = [n for n in ast.walk(il) if isinstance(n, ast.Call) and callee_name(n) == "function_eval"]
    if len(fe) != 1 or not isinstance(f.stmt_of(fe[0]), ast.Assign) or f.stmt_of(fe[0]).value is not fe[0]:
        raise AnalysisError("percolate_space_strict: the evaluation of the scanned variable's function is not recognised")
    work = text(fe[0].args[1])
    EV = text(f.stmt_of(fe[0]).targets[0])
    wd = [n for n in f.node.body if isinstance(n, ast.Assign) and text(n.targets[0]) == work]
    if not wd or f"copy({sp})" not in text(wd[0].value) and text(wd[0].value) not in (f"dict({sp})", f"{sp}.copy()", f"{{**{sp}}}"):
        probs.append("propagation does not start from a copy of the given space")
    fat = fm.cfgn(fe[0])
    if se.val(fe[0].args[0], fat) != f"{net}.mk_update_function({se.val(ast.Name(var, ast.Load()), fat)})":
        probs.append("the evaluated function is not the update function of the scanned variable")
    res = None
    rets = [r for r in own_walk(f.node) if isinstance(r, ast.Return)]
    if len(rets) == 1 and isinstance(rets[0].value, ast.Name):
        res = rets[0].value.id
    if res and [n for n in f.node.body if isinstance(n, ast.Assign) and text(n.targets[0]) == res
                and not (isinstance(n.value, ast.Dict) and not n.value.keys)]:
        probs.append("the result does not start empty (it must contain only newly fixed variables)")
    # one scan step, path by path
    NONE = logic.B(f"none:{EV}")
    INW = logic.B(f"in:{var}|{work}")
    l_, r_ = sorted([f"{work}[{var}]", EV])
    EQ = logic.B(f"eq:{l_}|{r_}")
    conflict = logic.And(INW, logic.Not(EQ))
    hdr = fm.cfg.loop_header[il]
    ids = fm.cfg.loop_nodes[il]
    outside = {n.id for n in fm.cfg.nodes if n.id not in ids and n.id != hdr.id}
    fix_probs = []
    n_paths = 0
    for path in enumerate_paths(fm, _tbranch(fm, il), hdr, stop=outside):
        facts = []
        ev_seen = False
        stores = {work: None, res: None}
        removed = False
        flagged = False
        for i in path:
            n = fm.cfg.nodes[i]
            if n.kind == "branch" and n.test is not None and ev_seen:
                tnode = fm.cfg.nodes[next(iter(fm.cfg.g.predecessors(n.id)))]
                ff = fm.translator(tnode).f(n.test)
                facts.append(ff if n.pol else logic.Not(ff))
            if n.kind == "stmt":
                a_ = n.ast
                if a_ is f.stmt_of(fe[0]):
                    ev_seen = True
                if isinstance(a_, ast.Assign) and isinstance(a_.targets[0], ast.Subscript) and text(a_.targets[0].value) in stores:
                    stores[text(a_.targets[0].value)] = (text(a_.targets[0].slice), text(a_.value))
                if isinstance(a_, ast.Assign) and text(a_.targets[0]) == flag and isinstance(a_.value, ast.Constant) and a_.value.value is cont:
                    flagged = True
                if cont == "acc" and isinstance(a_, ast.Assign) and isinstance(a_.targets[0], ast.Subscript) and text(a_.targets[0].value) == flag:
                    flagged = True       # something was found in this round
                    if acc_merged and acc_merged == res:
                        stores[res] = (text(a_.targets[0].slice), text(a_.value))   # enters the result through the merge
                for c_ in ast.walk(a_) if not isinstance(a_, (ast.FunctionDef, ast.ClassDef)) else []:
                    if isinstance(c_, ast.Call) and isinstance(c_.func, ast.Attribute) and c_.func.attr in ("remove", "discard") \
                            and text(c_.func.value) == cand:
                        removed = True
        hyp = logic.And(*facts)
        try:
            if not logic.satisfiable(hyp):
                continue
        except logic.TooBig:
            fix_probs.append("scan step too complex to decide")
            continue
        n_paths += 1
        desc = f"(when {logic.show(hyp)[:110]})"
        undet = logic.implies(hyp, NONE)
        det_ok = logic.implies(hyp, logic.And(logic.Not(NONE), logic.Not(conflict)))
        det_conf = logic.implies(hyp, logic.And(logic.Not(NONE), conflict))
        if not (undet or det_ok or det_conf):
            fix_probs.append(f"a scan step does not distinguish undetermined / determined / conflicting {desc}")
            continue
        w_, r2 = stores[work], stores[res]
        if undet:
            if w_ or r2 or removed:
                fix_probs.append(f"a variable whose function is still undetermined is fixed or dropped from the candidates {desc} "
                                 f"(it could become determined in a later round)")
        elif det_conf:
            if w_ or r2:
                fix_probs.append(f"a given value is overwritten (or reported) although it conflicts with the dynamics {desc}: given "
                                 f"values are kept even when they conflict")
        else:
            if w_ != (var, EV) or r2 != (var, EV):
                fix_probs.append(f"a newly determined value does not enter both the working space and the result {desc}")
            if not flagged:
                fix_probs.append(f"a value is fixed without requesting another round {desc}: variables that depend on it are not "
                                 f"re-evaluated")
    if n_paths < 3:
        fix_probs.append("the scan step does not have the three cases undetermined / determined / conflict")
    ck.ob("B", fm, il, not probs and not fix_probs, "; ".join(probs + sorted(set(fix_probs))) if (probs or fix_probs) else
          "values stored only when determined and not in conflict with a given value; result = newly fixed values; "
          "undetermined variables stay candidates; every new value triggers another round", key="stores")
    ck.ob("B", fm, wl, True, f"flag-controlled rounds (`{flag}` continues with {cont if cont != 'acc' else 'a non-empty round'})", key="fixpoint")


def c(ck: Check) -> None:
    """function_eval by case analysis on the constancy of f: for f false / f true / f not constant, every return that is
    reachable in that case returns the right value."""
    from .symstr import SymEval
    fm = ck.prog.fm("biobalm.symbolic_utils", "function_eval")
    f = fm.f
    fp, sp = f.params()[0], f.params()[1]
    probs = []
    R = f"{fp}.r_restrict({sp})"
    IS_T, IS_F = logic.B(f"T:{R}.is_true()"), logic.B(f"T:{R}.is_false()")
    cases = [("the constant false", {f"{fp}.is_false()": True, f"{fp}.is_true()": False}, "0"),
             ("the constant true", {f"{fp}.is_false()": False, f"{fp}.is_true()": True}, "1"),
             ("a non-constant function", {f"{fp}.is_false()": False, f"{fp}.is_true()": False}, None)]
    for label, assume, const in cases:
        se = SymEval(fm, assume=assume)
        H = se.hypothesis()
        reached = 0
        def split(e, at, cnd):
            """(condition, value token) for every way a returned (conditional) expression can evaluate"""
            x, at2 = fm.deref_at(e, at) if e is not None else (None, at)
            if isinstance(x, ast.IfExp):
                t_ = se.truth(x.test, at2)
                if t_ is True:
                    return split(x.body, at2, cnd)
                if t_ is False:
                    return split(x.orelse, at2, cnd)
                c_ = se.translator(at2).f(x.test)
                return split(x.body, at2, logic.And(cnd, c_)) + split(x.orelse, at2, logic.And(cnd, logic.Not(c_)))
            return split_tok(se.val(e, at) if e is not None else "None", cnd)

        def split_tok(tok: str, cnd):
            """a conditional value that only exists as a token (the returned local has several definitions)"""
            from .symstr import _balanced, _split_top
            if tok.startswith("ite(") and _balanced(tok, 3) == len(tok):
                parts = _split_top(tok[4:-1])
                if len(parts) == 3:
                    known = se.assume.get(parts[0])
                    if known is True:
                        return split_tok(parts[1], cnd)
                    if known is False:
                        return split_tok(parts[2], cnd)
                    c_ = logic.B("T:" + parts[0])
                    return split_tok(parts[1], logic.And(cnd, c_)) + split_tok(parts[2], logic.And(cnd, logic.Not(c_)))
            return [(cnd, tok)]

        outcomes = []
        for r in own_walk(f.node):
            if isinstance(r, ast.Return):
                rn = fm.cfgn(r)
                outcomes += [(c_, v_, rn) for c_, v_ in split(r.value, rn, se.cond(rn))]
        for cnd_r, v, rn in outcomes:
            hyp = logic.And(H, cnd_r)
            if not logic.satisfiable(hyp):
                continue
            reached += 1
            if const is not None:
                # restricting a constant gives the same constant: both spellings of the test are accepted
                same = {f"T:{R}.is_true()": const == "1", f"T:{R}.is_false()": const == "0"}
                hyp2 = logic.And(hyp, *[logic.B(k) if t else logic.Not(logic.B(k)) for k, t in same.items()])
                if logic.satisfiable(hyp2) and v != const:
                    probs.append(f"for {label} the function can return {v} (expected {const})")
            else:
                if v == "1" and not logic.implies(hyp, IS_T):
                    probs.append(f"returns 1 under `{logic.show(cnd_r)[:100]}`; expected only when the restricted function is true")
                elif v == "0" and not logic.implies(hyp, IS_F):
                    probs.append(f"returns 0 under `{logic.show(cnd_r)[:100]}`; expected only when the restricted function is false")
                elif v == "None" and not logic.implies(hyp, logic.And(logic.Not(IS_T), logic.Not(IS_F))):
                    probs.append("None returned although the restricted function is a constant")
                elif v not in ("0", "1", "None"):
                    probs.append(f"returns `{v}`")
        if not reached:
            probs.append(f"no return for {label}")
    ck.ob("C", fm, f.node, not probs, "; ".join(sorted(set(probs))) if probs else
          "is_true -> 1, is_false -> 0, else None (before and after restriction)", key="function_eval")


def d(ck: Check) -> None:
    from .. import peval
    from ..repo import Func
    from .symstr import SymEval
    prog = ck.prog
    fm0 = prog.fm("biobalm.drivers", "find_single_node_LDOIs")
    f = fm0.f
    net = f.params()[0]
    fm = FuncModel(prog, Func(f.module, f.qualname, peval.specialise(f.node, {}, unroll=True), f.cls, f.parent))
    se = SymEval(fm)
    probs = []
    rets = [r for r in own_walk(fm.f.node) if isinstance(r, ast.Return) and r.value is not None]
    col = se.collection(rets[-1].value, fm.cfgn(rets[-1])) if rets else None
    net0 = net
    net = se.val(ast.Name(net, ast.Load()), fm.cfgn(rets[-1])) if rets else net   # the graph the function works on
    # ... which is the given network, or the symbolic graph of exactly that network
    for n_ in own_walk(fm.f.node):
        if isinstance(n_, ast.Assign) and len(n_.targets) == 1 and text(n_.targets[0]) == net0:
            v_ = n_.value
            def _graph_of_given(e_) -> bool:
                if isinstance(e_, ast.IfExp):       # `AsynchronousGraph(n) if isinstance(n, BooleanNetwork) else n`
                    return _graph_of_given(e_.body) and _graph_of_given(e_.orelse)
                return (isinstance(e_, ast.Name) and e_.id == net0) or (
                    isinstance(e_, ast.Call) and callee_name(e_) == "AsynchronousGraph" and len(e_.args) == 1 and text(e_.args[0]) == net0)
            okg = _graph_of_given(v_)
            if not okg:
                probs.append(f"line {n_.lineno}: the LDOIs are computed on `{text(v_)[:60]}`, not on the given network: a transformed "
                             f"network (constants inlined, inputs fixed) has other strict percolations than the one that was asked about")
    V = f"elem({net}.network_variable_names())"
    FN = f"{net}.mk_update_function({V})"
    notconst = logic.And(logic.Not(logic.B(f"T:{FN}.is_true()")), logic.Not(logic.B(f"T:{FN}.is_false()")))
    if not col:
        probs.append("the LDOIs are not collected into the returned dictionary")
    else:
        got = {}
        for el, cnd in col:
            got.setdefault(el, []).append(cnd)
        for v in ("0", "1"):
            want = f"({V},{v}):percolate_space_strict({net},{{{V}:{v}}})"
            if want not in got:
                probs.append(f"the LDOI of (variable, {v}) is not the strict percolation of exactly that value for every variable "
                             f"(both values of every variable must be covered)")
            elif not logic.equivalent(logic.Or(*got[want]), notconst):
                probs.append("variables are skipped for another reason than a constant update function")
        for el in got:
            if not any(el == f"({V},{v}):percolate_space_strict({net},{{{V}:{v}}})" for v in ("0", "1")):
                probs.append(f"`{el[:90]}`: the LDOI of (variable, value) must be the strict percolation of exactly that value")
    ck.ob("D", fm0, f.node, not probs, "; ".join(sorted(set(probs))) if probs else "LDOI(x=v) = strict percolation of {x: v}, constants skipped",
          key="single LDOIs")
    fm = prog.fm("biobalm.drivers", "find_single_drivers")
    f = fm.f
    tgt, net2 = f.params()[0], f.params()[1]
    se = SymEval(fm)
    probs = []
    rets = [r for r in own_walk(f.node) if isinstance(r, ast.Return) and r.value is not None]
    col = se.collection(rets[-1].value, fm.cfgn(rets[-1])) if rets else None
    if not col or len(col) != 1:
        probs.append("drivers are not collected at one place")
    else:
        el, cnd = col[0]
        import re
        m = re.match(r"^elem\((.*)\)$", el)
        L = m.group(1) if m else None
        if L is None:
            probs.append(f"a driver is `{el[:60]}`, not a (variable, value) key of the LDOI table")
        else:
            fixk, ldoi = f"elem({L})", f"idx({L},elem({L}))"
            ats = [a_ for a_ in logic.atoms(cnd) if a_[0] == "b"]
            oks = [a_ for a_ in ats if a_[1].replace(" ", "") in (f"le:items({tgt})|(items({ldoi})BitOr{{{fixk}}})".replace(" ", ""),
                                                                   f"le:items({tgt})|({{{fixk}}}BitOritems({ldoi}))".replace(" ", ""))]
            if not oks or not logic.equivalent(cnd, ("atom", oks[0])):
                probs.append(f"a driver is accepted under `{logic.show(cnd)[:140]}`; expected: the target is contained in its LDOI "
                             f"together with the fixed value itself")
            # the table: the given one, or computed from the given network
            NET2 = se.val(ast.Name(net2, ast.Load()), fm.cfgn(rets[-1]))
            if "find_single_node_LDOIs" in L and f"find_single_node_LDOIs({NET2})" not in L:
                probs.append("the LDOIs are computed from another network than the one given")
            if "find_single_node_LDOIs" not in L:
                probs.append("when no table is supplied, the drivers are not searched in LDOIs freshly computed from the given "
                             "network (a table filled for another network may be used)")
    # a supplied table is used as it is: it is replaced exactly when it was omitted (`is None`); an empty table is an answer
    # ("no node state to consider"), not an omission
    tab_p = next((p_ for p_ in f.params()[2:] if True), None)
    for c_ in own_walk(f.node):
        if isinstance(c_, ast.Call) and callee_name(c_) == "find_single_node_LDOIs":
            st_ = f.stmt_of(c_)
            if isinstance(st_, ast.Assign) and tab_p and text(st_.targets[0]) == tab_p:
                pc_ = fm.pc(fm.cfgn(c_))
                na_ = logic.B(f"none:{tab_p}")
                if not (na_[1] in logic.atoms(pc_) and logic.equivalent(pc_, na_)):
                    probs.append(f"line {c_.lineno}: the table is recomputed under `{logic.show(pc_)[:80]}`, not exactly when it was omitted "
                                 f"(`{tab_p} is None`): a supplied empty table is replaced by the LDOIs of all variables and drivers "
                                 f"outside the caller's table are reported")
    ck.ob("D", fm, f.node, not probs, "; ".join(probs) if probs else "driver iff target <= LDOI + {the fixed value}", key="single drivers")


def e(ck: Check) -> None:
    from .symstr import SymEval
    fm = ck.prog.fm(SP, "percolation_conflicts")
    f = fm.f
    net, sp, flag = f.params()[0], f.params()[1], f.params()[2]
    rets = [r for r in own_walk(f.node) if isinstance(r, ast.Return) and r.value is not None]
    if not rets:
        raise AnalysisError("anchor vanished: result of percolation_conflicts")
    for case in (True, False):
        se = SymEval(fm, assume={flag: case})
        P = f"percolate_space_strict({net},{sp})" if case else f"percolate_space({net},{sp})"
        probs = []
        for r in rets:
            col = se.collection(r.value, fm.cfgn(r))
            if col is None:
                probs.append(f"line {r.lineno}: the result `{text(r.value)[:50]}` is not a collection the analyser can follow")
                continue
            if not col:
                probs.append("no conflict is ever recorded")
            for el, cnd in col:
                # the variables examined: those of the percolated space (or, without the strict variant, of the given
                # space, whose values the percolation keeps)
                srcs = [P] if case else [P, sp]
                src = next((s_ for s_ in srcs if el == f"elem({s_})"), None)
                if src is None:
                    probs.append(f"conflicts are drawn from `{el[:70]}`, not from the variables of the percolated space")
                    continue
                FE = f"function_eval({net}.mk_update_function({el}),{P})"
                vals = [f"idx({src},{el})", f"idx({P},{el})"]
                none_a = logic.B(f"none:{FE}")
                ok_ = False
                ats = logic.atoms(cnd)
                for v_ in vals:
                    eq_a = logic.B("eq:" + "|".join(sorted([FE, v_])))
                    want = logic.And(logic.Not(none_a), logic.Not(eq_a))
                    extra = [x for x in ats if x not in (none_a[1], eq_a[1])]
                    # membership of a given variable in the percolated space is implied (given values are kept)
                    extra = [x for x in extra if not (x[0] == "b" and x[1] in (f"in:{el}|{P}", f"T:{el} in {P}"))]
                    try:
                        if not extra and logic.equivalent(cnd, want):
                            ok_ = True
                    except logic.TooBig:
                        pass
                if not ok_:
                    ctx_wrong = f"function_eval({net}.mk_update_function({el})," in logic.show(cnd) and FE not in logic.show(cnd)
                    probs.append((f"update functions are evaluated in another space than {P}: a conflict that shows only after a "
                                  f"propagation step is missed; " if ctx_wrong else "") +
                                 f"a variable is reported under `{logic.show(cnd)[:160]}`; expected: its update function, evaluated "
                                 f"in {P}, is determined and differs from the value the variable has there")
        ck.ob("E", fm, rets[0], not probs, "; ".join(sorted(set(probs))) if probs else
              f"conflicts = variables whose update function is determined in {P} and differs from their value",
              key=f"conflicts ({'strict' if case else 'plain'} percolation)")
