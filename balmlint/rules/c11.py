"""C11 -- percolation computes exactly the logical domain of influence (delegation and propagation discipline)."""

from __future__ import annotations

import ast

from .. import logic
from ..program import FuncModel, call_arg
from ..report import Check
from ..repo import AnalysisError, dotted, own_walk, text
from .common import callee_name, is_empty_list, is_false, is_none, is_true

SP = "biobalm.space_utils"

EXPLANATION = (
    "(A) percolate_space returns AEON's Percolation.percolate_subspace(network, space) mapped name by name: every item is "
    "copied, nothing filtered, defaulted or rewritten. (B) percolate_space_strict is the chaotic iteration of the "
    "propagation operator: a `while not done` loop that rescans every remaining candidate in each round; a given value "
    "is never overwritten (the store into the working space is on the false edge of 'variable given and value differs'); "
    "variables with constant update functions are removed before the loop; only values newly fixed on that edge enter "
    "the result; a variable leaves the candidate set only after it was decided. A propagation loop of another shape is "
    "not recognised (ANALYSIS-ERROR: cannot decide), it is not reported as a violation. (C) function_eval maps "
    "is_true -> 1, is_false -> 0, undetermined -> None, before and after restriction to the state. (D) "
    "find_single_node_LDOIs uses the strict percolation of each single value, skipping constant functions; "
    "find_single_drivers tests target <= LDOI + {the fixed value itself} in that direction and computes the LDOIs from "
    "the given network when none are supplied."
)
ASSUMPTIONS = [
    "AEON's percolate_subspace is the least fixed point of value propagation",
    "the result of the chaotic iteration does not depend on the visiting order (monotone operator)",
]


def run(ck: Check) -> None:
    a(ck)
    b(ck)
    c(ck)
    d(ck)
    ck.floor("A", 1)
    ck.floor("B", 3)
    ck.floor("C", 1)
    ck.floor("D", 2)


def a(ck: Check) -> None:
    fm = ck.prog.fm(SP, "percolate_space")
    f = fm.f
    net, sp = f.params()[0], f.params()[1]
    probs = []
    calls = [n for n in own_walk(f.node) if isinstance(n, ast.Call) and callee_name(n) == "percolate_subspace"]
    if len(calls) != 1 or [text(x) for x in calls[0].args] != [net, sp]:
        probs.append("does not delegate to Percolation.percolate_subspace(network, space)")
    loops = [n for n in own_walk(f.node) if isinstance(n, ast.For)]
    rets = [r for r in own_walk(f.node) if isinstance(r, ast.Return)]
    if len(loops) != 1 or any(isinstance(x, (ast.If, ast.Continue, ast.Break)) for x in ast.walk(loops[0])):
        probs.append("items of AEON's result are filtered or skipped")
    else:
        lp = loops[0]
        src = lp.iter
        d = fm.single_def(src.func.value.id, fm.cfg.loop_header[lp]) if isinstance(src, ast.Call) and isinstance(src.func, ast.Attribute) \
            and isinstance(src.func.value, ast.Name) else None
        if not (isinstance(src, ast.Call) and callee_name(src) == "items" and d and d[1] is calls[0] if calls else False):
            probs.append("the loop does not range over the items of AEON's result")
        st = [s for s in lp.body if isinstance(s, ast.Assign) and isinstance(s.targets[0], ast.Subscript)]
        var, val = [text(t) for t in lp.target.elts] if isinstance(lp.target, ast.Tuple) else ("?", "?")
        if len(st) != 1 or f"int({val})" not in text(st[0].value):
            probs.append("values are not copied as int(value)")
        else:
            k = st[0].targets[0].slice
            kd = fm.single_def(k.id, fm.cfgn(st[0])) if isinstance(k, ast.Name) else None
            if not (kd and text(kd[1]) == f"{net}.get_network_variable_name({var})"):
                probs.append("keys are not the network names of AEON's variable ids")
            if len(rets) != 1 or text(rets[0].value) != text(st[0].targets[0].value):
                probs.append("the mapped dictionary is not what is returned")
    ck.ob("A", fm, f.node, not probs, "; ".join(probs) if probs else "AEON's percolation returned name by name, unfiltered", key="delegation")


def b(ck: Check) -> None:
    fm = ck.prog.fm(SP, "percolate_space_strict")
    f = fm.f
    net, sp = f.params()[0], f.params()[1]
    whiles = [n for n in f.node.body if isinstance(n, ast.While)]
    if len(whiles) != 1 or not (isinstance(whiles[0].test, ast.UnaryOp) and isinstance(whiles[0].test.operand, ast.Name)):
        raise AnalysisError("percolate_space_strict: the propagation loop is not a `while not <flag>` fixpoint loop; this "
                            "analyser only recognises the chaotic-iteration shape and cannot decide another algorithm")
    wl = whiles[0]
    inner = [n for n in wl.body if isinstance(n, ast.For)]
    if len(inner) != 1:
        raise AnalysisError("percolate_space_strict: a round is not one scan over the candidate variables")
    il = inner[0]
    var = text(il.target)
    it = il.iter
    base = it.args[0] if isinstance(it, ast.Call) and callee_name(it) in ("copy", "list", "sorted", "set", "tuple") and it.args else it
    cand = text(base)
    probs = []
    # candidates: all network variables minus constants, removed before the loop
    cd = [n for n in f.node.body if isinstance(n, ast.Assign) and text(n.targets[0]) == cand]
    if not cd or "network_variable_names()" not in text(cd[0].value):
        probs.append(f"`{cand}` does not start as the set of all network variables")
    pre = [n for n in f.node.body if isinstance(n, ast.For) and n.lineno < wl.lineno]
    okc = False
    for p in pre:
        rm = [x for x in ast.walk(p) if isinstance(x, ast.Call) and isinstance(x.func, ast.Attribute) and x.func.attr in ("remove", "discard")
              and text(x.func.value) == cand]
        if rm:
            pc = fm.pc(fm.cfgn(rm[0]))
            ats = {a_[1] for a_ in logic.atoms(pc) if a_[0] == "b"}
            if any("is_true()" in x for x in ats) and any("is_false()" in x for x in ats):
                okc = True
    if not okc:
        probs.append("variables with constant update functions are not removed before propagation (the strict variant must not "
                     "propagate constants of the network itself)")
    if not (isinstance(it, ast.Call) and callee_name(it) in ("copy", "list", "sorted", "tuple", "set")) or cand == text(it):
        probs.append("a round does not scan a snapshot of all remaining candidates")
    ck.ob("B", fm, wl, not probs, "; ".join(probs) if probs else "each round rescans all remaining non-constant variables", key="rounds")
    # the working space: copy of the given space; stores
    probs = []
    fe = [n for n in ast.walk(il) if isinstance(n, ast.Call) and callee_name(n) == "function_eval"]
    work = text(fe[0].args[1]) if fe else None
    wd = [n for n in f.node.body if isinstance(n, (ast.Assign, ast.AnnAssign)) and text(n.targets[0] if isinstance(n, ast.Assign) else n.target) == work]
    if not fe or not wd or f"copy({sp})" not in text(wd[0].value):
        probs.append("propagation does not start from a copy of the given space")
    else:
        fn = fe[0].args[0]
        fd = fm.single_def(fn.id, fm.cfgn(fe[0])) if isinstance(fn, ast.Name) else None
        if not (fd and text(fd[1]) == f"{net}.mk_update_function({var})"):
            probs.append("the evaluated function is not the update function of the scanned variable")
    stores = [n for n in ast.walk(il) if isinstance(n, ast.Assign) and isinstance(n.targets[0], ast.Subscript)]
    fv = text(f.stmt_of(fe[0]).targets[0]) if fe and isinstance(f.stmt_of(fe[0]), ast.Assign) else "?"
    res = None
    rets = [r for r in own_walk(f.node) if isinstance(r, ast.Return)]
    if len(rets) == 1 and isinstance(rets[0].value, ast.Name):
        res = rets[0].value.id
    for s_ in stores:
        tgt = text(s_.targets[0].value)
        if text(s_.targets[0].slice) != var or text(s_.value) != fv:
            probs.append(f"line {s_.lineno}: `{text(s_)}` does not store the evaluated value of the scanned variable")
            continue
        from .c03 import dom_pc_text
        pc = dom_pc_text(fm, fm.cfgn(s_), fm.cfg.loop_nodes[il])  # conditions as evaluated at the tests
        conflict = logic.And(logic.B(f"in:{var}|{work}"), logic.Not(logic.B("eq:" + "|".join(sorted([f"{work}[{var}]", fv])))))
        want = logic.And(logic.Not(logic.B(f"none:{fv}")), logic.Not(conflict))
        try:
            if not logic.equivalent(pc, want):
                probs.append(f"line {s_.lineno}: `{tgt}[{var}]` is written under `{logic.show(pc)[:140]}`; expected: the function is "
                             f"determined and the variable is not already given with a different value (given values are kept even "
                             f"when they conflict with the dynamics)")
        except logic.TooBig:
            probs.append("store condition too complex")
    tg = {text(s_.targets[0].value) for s_ in stores}
    if work not in tg or (res and res not in tg):
        probs.append("newly fixed values must enter both the working space and the result")
    if res and [n for n in f.node.body if isinstance(n, (ast.Assign, ast.AnnAssign)) and text(n.targets[0] if isinstance(n, ast.Assign) else n.target) == res
                and not (isinstance(n.value, ast.Dict) and not n.value.keys)]:
        probs.append("the result does not start empty (it must contain only newly fixed variables)")
    ck.ob("B", fm, il, not probs, "; ".join(probs) if probs else
          "values stored only when determined and not in conflict with a given value; result = newly fixed values", key="stores")
    # removal discipline and the flag
    probs = []
    flag = whiles[0].test.operand.id
    for x in ast.walk(il):
        if isinstance(x, ast.Call) and isinstance(x.func, ast.Attribute) and x.func.attr in ("remove", "discard") and text(x.func.value) == cand:
            pc = fm.pc(fm.cfgn(x))
            if not logic.implies(pc, logic.Not(logic.B(f"none:{fv}"))):
                probs.append(f"line {x.lineno}: a variable is dropped from the candidates although its function is still undetermined "
                             f"(it could become determined in a later round)")
    clears = [x for x in ast.walk(il) if isinstance(x, ast.Assign) and text(x.targets[0]) == flag and is_false(x.value)]
    if not clears:
        probs.append("a newly fixed value does not trigger another round")
    else:
        for s_ in stores:
            if text(s_.targets[0].value) == work:
                blk = fm.f.parents.get(s_)
                if not any(fm.f.parents.get(c_) is blk for c_ in clears):
                    probs.append("a value is fixed without requesting another round: variables that depend on it are not re-evaluated")
    ck.ob("B", fm, wl, not probs, "; ".join(probs) if probs else
          "undetermined variables stay candidates; every new value triggers another round", key="fixpoint")


def c(ck: Check) -> None:
    fm = ck.prog.fm("biobalm.symbolic_utils", "function_eval")
    f = fm.f
    fp, sp = f.params()[0], f.params()[1]
    probs = []
    red = None
    for n in own_walk(f.node):
        if isinstance(n, ast.Assign) and isinstance(n.value, ast.Call) and callee_name(n.value) == "r_restrict":
            red = text(n.targets[0])
            if text(n.value.func.value) != fp or text(n.value.args[0]) != sp:
                probs.append("the function is not restricted to the given state")
    if red is None:
        probs.append("no restriction to the state")
    seen = set()
    for r in own_walk(f.node):
        if isinstance(r, ast.Return):
            pc = fm.pc(fm.cfgn(r))
            v = r.value
            ats = {a_[1] for a_ in logic.atoms(pc) if a_[0] == "b"}
            if isinstance(v, ast.Constant) and v.value in (0, 1) and not isinstance(v.value, bool):
                want = "is_true()" if v.value == 1 else "is_false()"
                pos = [a_ for a_ in ats if want in a_ and logic.implies(pc, logic.B(a_))]
                if not pos:
                    probs.append(f"line {r.lineno}: returns {v.value} under `{logic.show(pc)}`; expected only when the (restricted) "
                                 f"function {want}")
                else:
                    seen.add((v.value, pos[0].split(".")[0][2:]))
            elif is_none(v):
                if not all(logic.implies(pc, logic.Not(logic.B(a_))) for a_ in ats):
                    probs.append("None returned although a constant was recognised")
            else:
                probs.append(f"returns `{text(v)}`")
    need = {(0, fp), (1, fp), (0, red), (1, red)}
    if red and not need <= seen:
        probs.append(f"missing cases {sorted(need - seen)}: constants must be recognised before and after the restriction")
    ck.ob("C", fm, f.node, not probs, "; ".join(probs) if probs else "is_true -> 1, is_false -> 0, else None (before and after restriction)",
          key="function_eval")


def d(ck: Check) -> None:
    prog = ck.prog
    fm = prog.fm("biobalm.drivers", "find_single_node_LDOIs")
    f = fm.f
    probs = []
    st = [n for n in own_walk(f.node) if isinstance(n, ast.Assign) and isinstance(n.targets[0], ast.Subscript) and "LDOI" in text(n.targets[0].value)]
    vals = set()
    for s_ in st:
        k = s_.targets[0].slice
        v = s_.value
        if not (isinstance(k, ast.Tuple) and isinstance(v, ast.Call) and callee_name(v) == "percolate_space_strict"
                and isinstance(v.args[1], ast.Dict) and text(v.args[1].keys[0]) == text(k.elts[0]) and text(v.args[1].values[0]) == text(k.elts[1])):
            probs.append(f"`{text(s_)[:70]}`: the LDOI of (variable, value) must be the strict percolation of exactly that value")
        else:
            vals.add(text(k.elts[1]))
    if vals != {"0", "1"}:
        probs.append("both values of every variable must be covered")
    sk = [n for n in own_walk(f.node) if isinstance(n, ast.Continue)]
    if sk:
        t = fm.f.parents[sk[0]].test
        if "is_true()" not in text(t) or "is_false()" not in text(t):
            probs.append("variables are skipped for another reason than a constant update function")
    ck.ob("D", fm, f.node, not probs, "; ".join(probs) if probs else "LDOI(x=v) = strict percolation of {x: v}, constants skipped", key="single LDOIs")
    fm = prog.fm("biobalm.drivers", "find_single_drivers")
    f = fm.f
    tgt = f.params()[0]
    probs = []
    adds = [n for n in own_walk(f.node) if isinstance(n, ast.Call) and isinstance(n.func, ast.Attribute) and n.func.attr == "add"]
    if len(adds) != 1:
        probs.append("drivers are not collected at one place")
    else:
        tests = [(t, p) for t, p, b in fm.facts(fm.cfgn(adds[0])) if b.loop is None and isinstance(t, ast.Compare)]
        lp = [l for l in fm.cfg.enclosing_loops(fm.cfgn(adds[0])) if isinstance(l, ast.For)]
        fix, ld = [text(x) for x in lp[0].target.elts] if lp and isinstance(lp[0].target, ast.Tuple) else ("?", "?")
        if not tests:
            probs.append("a driver is accepted without a containment test")
        else:
            t, p = tests[-1]
            ok = p and isinstance(t.ops[0], ast.LtE) and text(t.left) == f"{tgt}.items()" \
                and text(t.comparators[0]).replace(" ", "") in (f"{ld}.items()|{{{fix}}}", f"{{{fix}}}|{ld}.items()")
            if not ok:
                probs.append(f"acceptance test `{text(t)}`; expected target.items() <= LDOI.items() | {{the fixed value itself}}")
        if text(adds[0].args[0]) != fix:
            probs.append("the accepted driver is not the tested one")
    dflt = f.param_defaults().get("LDOIs")
    if dflt is not None and not is_none(dflt):
        probs.append("the default LDOI table is a shared object")
    cp = [n for n in own_walk(f.node) if isinstance(n, ast.Assign) and text(n.targets[0]) == "LDOIs" and "find_single_node_LDOIs" in text(n.value)]
    if not cp or text(cp[0].value.args[0]) != "network":
        probs.append("missing LDOIs are not computed from the given network")
    else:
        pc = fm.pc(fm.cfgn(cp[0]))
        if not logic.equivalent(pc, logic.B("none:LDOIs")):
            probs.append(f"LDOIs are (re)computed under `{logic.show(pc)}`, expected: exactly when none were supplied")
    ck.ob("D", fm, f.node, not probs, "; ".join(probs) if probs else "driver iff target <= LDOI + {fixed value}; LDOIs of the given network",
          key="single drivers")
