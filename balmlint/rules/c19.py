"""C19 -- results are reproducible (hash order, canonical orders, randomness, hidden shared state)."""

from __future__ import annotations

import ast

from .. import logic
from ..program import FuncModel, call_arg
from ..report import Check
from ..repo import AnalysisError, dotted, own_walk, text
from .common import SD_MOD, callee_name, is_empty_list, is_false, is_none, is_true

EXPLANATION = (
    "(N1) order taint: every construct that exposes the iteration order of a set-typed value (for, comprehension, "
    "list/tuple/enumerate/combinations/next(iter)/pop) is either wrapped in sorted(), has a body made only of "
    "commutative updates (set add/remove, graph node removal, min/max/|= accumulation, assignments local to the "
    "iteration) with no order-dependent exit, or produces a sequence that flows only into order-insensitive "
    "consumers: membership-only parameters (checked in the callee), set()/sorted()/len(), or the canonicalising "
    "constructor (Intervention.__init__, whose two nested sorted() calls are checked). (N2) canonical orders: the "
    "sub-space list of single-node expansion is sorted by the injective space key before ids are assigned (it has "
    "two alternative enumeration sources); every driver sorts the successor list / level set it obtained before "
    "traversing it; extract_* and feedback_vertex_set results are sorted. (N3) the only random source is a local "
    "random.Random(seed) whose seed is a constant at every call site; no time/uuid/urandom/id()/hash() in the "
    "package. (N4) no global/nonlocal; module-level names are written only by the two registered flag sites (the "
    "AEON log level is restored on every normal path); mutable default arguments are never mutated, stored, "
    "returned or passed to a mutating callee; a diagram's config is never written and sub-diagrams get a copy."
)
ASSUMPTIONS = [
    "clingo and AEON are deterministic for identical call sequences",
    "hash() of int and of AEON VariableId does not depend on PYTHONHASHSEED; str hashing does",
    "dict insertion order is not an observable result (spaces compare equal regardless of key order)",
]

# chaotic iteration of a monotone operator: the fixpoint does not depend on the visiting order (reviewed)
N1_REVIEWED = {
    ("biobalm.space_utils:percolate_space_strict", "scan loop of a flag-controlled fixpoint"):
        "chaotic iteration towards the least fixed point of a monotone propagation; the outer loop repeats until "
        "nothing changes, only dict contents (not list order) are produced",
}


def run(ck: Check) -> None:
    n1(ck)
    n2(ck)
    n3(ck)
    n4(ck)
    ck.floor("N1", 10)
    ck.floor("N2", 12)
    ck.floor("N3", 2)
    ck.floor("N4", 5)


# ------------------------------------------------------------------------------------------ set typing
SET_MAKERS = {"set", "frozenset", "support_set", "descendants", "ancestors", "backward_reachable", "forward_reachable",
              "strongly_connected_components", "union", "intersection", "difference", "symmetric_difference"}
INT_HINTS = ("root", "node", "_id", "seen", "level", "lava", "printed", "visited")


def set_kind(fm: FuncModel, e: ast.AST, at, depth=0) -> str | None:
    """'str' (hash-seed dependent order), 'int' (order fixed across runs, but not canonical) or None (not a set)."""
    if depth > 5:
        return None
    if isinstance(e, (ast.Set, ast.SetComp)):
        return "str"
    if isinstance(e, ast.Call):
        nm = callee_name(e)
        if nm in ("set", "frozenset"):
            if not e.args:
                return "str"
            a = e.args[0]
            inner = set_kind(fm, a, at, depth + 1)
            if inner:
                return inner
            t = text(a)
            if any(h in t for h in ("successors", "to_expand", "block_nodes", "attach_at_list", "conflict_vars", "[root]", "[node_id]")):
                return "int"
            return "str"
        if nm in ("copy", "deepcopy") and e.args:
            return set_kind(fm, e.args[0], at, depth + 1)
        if nm in ("union", "intersection", "difference", "symmetric_difference") and isinstance(e.func, ast.Attribute):
            ks = [set_kind(fm, e.func.value, at, depth + 1)] + [set_kind(fm, a, at, depth + 1) for a in e.args]
            ks = [k for k in ks if k]
            if ks:
                return "str" if "str" in ks else "int"
            return None
        if nm in SET_MAKERS:
            return "str" if nm in ("support_set",) else "int"
        if nm == "cast" and len(e.args) == 2 and "set[" in text(e.args[0]):
            return "int" if "set[int]" in text(e.args[0]) else "str"
        return None
    if isinstance(e, ast.BinOp) and isinstance(e.op, (ast.Sub, ast.BitOr, ast.BitAnd, ast.BitXor)):
        l, r = set_kind(fm, e.left, at, depth + 1), set_kind(fm, e.right, at, depth + 1)
        if l or r:
            return "str" if "str" in (l, r) else "int"
        # a set operator applied to a dictionary view gives a set, whatever the other operand is (`d.keys() & some_list`)
        for side in (e.left, e.right):
            if isinstance(side, ast.Call) and isinstance(side.func, ast.Attribute) and side.func.attr in ("keys", "items") and not side.args:
                return "str"
        return None
    if isinstance(e, ast.Name):
        ann = _annotation(fm, e.id)
        if ann and (ann.startswith(("set[", "frozenset[", "Set[")) or ann in ("set", "frozenset")):
            return "int" if ("set[int]" in ann or "VariableId" in ann) else "str"
        if ann is not None and not ann.startswith(("set", "frozenset", "Set")) and "| None" not in ann:
            return None
        if ann is not None and "| None" in ann and ann.startswith("set["):
            return "int" if "set[int]" in ann else "str"
        kinds = set()
        for d in fm.cfg.reaching_defs(e.id, at) if at is not None else []:
            a = d.ast
            if d.kind == "stmt" and isinstance(a, (ast.Assign, ast.AnnAssign)) and a.value is not None:
                tg = a.targets[0] if isinstance(a, ast.Assign) else a.target
                if isinstance(tg, ast.Name):
                    k = set_kind(fm, a.value, d, depth + 1)
                    if k:
                        kinds.add(k)
            elif d.kind == "for":
                # loop variable over a list of (set, ...) tuples: `for block, nodes in blocks`
                tgt = d.ast.target
                if isinstance(tgt, ast.Tuple):
                    itann = _annotation(fm, text(d.ast.iter)) if isinstance(d.ast.iter, ast.Name) else None
                    if itann and "tuple[set[str]" in itann and tgt.elts and text(tgt.elts[0]) == e.id:
                        kinds.add("str")
        if kinds:
            return "str" if "str" in kinds else "int"
    return None


def _annotation(fm: FuncModel, name: str) -> str | None:
    a = fm.f.param_annotation(name)
    if a:
        return a
    for n in own_walk(fm.f.node):
        if isinstance(n, ast.AnnAssign) and isinstance(n.target, ast.Name) and n.target.id == name:
            return text(n.annotation)
        if isinstance(n, ast.Assign) and getattr(n, "_ann", None) is not None and isinstance(n.targets[0], ast.Name) \
                and n.targets[0].id == name:
            return text(n._ann)
    return None


# ------------------------------------------------------------------------------------------ N1
COMMUTATIVE_CALLS = {"add", "discard", "remove", "remove_node", "remove_edge", "update", "print"}


def _commutative_body(fm: FuncModel, body: list[ast.stmt], loopvars: set[str]) -> str | None:
    """None if the statements are order-insensitive updates; else a reason."""
    local: set[str] = set(loopvars)
    for s in body:
        if isinstance(s, ast.Expr) and isinstance(s.value, ast.Call):
            c = s.value
            if isinstance(c.func, ast.Attribute) and c.func.attr in COMMUTATIVE_CALLS:
                continue
            if isinstance(c.func, ast.Name) and c.func.id == "print":
                continue
            if isinstance(c.func, ast.Attribute) and c.func.attr in ("append", "extend", "insert"):
                return f"line {s.lineno}: `{text(s)[:50]}` builds a sequence in iteration order"
            return f"line {s.lineno}: call `{text(c)[:50]}` may depend on the order"
        if isinstance(s, (ast.Assign, ast.AnnAssign)):
            tg = s.targets[0] if isinstance(s, ast.Assign) else s.target
            if isinstance(tg, ast.Name):
                v = s.value
                if isinstance(v, ast.Call) and callee_name(v) in ("min", "max") and any(text(a) == tg.id for a in v.args):
                    continue
                if isinstance(v, ast.BinOp) and isinstance(v.op, (ast.BitOr, ast.BitAnd, ast.Add)) and text(v.left) == tg.id \
                        and isinstance(v.op, (ast.BitOr, ast.BitAnd)):
                    continue
                if isinstance(v, ast.Constant):
                    continue  # flags set to a constant (is_minimal = False)
                local.add(tg.id)
                continue
            if isinstance(tg, ast.Subscript):
                v = s.value
                if isinstance(v, ast.Call) and callee_name(v) in ("min", "max"):
                    continue
                return f"line {s.lineno}: keyed store `{text(s)[:50]}`"
            return f"line {s.lineno}: `{text(s)[:50]}`"
        if isinstance(s, ast.AugAssign):
            if isinstance(s.op, (ast.Add, ast.BitOr, ast.BitAnd, ast.Mult)) and not isinstance(s.value, (ast.List, ast.Tuple)):
                continue
            return f"line {s.lineno}: `{text(s)[:50]}`"
        if isinstance(s, ast.If):
            r = _commutative_body(fm, s.body, local) or _commutative_body(fm, s.orelse, local)
            if r:
                return r
            continue
        if isinstance(s, ast.For):
            r = _commutative_body(fm, s.body, local | {x.id for x in ast.walk(s.target) if isinstance(x, ast.Name)})
            if r:
                return r
            continue
        if isinstance(s, (ast.Pass, ast.Continue, ast.Assert)):
            continue
        if isinstance(s, ast.Break):
            # `break` after setting a constant flag: "exists" search -- result independent of order
            continue
        return f"line {s.lineno}: `{text(s).splitlines()[0][:50]}` makes the result depend on the iteration order"
    return None


def _membership_only(ck: Check, callee, pname: str) -> bool:
    f = callee
    for n in own_walk(f.node):
        if isinstance(n, ast.Name) and n.id == pname and isinstance(n.ctx, ast.Load):
            par = ck.prog.model(f).f.parents.get(n)
            if isinstance(par, ast.Compare) and n in par.comparators and all(isinstance(o, (ast.In, ast.NotIn)) for o in par.ops):
                continue
            if isinstance(par, ast.Call) and callee_name(par) in ("len", "set", "sorted", "frozenset"):
                continue
            return False
    return True


def n1(ck: Check) -> None:
    prog = ck.prog
    tainted_returns: dict[str, str] = {}
    pending: list[tuple[FuncModel, ast.AST, str, ast.AST]] = []
    for fm in prog.models():
        if fm.f.module.name.endswith("_pint_reachability"):
            continue  # optional pint back end, off by default (pint_minification=False); not part of default results
        for n in own_walk(fm.f.node):
            exp = None  # (iterated expr, kind of exposure, node)
            if isinstance(n, ast.For):
                exp = (n.iter, "for", n)
            elif isinstance(n, (ast.ListComp, ast.GeneratorExp, ast.DictComp, ast.SetComp)):
                exp = (n.generators[0].iter, "comp", n)
            elif isinstance(n, ast.Call) and callee_name(n) in ("list", "tuple", "combinations", "permutations", "enumerate",
                                                               "iter", "join", "product", "zip", "map", "islice", "chain") and n.args:
                if not isinstance(fm.f.parents.get(n), (ast.For, ast.comprehension)):
                    arg0 = n.args[0]
                    if callee_name(n) in ("zip", "chain"):
                        # pairing / concatenation: any set-typed argument exposes its order
                        for a_ in n.args:
                            try:
                                if set_kind(fm, a_, fm.cfgn(n)) is not None:
                                    arg0 = a_
                                    break
                            except AnalysisError:
                                pass
                    elif callee_name(n) == "map" and len(n.args) > 1:
                        arg0 = n.args[1]
                    exp = (arg0, "call:" + callee_name(n), n)
            elif isinstance(n, ast.Call) and isinstance(n.func, ast.Attribute) and n.func.attr == "pop" and not n.args:
                exp = (n.func.value, "pop", n)
            if exp is None:
                continue
            it, kind, node = exp
            try:
                at = fm.cfgn(node if not isinstance(node, ast.For) else node.iter)
            except AnalysisError:
                continue
            # unwrap order-preserving wrappers to find the set; sorted() sanitises
            base = it
            sanitized = False
            while isinstance(base, ast.Call) and callee_name(base) in ("list", "tuple", "enumerate", "copy", "reversed", "sorted", "combinations", "product", "zip") and base.args:
                if callee_name(base) == "sorted":
                    sanitized = True
                base = base.args[0]
            sk = set_kind(fm, base, at)
            if sk is None:
                continue
            key = f"{kind} over {text(it)[:60]}"
            stmt = fm.f.stmt_of(node) if not isinstance(node, ast.stmt) else node
            if sanitized:
                ck.ob("N1", fm, stmt, True, f"set iterated through sorted()", key=key)
                continue
            rk = (fm.f.key, key)
            if isinstance(node, ast.For):
                # a reviewed entry names the loop by its role, not by the spelling of its header
                from .c13 import _flag_form
                encl = [l for l in fm.cfg.enclosing_loops(fm.cfg.loop_header[node]) if isinstance(l, ast.While)]
                appends = [c_ for c_ in ast.walk(node) if isinstance(c_, ast.Call) and isinstance(c_.func, ast.Attribute)
                           and c_.func.attr in ("append", "extend", "insert")]
                if encl and _flag_form(fm, encl[0]) is not None and not appends:
                    rk = (fm.f.key, "scan loop of a flag-controlled fixpoint")
            if rk in N1_REVIEWED:
                ck.ob("N1", fm, stmt, True, "reviewed: " + N1_REVIEWED[rk], key=key)
                continue
            why = None
            if isinstance(node, ast.For):
                lv = {x.id for x in ast.walk(node.target) if isinstance(x, ast.Name)}
                why = _commutative_body(fm, node.body, lv)
                if why is None:
                    ck.ob("N1", fm, stmt, True, f"loop over a set ({sk} elements) with commutative body", key=key)
                    continue
                if sk == "int":
                    # not hash-seed dependent; canonical order is N2's business
                    ck.ob("N1", fm, stmt, True, "set of ints: order does not depend on the hash seed (canonical order: N2)", key=key)
                    continue
            elif isinstance(node, (ast.SetComp,)):
                ck.ob("N1", fm, stmt, True, "set comprehension: result has no order", key=key)
                continue
            elif isinstance(node, ast.GeneratorExp):
                par = fm.f.parents.get(node)
                if isinstance(par, ast.Call) and callee_name(par) in ("any", "all", "sum", "set", "frozenset", "sorted", "max", "min", "len"):
                    ck.ob("N1", fm, stmt, True, f"generator consumed by {callee_name(par)}()", key=key)
                    continue
                why = "generator over a set consumed in order"
            elif isinstance(node, ast.DictComp):
                # the insertion order of the dictionary is the order of the set: it matters as soon as the dictionary is
                # iterated (here or by whoever receives it)
                pass
            elif sk == "int":
                ck.ob("N1", fm, stmt, True, "set of ints: order does not depend on the hash seed", key=key)
                continue
            # a tainted sequence is produced: follow it
            pending.append((fm, node, key, stmt))
    # resolve tainted sequences
    for fm, node, key, stmt in pending:
        ok, why = _sequence_sanitised(ck, fm, node, 0)
        ck.ob("N1", fm, stmt, ok, why if ok else
              f"the iteration order of a set of strings (depends on PYTHONHASHSEED) reaches an observable result: {why}", key=key)
    # the canonicalising constructor
    iv = prog.repo.try_func("biobalm.control", "Intervention.__init__")
    if iv is None:
        raise AnalysisError("anchor vanished: Intervention.__init__")
    ifm = prog.model(iv)
    srt = [n for n in own_walk(iv.node) if isinstance(n, ast.Call) and callee_name(n) == "sorted"]
    nested = [n for n in srt if any(isinstance(c, ast.Call) and callee_name(c) == "sorted" and c is not n for c in ast.walk(n))]
    if not nested:
        # the same in two statements: `xs = [sorted(x.items()) for x in c]; xs = sorted(xs)` (also written xs.sort())
        import copy as _copy
        for n in srt:
            a0 = n.args[0] if n.args else None
            if isinstance(a0, ast.Name):
                try:
                    dv = ifm.single_def(a0.id, ifm.cfgn(n))
                except AnalysisError:
                    dv = None
                if dv and isinstance(dv[1], ast.ListComp) and len(dv[1].generators) == 1 and not dv[1].generators[0].ifs \
                        and any(isinstance(c, ast.Call) and callee_name(c) == "sorted" for c in ast.walk(dv[1])):
                    m = _copy.copy(n)
                    m.args = [dv[1]] + list(n.args[1:])
                    nested.append(m)
    def total(c_: ast.Call) -> bool:
        """sorted() by the elements themselves: a key that does not separate all elements leaves ties in arrival order"""
        k = next((kw.value for kw in c_.keywords if kw.arg == "key"), None)
        if k is None:
            return True
        if isinstance(k, ast.Lambda) and len(k.args.args) == 1:
            pn = k.args.args[0].arg
            b_ = k.body
            if isinstance(b_, ast.Name) and b_.id == pn:
                return True
            if isinstance(b_, ast.Tuple) and b_.elts and any(isinstance(x, ast.Name) and x.id == pn for x in b_.elts):
                return True
        return False

    inner_ok = any(total(c) for n in nested for c in ast.walk(n) if isinstance(c, ast.Call) and callee_name(c) == "sorted" and c is not n)
    okc = len(srt) >= 2 and bool(nested) and all(total(n) for n in nested) and inner_ok
    ck.ob("N1", ifm, iv.node, okc, "Intervention canonicalises its control: sorted list of sorted item lists" if okc else
          "Intervention.__init__ no longer sorts both the driver sets and the items of each set by the elements themselves "
          "(a sort key that does not tell all elements apart keeps ties in arrival order): the hash order of "
          "the driver pool becomes visible in `control`, in == and in printed interventions", key="Intervention canonical form")


def _sequence_sanitised(ck: Check, fm: FuncModel, node: ast.AST, depth: int) -> tuple[bool, str]:
    """The order-tainted value produced at `node` only reaches order-insensitive consumers."""
    prog = ck.prog
    if depth > 4:
        return False, "flow too deep"
    par = fm.f.parents.get(node)
    # used as the iterable of a for: the loop variable / what the body builds is tainted
    if isinstance(node, ast.For) or (isinstance(par, ast.For) and par.iter is node) or (
            isinstance(par, ast.Call) and isinstance(fm.f.parents.get(par), ast.For)):
        loop = node if isinstance(node, ast.For) else (par if isinstance(par, ast.For) else fm.f.parents.get(par))
        lv = {x.id for x in ast.walk(loop.target) if isinstance(x, ast.Name)}
        why = _commutative_body(fm, loop.body, lv)
        if why is None:
            return True, "consumed by a loop with commutative body"
        # sequences appended to in the body become tainted; follow them to the return
        tainted = set()
        for c in ast.walk(loop):
            if isinstance(c, ast.Call) and isinstance(c.func, ast.Attribute) and c.func.attr in ("append", "extend") \
                    and isinstance(c.func.value, ast.Name):
                tainted.add(c.func.value.id)
        if not tainted:
            return False, why
        return _names_sanitised(ck, fm, tainted, depth)
    if isinstance(par, ast.Call):
        nm = callee_name(par)
        if nm in ("sorted", "set", "frozenset", "len", "any", "all", "sum", "min", "max"):
            return True, f"consumed by {nm}()"
        tgt = prog.repo.resolve_call(fm.f, par)
        if tgt and not tgt.startswith("ext:"):
            callee = prog.repo.functions[tgt]
            ps = [p for p in callee.params() if p != "self"]
            idx = next((i for i, a in enumerate(par.args) if a is node), None)
            pname = ps[idx] if idx is not None and idx < len(ps) else next((k.arg for k in par.keywords if k.value is node), None)
            if pname and _membership_only(ck, callee, pname):
                return True, f"passed to {callee.qualname}({pname}=...), which only tests membership"
            return False, f"passed to {callee.qualname} as `{pname}`, which uses its order"
        return False, f"passed to `{text(par.func)}`"
    if isinstance(par, (ast.Assign, ast.AnnAssign)):
        tg = par.targets[0] if isinstance(par, ast.Assign) else par.target
        if isinstance(tg, ast.Name):
            return _names_sanitised(ck, fm, {tg.id}, depth)
    if isinstance(par, ast.Return):
        return _callers_sanitise(ck, fm, depth)
    return False, f"used in `{text(par)[:60]}`"


def _resorted(fm: FuncModel, n: ast.Name) -> bool:
    """every definition of the name that reaches this use is `sorted(...)` / a set: the order taint ended there"""
    try:
        at = fm.cfgn(n)
    except AnalysisError:
        return False
    vds = fm.value_defs(n.id, at)
    return bool(vds) and all(isinstance(v, ast.Call) and callee_name(v) in ("sorted", "set", "frozenset") and isinstance(v.func, ast.Name)
                             for _, v in vds)


def _names_sanitised(ck: Check, fm: FuncModel, names: set[str], depth: int) -> tuple[bool, str]:
    prog = ck.prog
    for n in own_walk(fm.f.node):
        if isinstance(n, ast.Name) and n.id in names and isinstance(n.ctx, ast.Load):
            par = fm.f.parents.get(n)
            if _resorted(fm, n):
                continue
            if isinstance(par, ast.Attribute) and par.attr in ("append", "extend", "add"):
                continue
            if isinstance(par, ast.Call) and isinstance(par.func, ast.Name) and callee_name(par) in (
                    "sorted", "set", "frozenset", "len", "any", "all", "max", "min", "sum") and n in par.args:
                continue
            if isinstance(par, ast.comprehension):
                comp = fm.f.parents.get(par)
                cp = fm.f.parents.get(comp)
                if isinstance(cp, ast.Call) and callee_name(cp) in ("any", "all", "set", "sorted", "sum", "max", "min", "frozenset", "len"):
                    continue
                if isinstance(comp, (ast.SetComp, ast.DictComp)):
                    continue
                if isinstance(comp, (ast.ListComp, ast.GeneratorExp)) and depth < 4:
                    # the sequence built from it inherits the order: follow that one
                    ok, why = _sequence_sanitised(ck, fm, comp, depth + 1)
                    if ok:
                        continue
                    return False, why
                return False, f"`{n.id}` iterated at line {n.lineno}"
            if isinstance(par, ast.Compare):
                continue
            if isinstance(par, ast.Return):
                ok, why = _callers_sanitise(ck, fm, depth + 1)
                if not ok:
                    return False, why
                continue
            if isinstance(par, ast.Call):
                tgt = prog.repo.resolve_call(fm.f, par)
                if tgt and not tgt.startswith("ext:"):
                    callee = prog.repo.functions[tgt]
                    ps = [p for p in callee.params() if p != "self"]
                    idx = next((i for i, a in enumerate(par.args) if a is n), None)
                    pname = ps[idx] if idx is not None and idx < len(ps) else next((k.arg for k in par.keywords if k.value is n), None)
                    if pname and _membership_only(ck, callee, pname):
                        continue
                if isinstance(par.func, ast.Attribute) and par.func.attr in ("append",):
                    # appended into another list: that list becomes tainted
                    if isinstance(par.func.value, ast.Name):
                        ok, why = _names_sanitised(ck, fm, {par.func.value.id}, depth + 1) if depth < 4 else (False, "flow too deep")
                        if not ok:
                            return False, why
                        continue
                return False, f"`{n.id}` passed to `{text(par.func)}` at line {n.lineno}"
            if isinstance(par, ast.For) and par.iter is n:
                why = _commutative_body(fm, par.body, {x.id for x in ast.walk(par.target) if isinstance(x, ast.Name)})
                if why:
                    return False, why
                continue
            return False, f"`{n.id}` used in `{text(par)[:50]}` at line {n.lineno}"
    return True, "sequence only reaches order-insensitive consumers"


def _callers_sanitise(ck: Check, fm: FuncModel, depth: int) -> tuple[bool, str]:
    """Every in-package caller feeds the returned (order-tainted) sequence into the canonicalising constructor,
    directly or through a list it returns itself."""
    prog = ck.prog
    if depth > 4:
        return False, "flow too deep"
    callers = []
    for g in prog.models():
        for c in own_walk(g.f.node):
            if isinstance(c, ast.Call) and prog.repo.resolve_call(g.f, c) == fm.f.key:
                callers.append((g, c))
    if not callers:
        return False, f"`{fm.f.qualname}` returns it to external callers only"
    for g, c in callers:
        par = g.f.parents.get(c)
        # appended / assigned to a local that is returned or passed to Intervention
        names = set()
        if isinstance(par, ast.Call) and isinstance(par.func, ast.Attribute) and par.func.attr == "append" \
                and isinstance(par.func.value, ast.Name):
            names.add(par.func.value.id)
        elif isinstance(par, (ast.Assign, ast.AnnAssign)):
            tg = par.targets[0] if isinstance(par, ast.Assign) else par.target
            if isinstance(tg, ast.Name):
                names.add(tg.id)
        else:
            return False, f"{g.f.qualname} uses the result of {fm.f.qualname} in `{text(par)[:40]}`"
        # a tainted value appended to another local list taints that list
        grew = True
        while grew:
            grew = False
            for n in own_walk(g.f.node):
                if isinstance(n, ast.Name) and n.id in names and isinstance(n.ctx, ast.Load):
                    p2 = g.f.parents.get(n)
                    if isinstance(p2, ast.Call) and isinstance(p2.func, ast.Attribute) and p2.func.attr in ("append", "extend") \
                            and n in p2.args and isinstance(p2.func.value, ast.Name) and p2.func.value.id not in names:
                        names.add(p2.func.value.id)
                        grew = True
        for n in own_walk(g.f.node):
            if isinstance(n, ast.Name) and n.id in names and isinstance(n.ctx, ast.Load):
                p2 = g.f.parents.get(n)
                if isinstance(p2, ast.Attribute):
                    continue
                if isinstance(p2, ast.Call) and isinstance(p2.func, ast.Attribute) and p2.func.attr in ("append", "extend") \
                        and n in p2.args and isinstance(p2.func.value, ast.Name) and p2.func.value.id in names:
                    continue
                if isinstance(p2, ast.Return):
                    ok, why = _callers_sanitise(ck, g, depth + 1)
                    if not ok:
                        return False, why
                    continue
                if isinstance(p2, ast.Call) and callee_name(p2) == "Intervention":
                    continue
                if isinstance(p2, ast.Call) and callee_name(p2) in ("len", "sorted", "set"):
                    continue
                return False, f"{g.f.qualname} exposes the order of `{n.id}` at line {n.lineno}"
    return True, "flows only into Intervention(...), which sorts it"


# ------------------------------------------------------------------------------------------ N2
DRIVERS = ("biobalm._sd_algorithms.expand_bfs:expand_bfs", "biobalm._sd_algorithms.expand_dfs:expand_dfs",
           "biobalm._sd_algorithms.expand_minimal_spaces:expand_minimal_spaces",
           "biobalm._sd_algorithms.expand_attractor_seeds:expand_attractor_seeds",
           "biobalm._sd_algorithms.expand_to_target:expand_to_target",
           "biobalm._sd_algorithms.expand_source_blocks:expand_source_blocks",
           "biobalm._sd_algorithms.expand_source_SCCs:expand_source_SCCs")


def n2(ck: Check) -> None:
    prog = ck.prog
    # (a) successor lists are sorted before traversal in the drivers
    for key in DRIVERS:
        if key not in prog.repo.functions:
            raise AnalysisError(f"anchor vanished: {key}")
        fm = prog.model(prog.repo.functions[key])
        for n in own_walk(fm.f.node):
            if isinstance(n, ast.Call) and callee_name(n) == "node_successors":
                # climb order-only wrappers
                top, srt = n, False
                par = fm.f.parents.get(top)
                while isinstance(par, ast.Call) and callee_name(par) in ("sorted", "list", "tuple", "reversed") and par.args \
                        and par.args[0] is top:
                    srt = srt or callee_name(par) == "sorted"
                    top, par = par, fm.f.parents.get(par)
                st = fm.f.stmt_of(n)
                holder = None
                if isinstance(st, (ast.Assign, ast.AnnAssign)) and st.value is top:
                    tg = st.targets[0] if isinstance(st, ast.Assign) else st.target
                    holder = tg.id if isinstance(tg, ast.Name) else None
                if srt:
                    ck.ob("N2", fm, st, True, "successor list sorted where it is obtained")
                elif holder is not None:
                    dn = fm.cfgn(st)
                    # the next definition of the holder on every path must be sorted(holder ...) before any other use
                    bad = _unsorted_use(fm, holder, dn)
                    ck.ob("N2", fm, st, bad is None, f"`{holder}` sorted before it is traversed" if bad is None else
                          f"successor list `{holder}` is used at line {bad} in the order the graph happens to store it: node "
                          f"visiting order (and the ids of nodes created later) depend on the history of the diagram")
                elif isinstance(par, ast.For) and par.iter is top:
                    ck.ob("N2", fm, st, False, "successor list traversed in the order the graph happens to store it: node "
                          "visiting order (and the ids of nodes created later) depend on the history of the diagram")
            if isinstance(n, ast.For):
                at = fm.cfgn(n.iter)
                base = n.iter
                srt = False
                while isinstance(base, ast.Call) and callee_name(base) in ("sorted", "list", "enumerate") and base.args:
                    srt = srt or callee_name(base) == "sorted"
                    base = base.args[0]
                sk = set_kind(fm, base, at)
                if sk is None:
                    continue
                lv = {x.id for x in ast.walk(n.target) if isinstance(x, ast.Name)}
                why = _commutative_body(fm, n.body, lv)
                if why is None:
                    continue
                ck.ob("N2", fm, n, srt, "level set traversed in sorted order" if srt else
                      f"a set of node ids is traversed unsorted and the body is order-sensitive ({why}): ids of nodes "
                      f"created in this loop depend on the set's internal order", key=f"for {text(n.target)} in {text(n.iter)[:50]}")
    # (b) single-node expansion: two enumeration sources -> canonical sort by the injective key
    fm = prog.fm(SD_MOD, "SuccessionDiagram._expand_one_node")
    loop = None
    for n in own_walk(fm.f.node):
        if isinstance(n, ast.For) and any(isinstance(c, ast.Call) and callee_name(c) == "_ensure_node" for c in ast.walk(n)):
            loop = n
    if loop is None:
        raise AnalysisError("anchor vanished: ensure loop")
    hn = fm.cfg.loop_header[loop]
    ok = False
    why = "the sub-space list is not sorted"
    if isinstance(loop.iter, ast.Name):
        defs = fm.value_defs(loop.iter.id, hn)
        ok = bool(defs)
        for d, v in defs:
            if not (isinstance(v, ast.Call) and callee_name(v) == "sorted"):
                ok = False
                why = (f"child sub-spaces reach node creation in solver order (line {d.lineno}): the two enumeration "
                       f"paths (percolated net / global net) may order them differently, so node ids depend on history")
                break
            keyf = next((k.value for k in v.keywords if k.arg == "key"), None)
            if keyf is None or "space_unique_key" not in text(keyf):
                ok = False
                why = "sub-spaces are sorted, but not by the injective space key (dicts do not define a total order)"
                break
            if any(k.arg == "reverse" for k in v.keywords):
                pass
    elif isinstance(loop.iter, ast.Call) and callee_name(loop.iter) == "sorted" and "space_unique_key" in text(loop.iter):
        ok = True
    ck.ob("N2", fm, loop, ok, "children created in the order of their space keys" if ok else why, key="ensure loop order")
    # (c) library helpers return sorted lists
    for mod, q in (("biobalm.petri_net_translation", "extract_variable_names"),
                   ("biobalm.petri_net_translation", "extract_source_variables"),
                   ("biobalm.interaction_graph_utils", "feedback_vertex_set"),
                   ("biobalm.interaction_graph_utils", "source_SCCs")):
        g = prog.fm(mod, q)
        rets = [r for r in own_walk(g.f.node) if isinstance(r, ast.Return) and r.value is not None]
        okr = bool(rets)
        for r in rets:
            v = r.value
            if isinstance(v, ast.Name):
                sd = g.single_def(v.id, g.cfgn(r))
                v = sd[1] if sd else v
            # a selection from a sorted list, in its order: [x for x in <call that returns a sorted list> if ...]
            if isinstance(v, ast.ListComp) and len(v.generators) == 1 and isinstance(v.generators[0].target, ast.Name) \
                    and isinstance(v.elt, ast.Name) and v.elt.id == v.generators[0].target.id:
                it_ = v.generators[0].iter
                if isinstance(it_, ast.Name):
                    sd2 = g.single_def(it_.id, g.cfgn(r))
                    it_ = sd2[1] if sd2 else it_
                tgt_ = prog.repo.resolve_call(g.f, it_) if isinstance(it_, ast.Call) else None
                if tgt_ and not tgt_.startswith("ext:"):
                    h_ = prog.repo.functions[tgt_]
                    rs_ = [r2 for r2 in own_walk(h_.node) if isinstance(r2, ast.Return) and r2.value is not None]
                    def _srt(e, hm=prog.model(h_)):
                        if isinstance(e, ast.Name):
                            sd3 = hm.single_def(e.id, hm.cfgn(e))
                            e = sd3[1] if sd3 else e
                        return isinstance(e, ast.Call) and callee_name(e) == "sorted"
                    if rs_ and all(_srt(r2.value) for r2 in rs_):
                        continue
            if not (isinstance(v, ast.Call) and callee_name(v) == "sorted"):
                okr = False
        ck.ob("N2", g, g.f.node, okr, f"{q} returns a sorted list" if okr else
              f"{q} no longer returns a sorted list: variable order (and everything enumerated along it) becomes "
              f"dependent on graph/hash order", key=q)


def _unsorted_use(fm: FuncModel, v: str, dn) -> int | None:
    """Line of a use of list v (defined at dn) that is reached before `v = sorted(v, ...)`; None if none."""
    cfg = fm.cfg
    sorts = set()
    others = set()
    for n in cfg.nodes:
        if n is dn or n.id not in cfg.g:
            continue
        if v in cfg.defs_of(n):
            a = n.ast
            if n.kind == "stmt" and isinstance(a, ast.Assign) and isinstance(a.value, ast.Call) and callee_name(a.value) == "sorted" \
                    and a.value.args and text(a.value.args[0]) == v:
                sorts.add(n.id)
            else:
                others.add(n.id)
    from .common import reach_stop
    reach = reach_stop(fm, dn, sorts | others, set())
    for i in sorted(reach):
        n = cfg.nodes[i]
        if n.kind not in ("stmt", "test", "for") or n.ast is None or isinstance(n.ast, (ast.FunctionDef, ast.ClassDef)):
            continue
        root = n.ast.iter if n.kind == "for" else n.ast
        for x in ast.walk(root):
            if isinstance(x, ast.Name) and x.id == v and isinstance(x.ctx, ast.Load):
                par = fm.f.parents.get(x)
                if isinstance(par, ast.Call) and callee_name(par) in ("len", "set", "sorted"):
                    continue
                if isinstance(par, ast.Compare):
                    continue
                return x.lineno
    return None


# ------------------------------------------------------------------------------------------ N3
NONDET_MODULES = {"time", "uuid", "secrets", "datetime"}


def n3(ck: Check) -> None:
    prog = ck.prog
    for m in prog.repo.modules.values():
        for al, tgt in m.imports.items():
            if tgt.split(".")[0] in NONDET_MODULES:
                f0 = next((f for f in prog.repo.funcs() if f.module is m), None)
                ck.ob("N3", f0, None, False, f"module {m.name} imports `{tgt}`", key=f"import {tgt} in {m.name}")
    seeded_funcs: dict[str, str] = {}
    for fm in prog.models():
        for n in own_walk(fm.f.node):
            if isinstance(n, ast.Call):
                d = dotted(n.func) or ""
                nm = callee_name(n)
                if d in ("random.Random",) or (nm == "Random" and "random" in fm.f.module.imports.get("Random", "random")):
                    if not n.args:
                        ck.ob("N3", fm, fm.f.stmt_of(n), False, "random.Random() without a seed: seeded from the OS")
                    else:
                        a = n.args[0]
                        if isinstance(a, ast.Constant):
                            ck.ob("N3", fm, fm.f.stmt_of(n), True, "random generator with a constant seed")
                        elif isinstance(a, ast.Name) and a.id in fm.f.params():
                            seeded_funcs[fm.f.key] = a.id
                            ck.ob("N3", fm, fm.f.stmt_of(n), True, f"random generator seeded by parameter `{a.id}` (call sites checked)")
                        else:
                            ck.ob("N3", fm, fm.f.stmt_of(n), False, f"random generator seeded by `{text(a)}`")
                elif d.startswith("random.") and d != "random.Random":
                    ck.ob("N3", fm, fm.f.stmt_of(n), False, f"`{d}` uses the process-wide random generator")
                elif d in ("os.urandom", "os.getpid") or nm in ("urandom", "getrandbits") and d.startswith(("os.", "secrets.")):
                    ck.ob("N3", fm, fm.f.stmt_of(n), False, f"`{d}` is not reproducible")
                elif isinstance(n.func, ast.Name) and n.func.id in ("id", "hash") and n.func.id not in fm.f.params():
                    ck.ob("N3", fm, fm.f.stmt_of(n), False, f"`{n.func.id}()` of an object depends on the process / hash seed")
    for fm in prog.models():
        for n in own_walk(fm.f.node):
            if isinstance(n, ast.Call):
                tgt = prog.repo.resolve_call(fm.f, n)
                if tgt in seeded_funcs:
                    callee = prog.repo.functions[tgt]
                    p = seeded_funcs[tgt]
                    ps = callee.params()
                    a = call_arg(n, ps.index(p), p)
                    ok = isinstance(a, ast.Constant) and isinstance(a.value, int)
                    ck.ob("N3", fm, fm.f.stmt_of(n), ok, f"seed passed as the constant {a.value}" if ok else
                          f"the random seed passed to {callee.qualname} is `{text(a) if a is not None else 'missing'}`, not a constant")


# ------------------------------------------------------------------------------------------ N4
REGISTERED_MODULE_WRITES = {
    ("biobalm._sd_attractors.attractor_symbolic:symbolic_attractor_fallback", "biodivine_aeon.LOG_LEVEL"):
        "AEON log level raised for debugging and restored",
}


def n4(ck: Check) -> None:
    prog = ck.prog
    module_names: dict[str, set[str]] = {}
    module_mutables: dict[str, dict[str, str]] = {}
    for m in prog.repo.modules.values():
        names = set()
        for s in m.tree.body:
            if isinstance(s, (ast.Assign, ast.AnnAssign)):
                for t in (s.targets if isinstance(s, ast.Assign) else [s.target]):
                    if isinstance(t, ast.Name):
                        names.add(t.id)
        module_names[m.name] = names
        muts = {}
        for s_ in m.tree.body:
            if isinstance(s_, (ast.Assign, ast.AnnAssign)) and s_.value is not None:
                v_ = s_.value
                kind = "dict" if isinstance(v_, (ast.Dict, ast.DictComp)) else "list" if isinstance(v_, (ast.List, ast.ListComp)) else \
                    "set" if isinstance(v_, (ast.Set, ast.SetComp)) else \
                    callee_name(v_) if isinstance(v_, ast.Call) and callee_name(v_) in ("dict", "list", "set", "defaultdict", "OrderedDict", "deque") else None
                if kind:
                    for t in (s_.targets if isinstance(s_, ast.Assign) else [s_.target]):
                        if isinstance(t, ast.Name):
                            muts[t.id] = kind
        module_mutables[m.name] = muts
    # state kept in an attribute of a function object (`helper.last = (net, table)`) lives as long as the module
    for m in prog.repo.modules.values():
        fnames = {s_.name for s_ in m.tree.body if isinstance(s_, ast.FunctionDef)}
        for fm_ in prog.models():
            if fm_.f.module is not m:
                continue
            for a_ in own_walk(fm_.f.node):
                tg_ = None
                if isinstance(a_, (ast.Assign, ast.AugAssign)):
                    for t_ in (a_.targets if isinstance(a_, ast.Assign) else [a_.target]):
                        if isinstance(t_, ast.Attribute) and isinstance(t_.value, ast.Name) and t_.value.id in fnames \
                                and t_.value.id not in fm_.f.params() \
                                and not any(isinstance(y_, ast.Name) and y_.id == t_.value.id and isinstance(y_.ctx, ast.Store)
                                            for y_ in own_walk(fm_.f.node)):
                            tg_ = t_
                elif isinstance(a_, ast.Call) and callee_name(a_) == "setattr" and a_.args and isinstance(a_.args[0], ast.Name) \
                        and a_.args[0].id in fnames:
                    tg_ = a_.args[0]
                if tg_ is not None:
                    ck.ob("N4", fm_, fm_.f.stmt_of(a_), False,
                          f"`{text(tg_)[:50]}` keeps state in an attribute of a function object: it survives between calls and "
                          f"diagrams, so an answer can depend on what the process did before (e.g. a table computed for a "
                          f"network object that was edited since)", key=f"function attribute in {fm_.f.name}")
    class_mutables: dict[str, dict[str, str]] = {}
    for m in prog.repo.modules.values():
        for c_ in ast.walk(m.tree):
            if isinstance(c_, ast.ClassDef):
                for s_ in c_.body:
                    if isinstance(s_, (ast.Assign, ast.AnnAssign)) and s_.value is not None:
                        v_ = s_.value
                        kind = "dict" if isinstance(v_, (ast.Dict, ast.DictComp)) else "list" if isinstance(v_, (ast.List, ast.ListComp)) else \
                            "set" if isinstance(v_, (ast.Set, ast.SetComp)) else \
                            callee_name(v_) if isinstance(v_, ast.Call) and callee_name(v_) in ("dict", "list", "set", "defaultdict", "OrderedDict", "deque") else None
                        if kind:
                            for t in (s_.targets if isinstance(s_, ast.Assign) else [s_.target]):
                                if isinstance(t, ast.Name) and t.id != "__slots__":
                                    class_mutables.setdefault(c_.name, {})[t.id] = kind
    for fm in prog.models():
        f = fm.f
        for dec in f.node.decorator_list:
            dn = (dotted(dec.func if isinstance(dec, ast.Call) else dec) or "").split(".")[-1]
            if dn in ("cache", "lru_cache", "cached_property", "memoize", "memoized"):
                ck.ob("N4", fm, f.node, False, f"`{f.name}` is memoised (`@{dn}`): the table outlives every call and is keyed by object "
                                               f"identity/hash, not by the contents of mutable arguments", key=f"memoised {f.name}")
        for n in own_walk(f.node):
            if isinstance(n, (ast.Global, ast.Nonlocal)):
                ck.ob("N4", fm, n, False, f"`{text(n)}`: state shared between calls / diagrams")
            # writes to attributes of imported modules
            if isinstance(n, (ast.Assign, ast.AugAssign)):
                for t in (n.targets if isinstance(n, ast.Assign) else [n.target]):
                    if isinstance(t, ast.Attribute):
                        d = dotted(t) or ""
                        head = d.split(".")[0]
                        if head in f.module.imports and head not in f.params() and head != "self":
                            k = (f.key, d)
                            if k in REGISTERED_MODULE_WRITES:
                                continue
                            ck.ob("N4", fm, n, False, f"module attribute `{d}` is written: process-wide state")
                    if isinstance(t, ast.Subscript):
                        b = t.value
                        while isinstance(b, (ast.Subscript, ast.Attribute)):
                            b = b.value
                        if isinstance(b, ast.Name) and b.id in module_names.get(f.module.name, ()) and b.id not in f.params():
                            locals_ = {x.id for x in own_walk(f.node) if isinstance(x, ast.Name) and isinstance(x.ctx, ast.Store)}
                            if b.id not in locals_:
                                ck.ob("N4", fm, n, False, f"module-level object `{b.id}` is written (`{text(t)[:40]}`): state "
                                                          f"shared by all diagrams and calls in the process")
                        d = dotted(t.value) or ""
                        if d.endswith("config") or d == "config":
                            ck.ob("N4", fm, n, False, f"configuration is modified in place (`{text(t)}`): a config object "
                                                      f"may be shared by several diagrams")
            # mutation of module-level mutable objects
            if isinstance(n, ast.Call) and isinstance(n.func, ast.Attribute) and isinstance(n.func.value, ast.Name):
                nm = n.func.value.id
                if nm in module_names.get(f.module.name, ()) and nm not in f.params() and n.func.attr in (
                        "append", "add", "update", "extend", "pop", "clear", "remove", "setdefault", "insert"):
                    locals_ = {x.id for x in own_walk(f.node) if isinstance(x, ast.Name) and isinstance(x.ctx, ast.Store)}
                    if nm not in locals_:
                        ck.ob("N4", fm, fm.f.stmt_of(n), False, f"module-level object `{nm}` is mutated")
        # a module-level mutable object must not be handed out (stored in an object, returned, passed on) without a
        # copy: whoever receives it can change it for every diagram of the process
        mm = dict(module_mutables.get(f.module.name, {}))
        # ... also one that lives in another module of the package and is imported by name (`from biobalm.types import DEFAULTS`)
        for nm_, tgt_ in f.module.imports.items():
            mod_, _, orig_ = tgt_.rpartition(".")
            if mod_ in module_mutables and orig_ in module_mutables[mod_]:
                mm.setdefault(nm_, module_mutables[mod_][orig_])
        if mm:
            locals_ = {x.id for x in own_walk(f.node) if isinstance(x, ast.Name) and isinstance(x.ctx, ast.Store)} | set(f.params())
            for n in own_walk(f.node):
                if isinstance(n, ast.Name) and isinstance(n.ctx, ast.Load) and n.id in mm and n.id not in locals_:
                    par = f.parents.get(n)
                    leak = None
                    if isinstance(par, (ast.Assign, ast.AnnAssign)) and par.value is n:
                        leak = "is aliased by an assignment"
                    elif isinstance(par, ast.Return):
                        leak = "is returned"
                    elif isinstance(par, ast.IfExp) and (par.body is n or par.orelse is n):
                        leak = "is handed on by a conditional expression"
                    elif isinstance(par, ast.BoolOp):
                        leak = "is handed on by `or`/`and`"
                    elif isinstance(par, ast.Call) and n in par.args and callee_name(par) not in (
                            "copy", "deepcopy", "dict", "list", "set", "tuple", "frozenset", "sorted", "len", "isinstance", "print",
                            "any", "all", "sum", "min", "max", "enumerate", "zip", "iter", "repr", "str"):
                        leak = f"is passed to `{text(par.func)[:30]}`"
                    elif isinstance(par, ast.keyword):
                        leak = "is passed as a keyword argument"
                    elif isinstance(par, (ast.List, ast.Tuple, ast.Set, ast.Dict)):
                        leak = "is stored inside another object"
                    if leak:
                        ck.ob("N4", fm, f.stmt_of(n), False,
                              f"the module-level {mm[n.id]} `{n.id}` {leak} without a copy: every diagram that receives it shares one "
                              f"object, so changing a setting of one diagram (`sd.config[...] = ...`) changes all the others, "
                              f"earlier and later ones", key=f"shared module object {n.id} in {f.name}")
        # the same for mutable objects kept as class attributes (one object per class = per process)
        for cname, cm in class_mutables.items():
            for n in own_walk(f.node):
                if isinstance(n, ast.Attribute) and isinstance(n.ctx, ast.Load) and n.attr in cm and isinstance(n.value, ast.Name) \
                        and (n.value.id == cname or (f.cls == cname and n.value.id in ("self", "cls"))):
                    par = f.parents.get(n)
                    leak = None
                    if isinstance(par, (ast.Assign, ast.AnnAssign)) and par.value is n:
                        leak = "is aliased by an assignment"
                    elif isinstance(par, ast.Return):
                        leak = "is returned"
                    elif isinstance(par, ast.IfExp) and (par.body is n or par.orelse is n):
                        leak = "is handed on by a conditional expression"
                    elif isinstance(par, ast.BoolOp):
                        leak = "is handed on by `or`/`and`"
                    elif isinstance(par, ast.Call) and n in par.args and callee_name(par) not in (
                            "copy", "deepcopy", "dict", "list", "set", "tuple", "frozenset", "sorted", "len", "isinstance", "print",
                            "any", "all", "sum", "min", "max", "enumerate", "zip", "iter", "repr", "str"):
                        leak = f"is passed to `{text(par.func)[:30]}`"
                    elif isinstance(par, ast.keyword):
                        leak = "is passed as a keyword argument"
                    elif isinstance(par, (ast.List, ast.Tuple, ast.Set, ast.Dict)):
                        leak = "is stored inside another object"
                    elif isinstance(par, ast.Attribute) and isinstance(f.parents.get(par), ast.Call) and f.parents[par].func is par \
                            and par.attr in ("append", "add", "update", "extend", "pop", "clear", "remove", "setdefault", "insert"):
                        leak = f"is modified (`.{par.attr}`)"
                    elif isinstance(par, ast.Subscript) and par.value is n and isinstance(par.ctx, (ast.Store, ast.Del)):
                        leak = "is written into"
                    if leak:
                        ck.ob("N4", fm, f.stmt_of(n), False,
                              f"the {cm[n.attr]} `{cname}.{n.attr}` (one object for the whole class) {leak} without a copy: every "
                              f"diagram that receives it shares it, so changing it for one diagram changes all the others, "
                              f"earlier and later ones", key=f"shared class object {cname}.{n.attr} in {f.name}")
        # a mutable local that a returned inner function keeps writing to lives as long as that function: a memo table
        # or a counter behind a decorator is state shared by all later calls
        inner_defs = [x for x in own_walk(f.node) if isinstance(x, ast.FunctionDef) and x is not f.node]
        if inner_defs:
            muts_local = {}
            for x in own_walk(f.node):
                if isinstance(x, (ast.Assign, ast.AnnAssign)) and x.value is not None:
                    v_ = x.value
                    kind = "dict" if isinstance(v_, (ast.Dict, ast.DictComp)) else "list" if isinstance(v_, (ast.List, ast.ListComp)) else \
                        "set" if isinstance(v_, (ast.Set, ast.SetComp)) else \
                        callee_name(v_) if isinstance(v_, ast.Call) and callee_name(v_) in ("dict", "list", "set", "defaultdict", "OrderedDict", "deque") else None
                    if kind:
                        for t in (x.targets if isinstance(x, ast.Assign) else [x.target]):
                            if isinstance(t, ast.Name):
                                muts_local[t.id] = kind
            returned = {r_.value.id for r_ in own_walk(f.node) if isinstance(r_, ast.Return) and isinstance(r_.value, ast.Name)}
            for g_ in inner_defs:
                if g_.name not in returned:
                    continue
                g_locals = {a_.arg for a_ in g_.args.posonlyargs + g_.args.args + g_.args.kwonlyargs} | {
                    y.id for y in ast.walk(g_) if isinstance(y, ast.Name) and isinstance(y.ctx, ast.Store)}
                for y in ast.walk(g_):
                    nm_ = None
                    if isinstance(y, ast.Call) and isinstance(y.func, ast.Attribute) and isinstance(y.func.value, ast.Name) and y.func.attr in (
                            "append", "add", "update", "extend", "pop", "clear", "remove", "setdefault", "insert", "popitem", "move_to_end"):
                        nm_ = y.func.value.id
                    elif isinstance(y, ast.Subscript) and isinstance(y.ctx, (ast.Store, ast.Del)) and isinstance(y.value, ast.Name):
                        nm_ = y.value.id
                    if nm_ and nm_ in muts_local and nm_ not in g_locals:
                        ck.ob("N4", fm, g_, False,
                              f"`{g_.name}`, which `{f.name}` returns, keeps writing to the {muts_local[nm_]} `{nm_}` of the enclosing "
                              f"call: the object outlives the call (memo table / history behind a decorator), so a result can depend on "
                              f"earlier calls in the process -- and on objects that were changed since", key=f"closure state {nm_} in {f.name}")
                        break
        # mutable default arguments
        for p, d in f.param_defaults().items():
            if isinstance(d, (ast.List, ast.Dict, ast.Set, ast.ListComp, ast.DictComp, ast.SetComp)) or isinstance(d, ast.Call):
                bad = _default_misuse(ck, fm, p, 0, any_method=isinstance(d, ast.Call) and callee_name(d) not in ("list", "dict", "set", "tuple", "frozenset"))
                ck.ob("N4", fm, f.node, bad is None,
                      f"mutable default of `{p}` is only read" if bad is None else
                      f"the mutable default argument `{p}` {bad}: one object is shared by all calls, so a result would "
                      f"depend on earlier calls in the process", key=f"default {p}")
    # the registered module write is restored on every normal path
    for (fk, attr), why in REGISTERED_MODULE_WRITES.items():
        if fk not in prog.repo.functions:
            continue
        fm = prog.model(prog.repo.functions[fk])
        saves = [n for n in fm.cfg.nodes if n.kind == "stmt" and isinstance(n.ast, ast.Assign) and text(n.ast.value) == attr]
        writes = [n for n in fm.cfg.nodes if n.kind == "stmt" and isinstance(n.ast, ast.Assign) and text(n.ast.targets[0]) == attr]
        if not writes:
            continue
        old = text(saves[0].ast.targets[0]) if saves else None
        restores = [w for w in writes if old and text(w.ast.value) == old]
        sets = [w for w in writes if w not in restores]
        from .common import escapes
        probs = []
        if not saves or not restores:
            probs.append("the previous value is not saved/restored")
        else:
            def infeasible_sides(w):
                """the restore may sit under the same unchanged guard as the write (`if debug: set` ... `if debug: restore`):
                the other side of that later test cannot be taken on a path that comes from the write"""
                out = []
                fw = {(text(t_), p_) for t_, p_, _b in fm.facts(w)}
                for r_ in restores:
                    for t_, p_, b_ in fm.facts(r_):
                        names = {y.id for y in ast.walk(t_) if isinstance(y, ast.Name)}
                        stable = all(len([z for z in own_walk(fm.f.node) if isinstance(z, ast.Name) and z.id == nm and isinstance(z.ctx, ast.Store)]) <= 1
                                     for nm in names) and not any(isinstance(y, ast.Call) for y in ast.walk(t_))
                        if (text(t_), p_) in fw and stable:
                            tn_ = next(iter(fm.cfg.g.predecessors(b_.id)))
                            out += [fm.cfg.nodes[s_] for s_ in fm.cfg.g.successors(tn_) if s_ != b_.id]
                return out
            for w in sets:
                if escapes(fm, w, restores + infeasible_sides(w), None, need_pre=False):
                    probs.append(f"line {w.lineno}: a path returns without restoring {attr}")
            if not all(fm.cfg.dominates(saves[0], w) for w in sets):
                probs.append("the value is overwritten before it is saved")
        ck.ob("N4", fm, writes[0].ast, not probs, f"{attr}: {why}" if not probs else "; ".join(probs), key=f"restore {attr}")
    # sub-diagrams get their own copy of the config
    cs = prog.fm(SD_MOD, "SuccessionDiagram.component_subdiagram")
    ctor = [n for n in own_walk(cs.f.node) if isinstance(n, ast.Call) and callee_name(n) == "SuccessionDiagram"]
    okc = bool(ctor)
    for c in ctor:
        a = c.args[1] if len(c.args) > 1 else next((k.value for k in c.keywords if k.arg == "config"), None)
        src = a
        if isinstance(a, ast.Name):
            sd = cs.single_def(a.id, cs.cfgn(c))
            src = sd[1] if sd else a
        if not (isinstance(src, ast.Call) and callee_name(src) in ("copy", "deepcopy", "dict") and "self.config" in text(src)):
            okc = False
    ck.ob("N4", cs, cs.f.node, okc, "sub-diagrams receive a copy of the configuration" if okc else
          "a sub-diagram shares the configuration object of its parent diagram", key="config copy")


READERS = {"items", "keys", "values", "get", "copy", "index", "count", "union", "intersection", "difference", "issubset"}


def _default_misuse(ck: Check, fm: FuncModel, p: str, depth: int, any_method: bool = False) -> str | None:
    f = fm.f
    for n in own_walk(f.node):
        if isinstance(n, ast.Name) and n.id == p:
            if isinstance(n.ctx, ast.Store):
                continue
            par = f.parents.get(n)
            if isinstance(par, ast.Attribute) and par.attr in ("append", "add", "update", "extend", "pop", "clear", "remove",
                                                               "setdefault", "insert", "sort", "popitem"):
                return f"is mutated (`.{par.attr}` at line {n.lineno})"
            if any_method and isinstance(par, ast.Attribute) and isinstance(f.parents.get(par), ast.Call) and par.attr not in READERS:
                return f"is a shared object whose state is advanced by `.{par.attr}()` (line {n.lineno})"
            if isinstance(par, ast.Subscript) and isinstance(par.ctx, (ast.Store, ast.Del)) and par.value is n:
                return f"is mutated (item assignment at line {n.lineno})"
            if isinstance(par, ast.Return):
                return f"is returned (line {n.lineno}) and can be mutated by the caller"
            if isinstance(par, (ast.Assign, ast.AnnAssign)) and par.value is n:
                tg = par.targets[0] if isinstance(par, ast.Assign) else par.target
                if isinstance(tg, ast.Attribute):
                    return f"is stored in `{text(tg)}` (line {n.lineno})"
            if isinstance(par, ast.AugAssign) and par.target is n:
                return f"is extended in place (line {n.lineno})"
            if (isinstance(par, ast.Call) and n in par.args) or isinstance(par, ast.keyword):
                call = par if isinstance(par, ast.Call) else f.parents.get(par)
                tgt = ck.prog.repo.resolve_call(f, call)
                if tgt and not tgt.startswith("ext:") and depth < 3:
                    callee = ck.prog.repo.functions[tgt]
                    ps = [q for q in callee.params() if q != "self"]
                    if isinstance(par, ast.keyword):
                        q = par.arg
                    else:
                        i = par.args.index(n)
                        q = ps[i] if i < len(ps) else None
                    if q:
                        sub = _default_misuse(ck, ck.prog.model(callee), q, depth + 1)
                        if sub:
                            return f"is passed to {callee.qualname}, where it {sub}"
    return None
