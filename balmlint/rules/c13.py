"""C13 -- every operation terminates: every loop and recursion cycle has a structural ranking witness."""

from __future__ import annotations

import ast

import networkx as nx

from .. import logic
from ..program import FuncModel, call_arg
from ..report import Check
from ..repo import AnalysisError, dotted, own_walk, text
from .common import (callee_name, enumerate_paths, expanded_assertions, is_false, is_none, is_true, paths_imply,
                     reach_stop, _expanded_polarity)

EXPLANATION = (
    "Every `for`, every `while` and every cycle of the call graph of the package must match a termination-witness "
    "recogniser, otherwise it is reported ('no termination witness'). W0 bounded for (finite iterable, not grown in "
    "the body; no itertools.count/cycle). A shrinking container (every path to the back edge pops the tested "
    "container, nothing pushes). LEVEL worklist (the tested level is replaced by the next level, which is reset; every "
    "element pushed is justified by a seen-set test+insertion, by an expanded-guard with an expansion on the same "
    "iteration, or by descent: it is a successor / new child / attached descendant of the current node). STACK "
    "worklist (each iteration pops a frame; a frame is re-pushed only after its successor list was popped; a fresh "
    "frame is pushed only for an element inserted into the seen set and shown not to be in it, by enumeration of the "
    "paths from the frame pop). W3 flag-controlled fixpoint: after deleting the progress statements (set growth by a "
    "non-empty var_post_out/var_pre_out image, removal from a never-grown worklist of an element drawn from it, "
    "replacement under a strict length decrease, one-shot latch) no path start-of-body -> flag-clearing statement -> "
    "back edge remains. W4 geometric budget, W5 retry with a strictly growing key. Recursion: on a strict "
    "sub-problem (>= 2 source SCC sub-networks; cofactors of a support variable; strict depth increase)."
)
ASSUMPTIONS = [
    "the node set of a diagram is finite and edges lead to strict subspaces (C02/C04)",
    "external calls (clingo, AEON, networkx) return; a minification filter never returns more states than it was given",
    "var_post_out / var_pre_out(v, X) return states outside X (AEON documentation)",
]

GROW = {"append", "extend", "insert", "add", "update", "appendleft", "push"}
SHRINK = {"pop", "remove", "discard", "popleft", "popitem", "clear"}
INFINITE_ITERS = {"count", "cycle", "repeat"}


def run(ck: Check) -> None:
    n_for = n_while = 0
    for fm in ck.prog.models():
        for n in own_walk(fm.f.node):
            if isinstance(n, ast.For):
                n_for += 1
                w0(ck, fm, n)
            elif isinstance(n, ast.While):
                n_while += 1
                while_loop(ck, fm, n)
    recursion(ck)
    ck.note(f"{n_for} for statements, {n_while} while loops")
    ck.floor("W0", 120)
    ck.floor("WHILE", 18)
    ck.floor("REC", 1)       # recursion may legitimately be replaced by explicit stacks; at least one cycle must still be seen


# ------------------------------------------------------------------------------------------ helpers
def _loop_ids(fm: FuncModel, loop) -> set[int]:
    return fm.cfg.loop_nodes[loop]


def _nodes_in(fm: FuncModel, loop):
    return [fm.cfg.nodes[i] for i in sorted(_loop_ids(fm, loop)) if i in fm.cfg.g]


def _tbranch(fm: FuncModel, loop):
    hdr = fm.cfg.loop_header[loop]
    return next(fm.cfg.nodes[s] for s in fm.cfg.g.successors(hdr.id)
                if fm.cfg.nodes[s].kind == "branch" and fm.cfg.nodes[s].pol)


def _calls_on(node, name: str, methods: set[str]):
    """method calls name.<m>(...) inside CFG node's AST"""
    if node.ast is None or node.kind not in ("stmt", "test", "for"):
        return []
    root = node.ast.iter if node.kind == "for" else node.ast
    if node.kind == "stmt" and isinstance(root, (ast.FunctionDef, ast.ClassDef)):
        return []
    out = []
    for c in ast.walk(root):
        if isinstance(c, ast.Call) and isinstance(c.func, ast.Attribute) and c.func.attr in methods \
                and isinstance(c.func.value, ast.Name) and c.func.value.id == name:
            out.append(c)
    return out


def _assigns(fm: FuncModel, loop, name: str):
    out = []
    for n in _nodes_in(fm, loop):
        if n.kind == "stmt" and isinstance(n.ast, (ast.Assign, ast.AugAssign, ast.AnnAssign)):
            tgs = n.ast.targets if isinstance(n.ast, ast.Assign) else [n.ast.target]
            for t in tgs:
                for x in ast.walk(t):
                    if isinstance(x, ast.Name) and x.id == name and isinstance(x.ctx, ast.Store):
                        out.append(n)
        elif n.kind == "for" and any(isinstance(x, ast.Name) and x.id == name for x in ast.walk(n.ast.target)):
            out.append(n)
    return out


def _nonempty_container(test: ast.AST) -> str | None:
    """X if the test implies len(X) > 0 (conjunct `len(X) > 0`, `len(X) != 0`, or truthiness of X)."""
    parts = test.values if isinstance(test, ast.BoolOp) and isinstance(test.op, ast.And) else [test]
    for c in parts:      # an explicit length test first: a bare name next to it is a flag (`while ok and len(level) > 0`)
        if isinstance(c, ast.Compare) and len(c.ops) == 1 and isinstance(c.left, ast.Call) and callee_name(c.left) == "len" \
                and isinstance(c.left.args[0], ast.Name) and isinstance(c.comparators[0], ast.Constant):
            v = c.comparators[0].value
            if (isinstance(c.ops[0], ast.Gt) and v == 0) or (isinstance(c.ops[0], ast.NotEq) and v == 0) or \
                    (isinstance(c.ops[0], ast.GtE) and v == 1):
                return c.left.args[0].id
    for c in parts:
        if isinstance(c, ast.Name):
            return c.id
    return None


def _within(fm: FuncModel, loop, src, cuts: set[int]) -> set[int]:
    """Nodes of the loop reachable from src (>= 1 edge) inside the loop body without passing `cuts`; the loop
    header is reported when reached (= next iteration) but not traversed."""
    ids = _loop_ids(fm, loop)
    hdr = fm.cfg.loop_header[loop].id
    g = fm.cfg.g
    seen: set[int] = set()
    todo = list(g.successors(src.id))
    while todo:
        i = todo.pop()
        if i in seen or i in cuts or (i not in ids and i != hdr):
            continue
        seen.add(i)
        if i == hdr:
            continue
        todo.extend(g.successors(i))
    return seen


def _is_debug_if(n) -> bool:
    return n.kind == "branch" and n.pol and n.test is not None and "debug" in text(n.test)


# ------------------------------------------------------------------------------------------ W0
def w0(ck: Check, fm: FuncModel, loop: ast.For) -> None:
    it = loop.iter
    probs = []
    for c in ast.walk(it):
        if isinstance(c, ast.Call):
            nm = callee_name(c)
            d = dotted(c.func) or nm
            if nm in INFINITE_ITERS and (d.startswith(("it.", "itertools.")) or nm in fm.f.module.imports):
                if not (nm == "repeat" and len(c.args) + len(c.keywords) >= 2):
                    probs.append(f"`{text(c)[:40]}` is an unbounded iterator")
            if nm == "iter" and len(c.args) == 2:
                probs.append("iter(callable, sentinel) is not bounded")
    snapshot = isinstance(it, ast.Call) and callee_name(it) in ("list", "tuple", "sorted", "copy", "set", "frozenset",
                                                                 "reversed", "enumerate", "zip", "range")
    if isinstance(it, ast.Subscript) and isinstance(it.slice, ast.Slice):
        snapshot = True         # a slice is a new list
    if not snapshot or (isinstance(it, ast.Call) and callee_name(it) in ("enumerate", "zip", "reversed")):
        bases = {x.id for x in ast.walk(it) if isinstance(x, ast.Name)}
        for n in _nodes_in(fm, loop):
            for b in bases:
                if _calls_on(n, b, GROW):
                    probs.append(f"line {n.lineno}: the iterated container `{b}` grows inside the loop")
                if n.kind == "stmt" and isinstance(n.ast, ast.AugAssign) and isinstance(n.ast.target, ast.Name) \
                        and n.ast.target.id == b and isinstance(it, ast.Name):
                    probs.append(f"line {n.lineno}: the iterated container `{b}` is extended inside the loop")
    ck.ob("W0", fm, loop, not probs, "; ".join(probs) if probs else "bounded for: finite iterable, not grown in the body",
          key=f"for {text(loop.target)} in {text(it)[:70]}")


# ------------------------------------------------------------------------------------------ while loops
def while_loop(ck: Check, fm: FuncModel, loop: ast.While) -> None:
    attempts: list[tuple[str, list[str]]] = []
    for name, rec in (("shrinking container", rec_shrink), ("level worklist", rec_level), ("stack worklist", rec_stack),
                      ("queue worklist", rec_queue), ("index chasing a list", rec_chase), ("counter", rec_counter),
                      ("flag-controlled fixpoint", rec_flag), ("geometric budget", rec_geom), ("retry with growing key", rec_retry)):
        res = rec(ck, fm, loop)
        if res is None:
            continue  # shape does not apply
        ok, detail = res
        if ok:
            ck.ob("WHILE", fm, loop, True, f"{name}: {detail}", key=f"while {text(loop.test)[:80]}")
            return
        attempts.append((name, detail))
    if attempts:
        # the loop has the shape of a known witness kind but an obligation of the witness fails
        name, detail = attempts[0]
        ck.ob("WHILE", fm, loop, False, f"loop may not terminate -- {name}: {detail}", key=f"while {text(loop.test)[:80]}")
    else:
        ck.ob("WHILE", fm, loop, False, "no termination witness: the loop matches none of the recognised ranking arguments",
              key=f"while {text(loop.test)[:80]}")


def rec_shrink(ck, fm: FuncModel, loop):
    X = _nonempty_container(loop.test)
    if X is None:
        return None
    if _assigns(fm, loop, X):
        return None
    nodes = _nodes_in(fm, loop)
    if any(_calls_on(n, X, GROW) for n in nodes):
        return None
    pops = {n.id for n in nodes if _calls_on(n, X, {"pop", "remove", "popleft", "popitem"}) or
            (n.kind == "stmt" and isinstance(n.ast, ast.Delete) and X in text(n.ast))}
    if not pops:
        return None
    hdr = fm.cfg.loop_header[loop]
    tb = _tbranch(fm, loop)
    if hdr.id in _within(fm, loop, tb, pops):
        return False, f"a path through the body reaches the next iteration without removing an element of `{X}`"
    return True, f"every iteration removes an element of `{X}`, nothing is added"


# ---- level worklists -----------------------------------------------------------------------
def rec_level(ck, fm: FuncModel, loop):
    X = _nonempty_container(loop.test)
    if X is None:
        return None
    ass = _assigns(fm, loop, X)
    if not ass:
        return None
    nodes = _nodes_in(fm, loop)
    if any(_calls_on(n, X, GROW) for n in nodes):
        return False, f"the level `{X}` being processed is extended inside the loop"
    # every assignment X = Y (another container), and Y is reset afterwards
    Ys = set()
    for a in ass:
        if not (a.kind == "stmt" and isinstance(a.ast, ast.Assign) and isinstance(a.ast.value, ast.Name)):
            return None
        Ys.add(a.ast.value.id)
    if len(Ys) != 1:
        return None
    Y = Ys.pop()
    # the next level may be handed over through a copy:  Y = Z  (or `Y = None` as a failure marker), Z being the list
    # that is emptied and filled
    ydefs = [n for n in nodes if n.kind == "stmt" and isinstance(n.ast, ast.Assign) and isinstance(n.ast.targets[0], ast.Name)
             and n.ast.targets[0].id == Y]
    srcs = {n.ast.value.id for n in ydefs if isinstance(n.ast.value, ast.Name)}
    if ydefs and len(srcs) == 1 and all(isinstance(n.ast.value, ast.Name) or (isinstance(n.ast.value, ast.Constant) and n.ast.value.value is None)
                                        for n in ydefs):
        Y = srcs.pop()
    hdr = fm.cfg.loop_header[loop]
    tb = _tbranch(fm, loop)
    switch = {a.id for a in ass}
    resets = [n for n in nodes if n.kind == "stmt" and isinstance(n.ast, ast.Assign) and isinstance(n.ast.targets[0], ast.Name)
              and n.ast.targets[0].id == Y and _is_empty_container(n.ast.value)]
    if not resets:
        return None  # not a level worklist (no next-level container that is emptied)
    if hdr.id in _within(fm, loop, tb, switch):
        return False, f"a path reaches the next iteration without replacing the level `{X}`"
    # between the switch and the next push into Y (possibly in the next iteration), Y is re-bound to an empty container
    fills = {n.id for n in nodes if _calls_on(n, Y, GROW) or
             (n.kind == "stmt" and isinstance(n.ast, ast.AugAssign) and isinstance(n.ast.target, ast.Name) and n.ast.target.id == Y)}
    rs = {r.id for r in resets}
    ids = _loop_ids(fm, loop) | {hdr.id}
    for a in ass:
        seen_, todo = set(), list(fm.cfg.g.successors(a.id))
        while todo:
            i = todo.pop()
            if i in seen_ or i in rs or i not in ids:
                continue
            seen_.add(i)
            todo.extend(fm.cfg.g.successors(i))
        if seen_ & fills:
            return False, f"`{Y}` is not emptied after it became the current level: its elements are processed again"
    # pushes into Y
    pushes = []
    for n in nodes:
        for c in _calls_on(n, Y, {"append", "add"}):
            pushes.append((n, c.args[0] if c.args else None, "elem"))
        for c in _calls_on(n, Y, {"extend", "update"}):
            pushes.append((n, c.args[0] if c.args else None, "coll"))
        if n.kind == "stmt" and isinstance(n.ast, ast.Assign) and isinstance(n.ast.targets[0], ast.Name) \
                and n.ast.targets[0].id == Y and not _is_empty_container(n.ast.value) \
                and not (isinstance(n.ast.value, ast.Constant) and n.ast.value.value is None):
            v = n.ast.value
            if isinstance(v, ast.BinOp) and isinstance(v.op, (ast.BitOr, ast.Add)) and text(v.left) == Y:
                pushes.append((n, v.right, "coll"))
            else:
                pushes.append((n, v, "coll"))
        if n.kind == "stmt" and isinstance(n.ast, ast.AugAssign) and isinstance(n.ast.target, ast.Name) and n.ast.target.id == Y:
            pushes.append((n, n.ast.value, "coll"))
    if not pushes:
        return True, f"level `{X}` is replaced by `{Y}`, which is never filled"
    # the per-element loop
    inners = [l for l in fm.cfg.loop_nodes if isinstance(l, ast.For) and l is not loop
              and fm.cfg.loop_header[l].id in _loop_ids(fm, loop) and X in {x.id for x in ast.walk(l.iter) if isinstance(x, ast.Name)}]
    why = []
    kinds = set()
    for n, e, kind in pushes:
        inner = next((l for l in inners if n.id in _loop_ids(fm, l)), None)
        cur = inner.target.id if inner is not None and isinstance(inner.target, ast.Name) else None
        j = _justify_push(ck, fm, loop, inner, cur, n, e, kind)
        if j[0]:
            kinds.add(j[1])
        else:
            why.append(f"line {n.lineno}: pushing `{text(e)[:40] if e is not None else '?'}` -- {j[1]}")
    if why:
        return False, "; ".join(why[:3])
    return True, f"levels {X} <- {Y}; every push justified by {', '.join(sorted(kinds))}"


def _is_empty_container(v: ast.AST) -> bool:
    if isinstance(v, (ast.List, ast.Set, ast.Tuple)) and not v.elts:
        return True
    if isinstance(v, ast.Dict) and not v.keys:
        return True
    if isinstance(v, ast.Call) and callee_name(v) in ("set", "list", "dict", "frozenset") and not v.args:
        return True
    return False


def _justify_push(ck, fm: FuncModel, loop, inner, cur, n, e, kind):
    # (1) seen set: `e not in S` dominates the push and S.add(e) lies between test and the end of the iteration
    if kind == "elem" and isinstance(e, ast.Name):
        for b in fm.cfg.dominators(n):
            if b.kind != "branch" or b.test is None or b.id not in _loop_ids(fm, loop):
                continue
            t, p = b.test, b.pol
            while isinstance(t, ast.UnaryOp) and isinstance(t.op, ast.Not):
                t, p = t.operand, not p
            if isinstance(t, ast.Compare) and len(t.ops) == 1 and isinstance(t.left, ast.Name) and t.left.id == e.id \
                    and isinstance(t.comparators[0], ast.Name):
                S = t.comparators[0].id
                absent = (isinstance(t.ops[0], ast.NotIn) and p) or (isinstance(t.ops[0], ast.In) and not p)
                if not absent:
                    continue
                nodes = _nodes_in(fm, loop)
                if any(_calls_on(x, S, SHRINK) for x in nodes) or _assigns(fm, loop, S):
                    return False, f"the seen set `{S}` can shrink inside the loop"
                adds = {x.id for x in nodes if any(text(c.args[0]) == e.id for c in _calls_on(x, S, {"add"}) if c.args)}
                # the element's own loop (innermost loop that binds e) delimits "one element"
                eloops = [l for l in fm.cfg.enclosing_loops(n) if e.id in fm.cfg.defs_of(fm.cfg.loop_header[l])]
                eloop = eloops[0] if eloops else (inner if inner is not None else loop)
                ehdr = fm.cfg.loop_header[eloop].id
                # every path from the test to the next element passes the insertion when it passes the push
                pre = n.id in _within(fm, eloop, b, adds) or n.id in adds
                post = ehdr in _within(fm, eloop, n, adds) and n.id not in adds
                if n.id in adds or not (pre and post):
                    return True, f"seen set `{S}`"
                return False, f"`{e.id}` is pushed without being inserted into `{S}`: it can be pushed again"
    # (1b) a collection of elements filtered by `x not in S`, with S.update(<collection>) on the same paths
    if kind == "coll" and isinstance(e, ast.Name):
        sd_ = fm.single_def(e.id, n)
        if sd_ and isinstance(sd_[1], (ast.ListComp, ast.SetComp)) and len(sd_[1].generators) == 1:
            g_ = sd_[1].generators[0]
            for c_ in g_.ifs:
                if isinstance(c_, ast.Compare) and len(c_.ops) == 1 and isinstance(c_.ops[0], ast.NotIn) and isinstance(c_.comparators[0], ast.Name) \
                        and isinstance(g_.target, ast.Name) and text(c_.left) == g_.target.id and text(sd_[1].elt) == g_.target.id:
                    S = c_.comparators[0].id
                    nodes = _nodes_in(fm, loop)
                    if any(_calls_on(x, S, SHRINK) for x in nodes) or _assigns(fm, loop, S):
                        return False, f"the seen set `{S}` can shrink inside the loop"
                    ups = {x.id for x in nodes if any(c2.args and text(c2.args[0]) == e.id for c2 in _calls_on(x, S, {"update"}))}
                    eloop = inner if inner is not None else loop
                    ehdr = fm.cfg.loop_header[eloop].id
                    between_ok = not any(_calls_on(fm.cfg.nodes[i], S, GROW) for i in _within(fm, eloop, sd_[0], {n.id}) if i != n.id
                                         and i not in ups)
                    if ups and (n.id in _within(fm, eloop, sd_[0], set()) ) and (ehdr not in _within(fm, eloop, n, ups) or
                                                                                  any(fm.cfg.dominates(fm.cfg.nodes[u], n) for u in ups)):
                        return True, f"seen set `{S}` (filtered collection)"
                    return False, f"`{e.id}` is pushed without being inserted into `{S}`: its elements can be pushed again"
    # (2) expanded guard + expansion in the same iteration
    if inner is not None and cur is not None:
        guards = []
        for d in fm.cfg.dominators(n):
            if d.kind == "branch" and d.test is not None and d.id in _loop_ids(fm, inner):
                tnode = fm.cfg.nodes[next(iter(fm.cfg.g.predecessors(d.id)))]
                t, p = d.test, d.pol
                while isinstance(t, ast.UnaryOp) and isinstance(t.op, ast.Not):
                    t, p = t.operand, not p
                k = fm.key(t, tnode)
                if k.startswith("FIELD<") and k.endswith(f"|{cur}|expanded>") and not p:
                    guards.append(d)
        if guards:
            events = set()
            for x in _nodes_in(fm, inner):
                if x.kind != "stmt" or x.ast is None or isinstance(x.ast, (ast.FunctionDef, ast.ClassDef)):
                    continue
                for c in ast.walk(x.ast):
                    if isinstance(c, ast.Call) and callee_name(c) == "node_successors" and c.args and text(c.args[0]) == cur \
                            and is_true(call_arg(c, 1, "compute")):
                        events.add(x.id)
                if isinstance(x.ast, ast.Assign) and is_true(x.ast.value) and text(x.ast.targets[0]).endswith("['expanded']") \
                        and f"({cur})" in text(x.ast.targets[0]):
                    events.add(x.id)
            ihdr = fm.cfg.loop_header[inner]
            g = guards[0]
            pre = n.id in _within(fm, inner, g, events)
            post = ihdr.id in _within(fm, inner, n, events)
            if not (pre and post) or n.id in events:
                return True, "expanded-guard (each node is processed at most once)"
    # (3) descent
    ok, why, may_self = descends(ck, fm, e, n, cur)
    if ok and may_self:
        # the current node itself may be among the pushed elements: the push must be on a path where the
        # list is known to differ from [cur]
        pc = fm.pc(n)
        excl = [a for a in logic.atoms(pc) if a[0] == "b" and a[1].startswith("eq:") and f"[{cur}]" in a[1]]
        if not (excl and logic.implies(pc, logic.Not(("atom", excl[0])))):
            return False, (f"the current node `{cur}` itself may be pushed again (no test excluding the list [{cur}]): "
                           f"the same node would be processed forever")
    if ok:
        return True, "descent to successors/children of the current node"
    return False, why


_COMP_ENV: dict = {}   # names bound by the comprehension under examination -> the collection they range over
_SELF: list = []   # (filled during a query) places where the current node itself may be an element
_VISIT: set = set()


def descends(ck, fm: FuncModel, e, at, cur):
    """Top-level query: (ok, why, may_contain_self)."""
    _SELF.clear()
    _VISIT.clear()
    ok, why = _descends(ck, fm, e, at, cur, 0)
    return ok, why, bool(_SELF)


def _descends(ck, fm: FuncModel, e, at, cur, depth):
    """Every element of e is a successor / newly created child / attached descendant of `cur` (or `cur`
    itself, which is recorded in _SELF)."""
    if e is None or depth > 12:
        return False, "provenance too deep"
    if isinstance(e, ast.Name) and cur is not None and e.id == cur:
        _SELF.append(e)
        return True, ""
    if isinstance(e, ast.Name) and e.id in _COMP_ENV:
        # bound by a comprehension: an element of the iterated collection
        return _descends(ck, fm, _COMP_ENV[e.id], at, cur, depth + 1)
    if isinstance(e, (ast.ListComp, ast.SetComp, ast.GeneratorExp)):
        saved = dict(_COMP_ENV)
        try:
            for g_ in e.generators:
                for x_ in ast.walk(g_.target):
                    if isinstance(x_, ast.Name):
                        _COMP_ENV[x_.id] = g_.iter
            return _descends(ck, fm, e.elt, at, cur, depth + 1)
        finally:
            _COMP_ENV.clear()
            _COMP_ENV.update(saved)
    if isinstance(e, ast.Call):
        nm = callee_name(e)
        if nm in ("set", "sorted", "list", "tuple", "frozenset") and e.args:
            return _descends(ck, fm, e.args[0], at, cur, depth + 1)
        if nm == "node_successors" and e.args and (cur is None or text(e.args[0]) == cur):
            return True, ""
        if nm == "_ensure_node" and call_arg(e, 0, "parent_id") is not None:
            par = call_arg(e, 0, "parent_id")
            if cur is None:
                return True, ""  # inside a summarised helper: a node created/looked up below the attachment point
            if not is_none(par) and text(par) == cur:
                return True, ""
        tgt = ck.prog.repo.resolve_call(fm.f, e)
        if tgt and not tgt.startswith("ext:"):
            g = ck.prog.model(ck.prog.repo.functions[tgt])
            s = _descendant_summary(ck, g)
            if s is not None:
                # argument for the summarised parameter must be cur or an element of a descending list
                a = call_arg(e, g.f.params().index(s), s)
                if a is not None:
                    if cur is not None and text(a) == cur:
                        return True, ""
                    return _descends_or_self(ck, fm, a, at, cur, depth + 1)
        return False, f"`{text(e)[:40]}` is not known to yield descendants of the current node"
    if isinstance(e, ast.BinOp) and isinstance(e.op, (ast.BitOr, ast.Add)):
        a = _descends(ck, fm, e.left, at, cur, depth + 1)
        b = _descends(ck, fm, e.right, at, cur, depth + 1)
        return (a[0] and b[0]), (a[1] or b[1])
    if isinstance(e, ast.Subscript):
        return _descends(ck, fm, e.value, at, cur, depth + 1)
    if isinstance(e, (ast.List, ast.Tuple, ast.Set)):
        for x in e.elts:
            r = _descends(ck, fm, x, at, cur, depth + 1)
            if not r[0]:
                return r
        return True, ""
    if isinstance(e, ast.Name):
        defs = fm.cfg.reaching_defs(e.id, at)
        if not defs:
            return False, f"`{e.id}` undefined"
        for d in defs:
            vk = (fm.f.key, e.id, d.id)
            if vk in _VISIT:
                continue  # cyclic provenance (list rebuilt from its own elements): co-inductively fine
            _VISIT.add(vk)
            r = _def_descends(ck, fm, e.id, d, cur, depth + 1)
            if not r[0]:
                return r
        # in-place growth of the list
        for x in fm.cfg.nodes:
            if x.id in fm.cfg.g:
                for c in _calls_on(x, e.id, {"append", "add", "extend", "update"}):
                    r = _descends(ck, fm, c.args[0], x, cur, depth + 1)
                    if not r[0]:
                        return r
        return True, ""
    return False, f"`{text(e)[:40]}`"


def _descends_or_self(ck, fm, a, at, cur, depth):
    if isinstance(a, ast.Name) and a.id in _COMP_ENV:
        return _descends(ck, fm, _COMP_ENV[a.id], at, cur, depth + 1)
    if isinstance(a, ast.Name):
        ok = True
        for d in fm.cfg.reaching_defs(a.id, at):
            if d.kind == "for":
                # element of an iterated list: the list must descend (or contain cur itself)
                it = d.ast.iter
                r = _descends(ck, fm, it, d, cur, depth + 1)
                if not r[0]:
                    return False, r[1]
            else:
                r = _def_descends(ck, fm, a.id, d, cur, depth + 1)
                if not r[0]:
                    return r
        return True, ""
    return _descends(ck, fm, a, at, cur, depth)


def _list_is_self_or_desc(ck, fm, it, at, cur, depth) -> bool:
    if isinstance(it, ast.Name):
        for d in fm.cfg.reaching_defs(it.id, at):
            a = d.ast
            if d.kind == "stmt" and isinstance(a, (ast.Assign, ast.AnnAssign)) and a.value is not None:
                v = a.value
                if isinstance(v, ast.List) and len(v.elts) == 1 and cur is not None and text(v.elts[0]) == cur:
                    continue
                if isinstance(v, ast.Name):
                    if not _list_is_self_or_desc(ck, fm, v, d, cur, depth + 1):
                        return False
                    continue
                if isinstance(v, ast.List) and not v.elts:
                    continue
                if not _descends(ck, fm, v, d, cur, depth + 1)[0]:
                    return False
            elif d.kind == "stmt" and isinstance(a, ast.AugAssign):
                if not _descends(ck, fm, a.value, d, cur, depth + 1)[0]:
                    return False
            else:
                return False
        return True
    return False


def _def_descends(ck, fm, name, d, cur, depth):
    a = d.ast
    if d.kind == "stmt" and isinstance(a, (ast.Assign, ast.AnnAssign)) and a.value is not None:
        tg = a.targets[0] if isinstance(a, ast.Assign) else a.target
        if isinstance(tg, ast.Name):
            if isinstance(a.value, (ast.List,)) and not a.value.elts:
                return True, ""
            return _descends(ck, fm, a.value, d, cur, depth)
        return False, f"line {d.lineno}: `{name}` bound by unpacking"
    if d.kind == "stmt" and isinstance(a, ast.AugAssign):
        return _descends(ck, fm, a.value, d, cur, depth)
    if d.kind == "for":
        # element / component of an iterated collection that descends
        return _descends(ck, fm, a.iter, d, cur, depth)
    return False, f"line {d.lineno}: `{name}` bound by {type(a).__name__}"


def _descendant_summary(ck, g: FuncModel) -> str | None:
    """Parameter p such that every return value of g is `[p]` or a list of ids created by _ensure_node in g."""
    rets = [r for r in own_walk(g.f.node) if isinstance(r, ast.Return) and r.value is not None]
    if not rets:
        return None
    selfp = None
    for r in rets:
        v = r.value
        if isinstance(v, ast.List) and len(v.elts) == 1 and isinstance(v.elts[0], ast.Name) and v.elts[0].id in g.f.params():
            if selfp not in (None, v.elts[0].id):
                return None
            selfp = v.elts[0].id
            continue
        if isinstance(v, ast.Name):
            ok, _ = _descends(ck, g, v, g.cfgn(r), None, 0)
            if ok:
                continue
        return None
    return selfp


# ---- stack worklists -----------------------------------------------------------------------
def rec_stack(ck, fm: FuncModel, loop):
    X = _nonempty_container(loop.test)
    if X is None or _assigns(fm, loop, X):
        return None
    nodes = _nodes_in(fm, loop)
    pops = [n for n in nodes if _calls_on(n, X, {"pop"})]
    pushes = []  # (cfg node, pushed element)
    for n in nodes:
        for c in _calls_on(n, X, {"append"}):
            pushes.append((n, c.args[0] if c.args else None))
        for c in _calls_on(n, X, {"extend"}):
            if c.args and isinstance(c.args[0], (ast.List, ast.Tuple)):
                pushes += [(n, e) for e in c.args[0].elts]
            else:
                pushes.append((n, None))
        if n.kind == "stmt" and isinstance(n.ast, ast.AugAssign) and isinstance(n.ast.target, ast.Name) and n.ast.target.id == X:
            if isinstance(n.ast.op, ast.Add) and isinstance(n.ast.value, (ast.List, ast.Tuple)):
                pushes += [(n, e) for e in n.ast.value.elts]
            else:
                pushes.append((n, None))
    if not pops or not pushes:
        return None
    tb = _tbranch(fm, loop)
    hdr = fm.cfg.loop_header[loop]
    fp = pops[0]
    if not (fp.kind == "stmt" and isinstance(fp.ast, ast.Assign) and isinstance(fp.ast.targets[0], ast.Tuple)):
        return None
    if hdr.id in _within(fm, loop, tb, {fp.id}):
        return False, "an iteration can end without popping a frame"
    frame = [text(t) for t in fp.ast.targets[0].elts]
    if len(frame) != 2:
        return None
    cur, L = frame
    probs = []
    for n, a in pushes:
        if not (isinstance(a, ast.Tuple) and len(a.elts) == 2):
            probs.append(f"line {n.lineno}: pushed frame is not a (node, successors) pair")
            continue
        e0, e1 = a.elts
        if text(e0) == cur and text(e1) == L:
            lp = {x.id for x in nodes if _calls_on(x, L, {"pop"})}
            if n.id in _within(fm, loop, fp, lp):
                probs.append(f"line {n.lineno}: the current frame is pushed back although its successor list `{L}` may "
                             f"be unchanged: the same frame is processed forever")
            continue
        if not isinstance(e0, ast.Name):
            probs.append(f"line {n.lineno}: fresh frame for `{text(e0)}`")
            continue
        # fresh frame: e0 = L.pop(), seen.add(e0), and e0 not in seen
        defs = fm.cfg.reaching_defs(e0.id, n)
        if len(defs) != 1 or not (defs[0].kind == "stmt" and isinstance(defs[0].ast, ast.Assign)
                                  and isinstance(defs[0].ast.value, ast.Call) and text(defs[0].ast.value) == f"{L}.pop()"):
            probs.append(f"line {n.lineno}: pushed node `{e0.id}` is not taken out of the frame's successor list")
            continue
        d = defs[0]
        S = None
        for x in nodes:
            for nm in ("seen", "visited"):
                pass
        adds = [(x, c2) for x in nodes if x.kind == "stmt" and x.ast is not None
                and not isinstance(x.ast, (ast.FunctionDef, ast.ClassDef)) for c2 in ast.walk(x.ast)
                if isinstance(c2, ast.Call) and isinstance(c2.func, ast.Attribute) and c2.func.attr == "add"
                and c2.args and text(c2.args[0]) == e0.id and isinstance(c2.func.value, ast.Name)]
        if not adds:
            probs.append(f"line {n.lineno}: node `{e0.id}` is scheduled without being recorded in a seen set")
            continue
        S = adds[0][1].func.value.id
        if any(_calls_on(x, S, SHRINK) for x in nodes) or _assigns(fm, loop, S):
            probs.append(f"the seen set `{S}` can shrink inside the loop")
            continue
        if n.id in _within(fm, loop, d, {x.id for x, _ in adds}):
            probs.append(f"line {n.lineno}: a path schedules `{e0.id}` without inserting it into `{S}`")
            continue
        # e0 (= L[-1] before the pop) is not in S: by enumeration of the paths from the frame pop
        goal = logic.Not(logic.B(f"in:{L}[-1]|{S}"))
        bad = paths_imply(fm, fp, d, goal, None, canon=True)
        if bad:
            probs.append(f"line {d.lineno}: `{e0.id}` may already be in `{S}` when it is scheduled ({bad}): a node can be "
                         f"visited repeatedly")
    if probs:
        return False, "; ".join(probs[:3])
    return True, f"each iteration pops a frame; re-pushed frames shrink `{L}`; fresh frames only for nodes new to the seen set"


# ---- counters ------------------------------------------------------------------------------
def rec_counter(ck, fm: FuncModel, loop):
    """while i >= c: ... i -= k   /   while i < n: ... i += k   (k a positive constant on every path, i not written
    otherwise; the bound is a constant, or -- for the increasing form -- a name / len() of a name not written in the loop)."""
    t = loop.test
    conj = t.values if isinstance(t, ast.BoolOp) and isinstance(t.op, ast.And) else [t]
    for c in conj:
        if not (isinstance(c, ast.Compare) and len(c.ops) == 1):
            continue
        l, op, r = c.left, c.ops[0], c.comparators[0]
        for var, bound, down in ((l, r, isinstance(op, (ast.Gt, ast.GtE))), (r, l, isinstance(op, (ast.Lt, ast.LtE)))):
            if not isinstance(var, ast.Name) or isinstance(op, (ast.Eq, ast.NotEq, ast.In, ast.NotIn, ast.Is, ast.IsNot)):
                continue
            i = var.id
            writes = _assigns(fm, loop, i)
            if not writes:
                continue
            steps = set()
            okw = True
            for w in writes:
                a = w.ast if w.kind == "stmt" else None
                good = isinstance(a, ast.AugAssign) and isinstance(a.target, ast.Name) and a.target.id == i \
                    and isinstance(a.op, ast.Sub if down else ast.Add) and _pos_const(a.value)
                if not good:
                    okw = False
                steps.add(w.id)
            if not okw:
                return False, f"the counter `{i}` is written otherwise than by a constant {'decrement' if down else 'increment'}"
            # bound
            if isinstance(bound, ast.Constant) and isinstance(bound.value, int):
                pass
            elif not down:
                b = bound.args[0] if isinstance(bound, ast.Call) and callee_name(bound) == "len" and bound.args else bound
                if not isinstance(b, ast.Name):
                    continue
                nodes = _nodes_in(fm, loop)
                if _assigns(fm, loop, b.id) or any(_calls_on(n, b.id, GROW) for n in nodes):
                    return False, f"the bound `{text(bound)}` of the counter can grow inside the loop"
            else:
                continue
            hdr = fm.cfg.loop_header[loop]
            if hdr.id in _within(fm, loop, _tbranch(fm, loop), steps):
                return False, f"a path reaches the next iteration without {'decreasing' if down else 'increasing'} `{i}`"
            return True, f"counter `{i}` moves towards its bound `{text(bound)}` by a positive constant in every iteration"
    return None


# ---- queue worklists -----------------------------------------------------------------------
def rec_queue(ck, fm: FuncModel, loop):
    """while Q: x = Q.pop*() ... Q.append(y): every iteration removes an element; every push is justified by a seen
    set that never shrinks (or by the expanded guard / descent), so each node enters the queue a bounded number of times."""
    X = _nonempty_container(loop.test)
    if X is None or _assigns(fm, loop, X):
        return None
    nodes = _nodes_in(fm, loop)
    pops = [n for n in nodes if _calls_on(n, X, {"pop", "popleft"})]
    pushes = [(n, c.args[0] if c.args else None) for n in nodes for c in _calls_on(n, X, {"append", "appendleft", "add"})]
    if not pops or not pushes or any(_calls_on(n, X, {"extend", "update", "insert", "extendleft"}) for n in nodes):
        return None
    fp = pops[0]
    if not (fp.kind == "stmt" and isinstance(fp.ast, ast.Assign)):
        return None
    tg = fp.ast.targets[0]
    tb = _tbranch(fm, loop)
    hdr = fm.cfg.loop_header[loop]
    if isinstance(tg, ast.Name):
        slots = [(tg.id, None)]
    elif isinstance(tg, ast.Tuple) and all(isinstance(t_, ast.Name) for t_ in tg.elts):
        # frames (node, extra, ..): the node is the component for which every push can be justified
        slots = [(t_.id, k) for k, t_ in enumerate(tg.elts)]
        if any(not (isinstance(e, ast.Tuple) and len(e.elts) == len(tg.elts)) for _, e in pushes):
            return None
    else:
        return None
    if hdr.id in _within(fm, loop, tb, {p.id for p in pops}):
        return False, "an iteration can end without taking an element out of the queue"
    first = None
    for cur, k in slots:
        why, kinds = [], set()
        for n, e in pushes:
            e_ = e if k is None else e.elts[k]
            j = _justify_push(ck, fm, loop, loop, cur, n, e_, "elem")
            if j[0]:
                kinds.add(j[1])
            else:
                why.append(f"line {n.lineno}: pushing `{text(e_)[:40] if e_ is not None else '?'}` -- {j[1]}")
        if not why:
            return True, f"queue `{X}`: each iteration removes an element; every push justified by {', '.join(sorted(kinds))}"
        if first is None:
            first = why
    return False, "; ".join((first or [])[:3])


def rec_chase(ck, fm: FuncModel, loop):
    """while i < len(Q): e = len(Q); ... Q.append(y) ...; i = e   -- a queue kept as one growing list: the index jumps to
    the old end, so the loop goes on only while the list has grown; every push is justified like a push into a queue
    (seen set / expanded guard / descent), nothing is ever taken out."""
    t = loop.test
    if not (isinstance(t, ast.Compare) and len(t.ops) == 1 and isinstance(t.ops[0], (ast.Lt, ast.NotEq)) and isinstance(t.left, ast.Name)
            and isinstance(t.comparators[0], ast.Call) and callee_name(t.comparators[0]) == "len" and t.comparators[0].args
            and isinstance(t.comparators[0].args[0], ast.Name)):
        return None
    I, Q = t.left.id, t.comparators[0].args[0].id
    nodes = _nodes_in(fm, loop)
    ass = _assigns(fm, loop, I)
    if not ass or _assigns(fm, loop, Q):
        return None
    if any(_calls_on(n, Q, SHRINK | {"insert", "sort", "reverse"}) for n in nodes):
        return None
    # every assignment of the index: the length of the list taken at the start of this round
    first = loop.body[0] if loop.body else None
    snap = first.targets[0].id if isinstance(first, ast.Assign) and len(first.targets) == 1 and isinstance(first.targets[0], ast.Name) \
        and isinstance(first.value, ast.Call) and callee_name(first.value) == "len" and first.value.args \
        and text(first.value.args[0]) == Q else None
    for a in ass:
        v = a.ast.value if a.kind == "stmt" and isinstance(a.ast, ast.Assign) else None
        ok = (snap is not None and isinstance(v, ast.Name) and v.id == snap and len(_assigns(fm, loop, snap)) == 1)
        if not ok:
            return None
    hdr = fm.cfg.loop_header[loop]
    tb = _tbranch(fm, loop)
    if hdr.id in _within(fm, loop, tb, {a.id for a in ass}):
        return False, f"a path reaches the next round without moving `{I}` to the end of the part already handled"
    pushes = [(n, c.args[0] if c.args else None) for n in nodes for c in _calls_on(n, Q, {"append", "add"})]
    if any(_calls_on(n, Q, {"extend", "update"}) for n in nodes):
        return None
    # the per-element loop: `for x in Q[i:e]`
    inners = [l for l in fm.cfg.loop_nodes if isinstance(l, ast.For) and l is not loop and fm.cfg.loop_header[l].id in _loop_ids(fm, loop)
              and isinstance(l.iter, ast.Subscript) and isinstance(l.iter.value, ast.Name) and l.iter.value.id == Q]
    why, kinds = [], set()
    for n, e in pushes:
        inner = next((l for l in inners if n.id in _loop_ids(fm, l)), None)
        cur = inner.target.id if inner is not None and isinstance(inner.target, ast.Name) else None
        j = _justify_push(ck, fm, loop, inner, cur, n, e, "elem")
        if j[0]:
            kinds.add(j[1])
        else:
            why.append(f"line {n.lineno}: pushing `{text(e)[:40] if e is not None else '?'}` -- {j[1]}")
    if why:
        return False, "; ".join(why[:3])
    return True, (f"`{I}` jumps to the former end of `{Q}` each round; every push justified by {', '.join(sorted(kinds)) or 'nothing pushed'}: "
                  f"the list stops growing")


# ---- flag-controlled fixpoints -------------------------------------------------------------------
def _flag_form(fm: FuncModel, loop):
    """(flag, value with which the loop continues) for `while not F`, `while F`, and
    `while True: ... if [not] F: break` (the guarded break being the only way around the back edge)."""
    t = loop.test
    if isinstance(t, ast.UnaryOp) and isinstance(t.op, ast.Not) and isinstance(t.operand, ast.Name):
        return t.operand.id, False
    if isinstance(t, ast.Name):
        return t.id, True
    if isinstance(t, ast.Constant) and t.value is True:
        cands = []
        for st in loop.body:
            if isinstance(st, ast.If) and not st.orelse and len(st.body) >= 1 and isinstance(st.body[-1], ast.Break):
                c, val = st.test, False   # `if F: break` -> continues with F False
                if isinstance(c, ast.UnaryOp) and isinstance(c.op, ast.Not):
                    c, val = c.operand, True
                if isinstance(c, ast.Name):
                    cands.append((st, c.id, val))
        if len(cands) == 1:
            st, F, val = cands[0]
            # every path to the next iteration passes the test of that `if`
            tn = fm.cfgn(st.test)
            if fm.cfg.loop_header[loop].id not in _within(fm, loop, _tbranch(fm, loop), {tn.id}):
                return F, val
        # the same with a per-round accumulator instead of a Boolean: `acc = {}` first, `if not acc: break` at the end
        # ("continue while this round found something")
        acc = _acc_round(fm, loop)
        if acc is not None:
            return acc, "acc"
    return None


def _acc_round(fm: FuncModel, loop) -> str | None:
    if not loop.body:
        return None
    first = loop.body[0]
    if not (isinstance(first, ast.Assign) and len(first.targets) == 1 and isinstance(first.targets[0], ast.Name)
            and _is_empty_container(first.value)):
        return None
    A = first.targets[0].id
    for st in loop.body[1:]:
        if isinstance(st, ast.If) and not st.orelse and st.body and isinstance(st.body[-1], ast.Break):
            c = st.test
            empty = (isinstance(c, ast.UnaryOp) and isinstance(c.op, ast.Not) and isinstance(c.operand, ast.Name) and c.operand.id == A) or \
                    (isinstance(c, ast.Compare) and len(c.ops) == 1 and isinstance(c.ops[0], ast.Eq) and text(c.left) == f"len({A})"
                     and text(c.comparators[0]) == "0")
            if empty:
                tn = fm.cfgn(st.test)
                if fm.cfg.loop_header[loop].id not in _within(fm, loop, _tbranch(fm, loop), {tn.id}):
                    # nothing else re-binds the accumulator inside the round
                    if len([n for n in _assigns(fm, loop, A)]) == 1:
                        return A
    return None


def _acc_events(fm: FuncModel, loop, A: str):
    """(reset node, nodes that put something into the accumulator)"""
    nodes = _nodes_in(fm, loop)
    reset = [n for n in nodes if n.kind == "stmt" and n.ast is loop.body[0]]
    grows = [n for n in nodes if _calls_on(n, A, {"append", "add", "update", "extend", "setdefault"}) or
             (n.kind == "stmt" and isinstance(n.ast, ast.Assign) and isinstance(n.ast.targets[0], ast.Subscript)
              and text(n.ast.targets[0].value) == A) or
             (n.kind == "stmt" and isinstance(n.ast, ast.AugAssign) and text(n.ast.target) == A)]
    return reset, grows


def rec_flag(ck, fm: FuncModel, loop):
    form = _flag_form(fm, loop)
    if form is None:
        return None
    F, cont = form
    nodes = _nodes_in(fm, loop)
    if cont == "acc":
        sets_true, clears = _acc_events(fm, loop, F)
        other = []
        cont = "non-empty"
    else:
        is_cont = is_true if cont else is_false
        is_stop = is_false if cont else is_true
        sets_true = [n for n in nodes if n.kind == "stmt" and isinstance(n.ast, ast.Assign) and text(n.ast.targets[0]) == F and is_stop(n.ast.value)]
        clears = [n for n in nodes if n.kind == "stmt" and isinstance(n.ast, ast.Assign) and text(n.ast.targets[0]) == F and is_cont(n.ast.value)]
        other = [n for n in _assigns(fm, loop, F) if n not in sets_true and n not in clears]
    if isinstance(loop.test, ast.Name) and not sets_true and not clears:
        return None  # `while xs:` over a container, not a Boolean flag
    if other:
        return False, f"flag `{F}` assigned a computed value at line {other[0].lineno}"
    if not sets_true:
        return False, f"flag `{F}` is never reset inside the loop"
    hdr = fm.cfg.loop_header[loop]
    tb = _tbranch(fm, loop)
    prog_nodes, kinds = _progress_nodes(ck, fm, loop)
    bad = []
    for c in clears:
        pre = c.id in _within(fm, loop, tb, prog_nodes) or c is tb
        post = hdr.id in _within(fm, loop, c, prog_nodes)
        if pre and post and c.id not in prog_nodes and not _witnessed_by_flag(fm, loop, c, tb, prog_nodes):
            bad.append(c)
    if bad:
        return False, (f"`{F} = {cont}` at line {bad[0].lineno} lies on a path through the loop body that contains no progress "
                       f"statement (no set growth, no worklist removal, no strict decrease, no one-shot latch): the "
                       f"loop can repeat with identical state")
    return True, f"every path that clears `{F}` makes progress ({', '.join(sorted(kinds)) or 'flag never cleared'})"


def _witnessed_by_flag(fm: FuncModel, loop, c, tb, prog_nodes: set[int]) -> bool:
    """The statement is guarded by `if G` where G is a Boolean local that is True only when a progress statement was
    executed in this round: every `G = True` (looking through copies `G = H`) lies on no progress-free path from the
    start of the round to the test."""
    for test, pol, b in fm.facts(c):
        if not pol or not isinstance(test, ast.Name):
            continue
        tnode = fm.cfg.nodes[next(iter(fm.cfg.g.predecessors(b.id)))]
        todo = [(test.id, tnode)]
        seen = set()
        ok = True
        n_true = 0
        while todo and ok:
            name, at = todo.pop()
            for d in fm.cfg.reaching_defs(name, at):
                if (name, d.id) in seen:
                    continue
                seen.add((name, d.id))
                a = d.ast
                if not (d.kind == "stmt" and isinstance(a, ast.Assign) and len(a.targets) == 1 and isinstance(a.targets[0], ast.Name)):
                    ok = False
                    break
                if isinstance(a.value, ast.Name):
                    todo.append((a.value.id, d))
                elif is_false(a.value):
                    continue
                elif is_true(a.value):
                    n_true += 1
                    # the witness speaks about *this* round: it is lowered again before the next one starts (a flag that stays
                    # up from an earlier round keeps the loop going without any progress)
                    falses = [x for x in fm.cfg.nodes if x.kind == "stmt" and isinstance(x.ast, ast.Assign) and len(x.ast.targets) == 1
                              and isinstance(x.ast.targets[0], ast.Name) and x.ast.targets[0].id == name and is_false(x.ast.value)]
                    hdr_ = fm.cfg.loop_header[loop]
                    if d.id in fm.cfg.loop_nodes[loop] and hdr_.id in fm.cfg.reach_avoiding(d, falses) \
                            and tnode.id in fm.cfg.reach_avoiding(hdr_, falses):
                        ok = False
                        break
                    free_before = d.id in _within(fm, loop, tb, prog_nodes)
                    free_after = tnode.id in _within(fm, loop, d, prog_nodes)
                    if d.id in prog_nodes:
                        continue
                    if free_before and free_after:
                        ok = False
                        break
                else:
                    ok = False
                    break
        if ok and n_true:
            return True
    return False


def _progress_nodes(ck, fm: FuncModel, loop) -> tuple[set[int], set[str]]:
    out: set[int] = set()
    kinds: set[str] = set()
    nodes = _nodes_in(fm, loop)
    ids = _loop_ids(fm, loop)
    for n in nodes:
        if n.kind != "stmt" or n.ast is None:
            continue
        a = n.ast
        # P1: X = X.union(D) (possibly via a single-definition temporary), D = var_post_out/var_pre_out(v, X), D non-empty
        if isinstance(a, ast.Assign) and len(a.targets) == 1 and isinstance(a.targets[0], ast.Name):
            X = a.targets[0].id
            v = a.value
            if isinstance(v, ast.Name):
                sd = fm.single_def(v.id, n)
                v2 = sd[1] if sd and not fm.stale(sd[0], n, sd[1]) else None
            else:
                v2 = v
            if isinstance(v2, ast.Call) and callee_name(v2) == "union" and isinstance(v2.func, ast.Attribute) \
                    and text(v2.func.value) == X and v2.args and isinstance(v2.args[0], ast.Name):
                D = v2.args[0].id
                sdD = fm.single_def(D, n)
                if sdD and isinstance(sdD[1], ast.Call) and callee_name(sdD[1]) in ("var_post_out", "var_pre_out") \
                        and len(sdD[1].args) == 2 and text(sdD[1].args[1]) == X and not fm.stale(sdD[0], n, sdD[1]):
                    pc = fm.pc(n)
                    at = logic.B(f"T:{D}.is_empty()")
                    if at[1] in logic.atoms(pc) and logic.implies(pc, logic.Not(at)):
                        out.add(n.id)
                        kinds.add("strict growth of a state set")
            # P2': replacement under strict length decrease
            if isinstance(v, ast.Name):
                pc = fm.pc(n)
                try:
                    if logic.implies(pc, logic.Lt(f"len({v.id})", f"len({X})")) and \
                            f"len({X})" in {t for at_ in logic.atoms(pc) if at_[0] != "b" for t in at_[1:]}:
                        out.add(n.id)
                        kinds.add("replacement by a strictly shorter list")
                except logic.TooBig:
                    pass
            # P3: one-shot latch
            if is_true(v):
                pc = fm.pc(n)
                at = logic.B("T:" + X)
                if at[1] in logic.atoms(pc) and logic.implies(pc, logic.Not(at)):
                    resets = [m for m in _assigns(fm, loop, X) if not (m.kind == "stmt" and isinstance(m.ast, ast.Assign) and is_true(m.ast.value))]
                    if not resets:
                        out.add(n.id)
                        kinds.add("one-shot latch")
                elif at[1] not in logic.atoms(pc):
                    # the same latch behind a witness: `if G: X = True` where G is raised, in this round, only at places where X
                    # is known to be down, X is raised nowhere else and never lowered -- so G up means X was down when G went up,
                    # and nothing raised X since
                    others = [m for m in _assigns(fm, loop, X) if m is not n]
                    for test_, pol_, b_ in fm.facts(n):
                        if not (pol_ and isinstance(test_, ast.Name)) or others:
                            continue
                        G = test_.id
                        gdefs = [m for m in fm.cfg.nodes if m.kind == "stmt" and isinstance(m.ast, ast.Assign) and len(m.ast.targets) == 1
                                 and isinstance(m.ast.targets[0], ast.Name) and m.ast.targets[0].id == G]
                        ups = [m for m in gdefs if not is_false(m.ast.value)]
                        downs = [m for m in gdefs if is_false(m.ast.value)]
                        hdr_ = fm.cfg.loop_header[loop]
                        if not ups or not all(is_true(m.ast.value) for m in ups) or not any(m.id in ids for m in downs):
                            continue
                        try:
                            known_down = all(at[1] in logic.atoms(fm.pc(m)) and logic.implies(fm.pc(m), logic.Not(at)) for m in ups)
                        except logic.TooBig:
                            known_down = False
                        # G does not stay up from one round to the next
                        tn_ = fm.cfg.nodes[next(iter(fm.cfg.g.predecessors(b_.id)))]
                        fresh = all(m.id in ids for m in ups) and tn_.id not in fm.cfg.reach_avoiding(hdr_, downs)
                        if known_down and fresh:
                            out.add(n.id)
                            kinds.add("one-shot latch")
        # P2: removal from a never-grown worklist of an element drawn from it
        for c in ast.walk(a) if not isinstance(a, (ast.FunctionDef, ast.ClassDef)) else []:
            if isinstance(c, ast.Call) and isinstance(c.func, ast.Attribute) and c.func.attr == "remove" \
                    and isinstance(c.func.value, ast.Name) and c.args and isinstance(c.args[0], ast.Name):
                W, x = c.func.value.id, c.args[0].id
                if any(_calls_on(m, W, GROW) for m in nodes):
                    continue
                if any(not (m.kind == "stmt" and isinstance(m.ast, ast.Assign) and False) for m in _assigns(fm, loop, W)):
                    continue
                # x is the variable of an enclosing for over (a copy of) W, or over a concatenation containing W
                for d in fm.cfg.reaching_defs(x, n):
                    if d.kind == "for" and d.id in ids:
                        srcs = {s.id for s in ast.walk(d.ast.iter) if isinstance(s, ast.Name)}
                        srcs2 = set(srcs)
                        for s in srcs:
                            sd = fm.single_def(s, d)
                            if sd and isinstance(sd[1], ast.Call) and callee_name(sd[1]) in ("sorted", "list", "copy"):
                                srcs2 |= {q.id for q in ast.walk(sd[1]) if isinstance(q, ast.Name)}
                        if W in srcs2:
                            if _drawn_removed(fm, n, d, x, srcs2, nodes):
                                out.add(n.id)
                                kinds.add("removal of the drawn element from a never-grown worklist")
                                # conditional removals `if x in Wi: Wi.remove(x)` covering every list x is drawn
                                # from: the path on which all tests fail is infeasible
                                for t, p, b in fm.facts(n):
                                    if p and isinstance(t, ast.Compare) and isinstance(t.ops[0], ast.In) \
                                            and text(t.left) == x and text(t.comparators[0]) == W:
                                        tn = next(iter(fm.cfg.g.predecessors(b.id)))
                                        for sib in fm.cfg.g.successors(tn):
                                            if fm.cfg.nodes[sib].kind == "branch" and not fm.cfg.nodes[sib].pol:
                                                out.add(sib)
    return out, kinds


def _drawn_removed(fm: FuncModel, n, fornode, x: str, sources: set[str], nodes) -> bool:
    """The removal at node n is unconditional, or x is removed under `if x in W` from every list the loop
    variable is drawn from (then at least one removal happens)."""
    pc_tests = [(t, p) for t, p, b in fm.facts(n) if b.id in fm.cfg.loop_nodes[fornode.ast] and b.loop is None]
    cond = [(t, p) for t, p in pc_tests if any(isinstance(q, ast.Name) and q.id == x for q in ast.walk(t)) and
            isinstance(t, ast.Compare) and isinstance(t.ops[0], ast.In)]
    if not cond:
        return True
    # conditional: the lists tested must cover all the lists x can come from
    lists = {s for s in sources if any(_calls_on(m, s, {"remove"}) for m in nodes)}
    drawn = set()
    for s in ast.walk(fornode.ast.iter):
        if isinstance(s, ast.Name):
            sd = fm.single_def(s.id, fornode)
            if sd and isinstance(sd[1], ast.Call) and callee_name(sd[1]) in ("sorted", "list", "copy") and sd[1].args \
                    and isinstance(sd[1].args[0], ast.Name):
                drawn.add(sd[1].args[0].id)
            else:
                drawn.add(s.id)
    return drawn <= lists


# ---- geometric budget ----------------------------------------------------------------------------
def rec_geom(ck, fm: FuncModel, loop):
    X = _nonempty_container(loop.test)
    if X is None:
        return None
    nodes = _nodes_in(fm, loop)
    # counter: c = K * c  or  c *= K  or c += K
    counters = []
    for n in nodes:
        if n.kind != "stmt":
            continue
        a = n.ast
        if isinstance(a, ast.Assign) and isinstance(a.targets[0], ast.Name) and isinstance(a.value, ast.BinOp) \
                and isinstance(a.value.op, ast.Mult):
            c = a.targets[0].id
            ops = [a.value.left, a.value.right]
            ks = [o.value for o in ops if isinstance(o, ast.Constant) and isinstance(o.value, int)]
            if any(text(o) == c for o in ops) and ks and ks[0] >= 2:
                counters.append((c, n))
        if isinstance(a, ast.AugAssign) and isinstance(a.target, ast.Name) and isinstance(a.value, ast.Constant) \
                and isinstance(a.value.value, int):
            if (isinstance(a.op, ast.Mult) and a.value.value >= 2) or (isinstance(a.op, ast.Add) and a.value.value >= 1):
                counters.append((a.target.id, n))
    if not counters:
        return None
    c, cn = counters[0]
    hdr = fm.cfg.loop_header[loop]
    tb = _tbranch(fm, loop)
    probs = []
    if hdr.id in _within(fm, loop, tb, {cn.id}):
        probs.append(f"the budget counter `{c}` is not increased on every path to the next iteration")
    # ... and nothing else writes it: a cap (`if c > M: c = M`) stops the growth, and a bound above the cap is never reached
    for n2 in nodes:
        if n2.kind == "stmt" and n2 is not cn and isinstance(n2.ast, (ast.Assign, ast.AugAssign, ast.AnnAssign)):
            tg2 = n2.ast.targets[0] if isinstance(n2.ast, ast.Assign) else n2.ast.target
            if isinstance(tg2, ast.Name) and tg2.id == c:
                probs.append(f"line {n2.lineno}: `{text(n2.ast)[:50]}` also writes the budget counter `{c}`: with a cap or a reset the "
                             f"counter stops growing and the budget test need never fire")
    # initial value positive constant
    pre = [d for d in fm.cfg.reaching_defs(c, hdr) if d.id not in _loop_ids(fm, loop)]
    if not pre or not all(d.kind == "stmt" and isinstance(d.ast, ast.Assign) and _pos_const(d.ast.value) for d in pre):
        probs.append(f"`{c}` does not start from a positive constant")
    # a break whose guard is `len(new) == len(X) and <c-expr> > bound`, new assigned to X on every back path
    brk = None
    for n in nodes:
        if n.kind == "stmt" and isinstance(n.ast, ast.Break):
            for b in fm.cfg.dominators(n):
                if b.kind != "branch" or b.test is None:
                    continue
                t, p = b.test, b.pol
                tnode = fm.cfg.nodes[next(iter(fm.cfg.g.predecessors(b.id)))]
                if isinstance(t, ast.Name):
                    sd0 = fm.single_def(t.id, tnode)     # the whole exit test held in a local
                    if sd0 and sd0[0].id in _loop_ids(fm, loop):
                        t, tnode = sd0[1], sd0[0]
                if p and b.id in _loop_ids(fm, loop) and isinstance(t, ast.BoolOp) and isinstance(t.op, ast.And):
                    vals = []
                    for v in t.values:
                        if isinstance(v, ast.Name):
                            # a local that holds the comparison, evaluated earlier in the same iteration
                            sd_ = fm.single_def(v.id, tnode)
                            if sd_ and sd_[0].id in _loop_ids(fm, loop):
                                v = sd_[1]
                        vals.append(v)
                    eqs = [v for v in vals if isinstance(v, ast.Compare) and isinstance(v.ops[0], ast.Eq)
                           and f"len({X})" in text(v)]
                    gts = [v for v in vals if isinstance(v, ast.Compare) and isinstance(v.ops[0], (ast.Gt, ast.GtE))
                           and any(isinstance(q, ast.Name) and q.id == c for q in ast.walk(v.left))]
                    if eqs and gts and len(vals) == 2:
                        brk = (n, eqs[0], gts[0])
    if brk is None:
        probs.append(f"no exit of the form `len(new) == len({X}) and <budget in {c}> > bound`")
    else:
        n, eq, gt = brk
        new = [s for s in (eq.left, eq.comparators[0]) if f"len({X})" != text(s)]
        newname = new[0].args[0].id if new and isinstance(new[0], ast.Call) and new[0].args and isinstance(new[0].args[0], ast.Name) else None
        bound_names = {q.id for q in ast.walk(gt.comparators[0]) if isinstance(q, ast.Name)}
        if any(_assigns(fm, loop, b) for b in bound_names):
            probs.append("the budget bound changes inside the loop")
        ass = _assigns(fm, loop, X)
        # the same test with the old length remembered: `prev = len(X); X = filter(.., X, ..); if len(X) == prev and ..`
        shape_b = False
        other = [s_ for s_ in (eq.left, eq.comparators[0]) if f"len({X})" != text(s_)]
        if newname is None and other and isinstance(other[0], ast.Name) and ass:
            tn_ = fm.cfg.nodes[next(iter(fm.cfg.g.predecessors(
                next(b_ for b_ in fm.cfg.dominators(n) if b_.kind == "branch" and b_.test is not None and b_.id in _loop_ids(fm, loop)).id)))]
            sdp = fm.single_def(other[0].id, tn_)
            if sdp and text(sdp[1]) == f"len({X})" and sdp[0].id in _loop_ids(fm, loop) \
                    and all(a.kind == "stmt" and isinstance(a.ast, ast.Assign) and isinstance(a.ast.value, ast.Call)
                            and any(text(x_) == X for x_ in list(a.ast.value.args) + [k_.value for k_ in a.ast.value.keywords])
                            and fm.cfg.dominates(sdp[0], a) for a in ass):
                shape_b = True
                newname = X
        if shape_b:
            if hdr.id in _within(fm, loop, tb, {a.id for a in ass}):
                probs.append(f"`{X}` is not replaced on every path to the next iteration")
        elif newname is None or not ass or not all(a.kind == "stmt" and isinstance(a.ast, ast.Assign) and text(a.ast.value) == newname for a in ass):
            probs.append(f"`{X}` is not replaced by the filtered list the exit test compares it with")
        elif hdr.id in _within(fm, loop, tb, {a.id for a in ass}):
            probs.append(f"`{X}` is not replaced on every path to the next iteration")
        # `new` must be the result of a filter of X (not larger)
        if newname and not shape_b:
            sd = [d for d in fm.cfg.reaching_defs(newname, n)]
            okf = all(d.kind == "stmt" and isinstance(d.ast, ast.Assign) and isinstance(d.ast.value, ast.Call)
                      and any(text(a) == X for a in list(d.ast.value.args) + [k.value for k in d.ast.value.keywords]) for d in sd)
            if not okf:
                probs.append(f"`{newname}` is not computed from `{X}`")
    if probs:
        return False, "; ".join(probs)
    return True, f"(len({X}), budget - {c}*len) decreases lexicographically: `{c}` grows geometrically on every iteration"


def _pos_const(v: ast.AST) -> bool:
    if isinstance(v, ast.Constant) and isinstance(v.value, int):
        return v.value >= 1
    if isinstance(v, ast.BinOp) and isinstance(v.op, ast.Pow):
        return _pos_const(v.left) and isinstance(v.right, ast.Constant)
    return False


# ---- retry ---------------------------------------------------------------------------------------
def rec_retry(ck, fm: FuncModel, loop):
    if not (isinstance(loop.test, ast.Constant) and loop.test.value is True):
        return None
    nodes = _nodes_in(fm, loop)
    hdr = fm.cfg.loop_header[loop]
    tb = _tbranch(fm, loop)
    grow = set()
    for n in nodes:
        if n.kind == "stmt" and isinstance(n.ast, ast.Assign) and isinstance(n.ast.targets[0], ast.Name) \
                and isinstance(n.ast.value, ast.BinOp) and isinstance(n.ast.value.op, ast.Add):
            x = n.ast.targets[0].id
            l, r = n.ast.value.left, n.ast.value.right
            for a, b in ((l, r), (r, l)):
                if isinstance(a, ast.Constant) and isinstance(a.value, str) and len(a.value) > 0 and text(b) == x:
                    grow.add(n.id)
    if not any(n.kind == "stmt" and isinstance(n.ast, (ast.Break, ast.Return)) for n in nodes):
        return False, "`while True` without break/return"
    if not grow:
        return False, "the retried value does not change between attempts"
    if hdr.id in _within(fm, loop, tb, grow):
        return False, "an attempt can be repeated with an unchanged key"
    return True, "every failed attempt strictly lengthens the key (finitely many clashes)"


# ------------------------------------------------------------------------------------------ recursion
def recursion(ck: Check) -> None:
    prog = ck.prog
    g = nx.DiGraph()
    for k, outs in prog.repo.callgraph.items():
        for t in outs:
            # a nested def is not "called" by its parent unless referenced; keep real call edges only
            g.add_edge(k, t)
    # real call edges only (drop parent->nested pseudo edges that are not calls)
    real = nx.DiGraph()
    for f in prog.repo.funcs():
        for c, t in prog.repo.calls(f):
            if t and not t.startswith("ext:"):
                real.add_edge(f.key, t, call=c)
        # a closure assigned and later called through a parameter/alias
        for k2, g2 in prog.repo.functions.items():
            if g2.parent is f:
                for n in own_walk(f.node):
                    if isinstance(n, ast.Name) and n.id == g2.name and isinstance(n.ctx, ast.Load):
                        real.add_edge(f.key, k2, call=None)
    cycles = [c for c in nx.strongly_connected_components(real) if len(c) > 1 or any(real.has_edge(k, k) for k in c)]
    for comp in sorted(cycles, key=lambda c: sorted(c)):
        names = sorted(comp)
        fm = prog.model(prog.repo.functions[names[0]])
        ok, why = _recursion_witness(ck, comp)
        ck.ob("REC", fm, fm.f.node, ok, why if ok else f"recursion cycle {[n.split(':')[1] for n in names]} has no "
              f"termination witness: {why}", key="cycle " + " <-> ".join(n.split(":")[1] for n in names))


def _recursion_witness(ck: Check, comp: set[str]) -> tuple[bool, str]:
    prog = ck.prog
    quals = {k.split(":")[1] for k in comp}
    # (a) SCC expansion: recursive expander runs on source-SCC sub-diagrams only when there are >= 2 of them
    if any(q.startswith("expand_source_SCCs") for q in quals):
        fm = prog.fm("biobalm._sd_algorithms.expand_source_SCCs", "expand_source_SCCs")
        calls = [n for n in own_walk(fm.f.node) if isinstance(n, ast.Call) and isinstance(n.func, ast.Name) and n.func.id == "expander"]
        if not calls:
            return False, "expander call not found"
        for c in calls:
            cn = fm.cfgn(c)
            arg = c.args[0] if c.args else None
            # the argument is an element of the list of source_scc_subdiagrams of the current node
            lists = None
            if isinstance(arg, ast.Name):
                for d in fm.cfg.reaching_defs(arg.id, cn):
                    if d.kind == "for" and isinstance(d.ast.iter, ast.Name):
                        lists = d.ast.iter.id
            if lists is None:
                return False, "the nested expander is not applied to an element of the source-SCC sub-diagram list"
            sd = fm.single_def(lists, cn)
            if not (sd and "source_scc_subdiagrams" in text(sd[1])):
                return False, f"`{lists}` is not the list of source-SCC sub-diagrams"
            pc = fm.pc(cn, numeric=set())
            L = f"len({lists})"
            want = logic.Lt("1", L)
            if L not in {t for a in logic.atoms(pc) if a[0] != "b" for t in a[1:]} or not logic.implies(pc, want):
                return False, (f"the nested expansion can run when there are fewer than two source SCCs (path condition "
                               f"{logic.show(pc)}): the sub-diagram is then the whole network again and the recursion never ends")
        return True, "recursion only into >= 2 source-SCC sub-networks (each strictly smaller)"
    # (b) DNF generator: base cases first, recursion on cofactors of a support variable
    if quals == {"optimized_recursive_dnf_generator"}:
        fm = prog.fm("biobalm.petri_net_translation", "optimized_recursive_dnf_generator")
        calls = [n for n in own_walk(fm.f.node) if isinstance(n, ast.Call) and callee_name(n) == "optimized_recursive_dnf_generator"]
        p = fm.f.params()[0]
        for c in calls:
            a = c.args[0] if c.args else None
            from .common import resolve_cached
            a = resolve_cached(fm, a, fm.cfgn(c)) if a is not None else None
            if not (isinstance(a, ast.Call) and callee_name(a) == "r_restrict" and text(a.func.value) == p
                    and isinstance(a.args[0], ast.Dict) and len(a.args[0].keys) == 1):
                return False, "recursive call is not on a cofactor of the argument"
            v = a.args[0].keys[0]
            def from_support(name, at, depth=0):
                if depth > 4:
                    return False
                defs = fm.cfg.reaching_defs(name, at)
                if not defs:
                    return False
                for d in defs:
                    src = d.ast.value if d.kind == "stmt" and isinstance(d.ast, ast.Assign) else (d.ast.iter if d.kind == "for" else None)
                    if src is None:
                        return False
                    if "support_set()" in text(src):
                        continue
                    base = src.value if isinstance(src, ast.Subscript) else src
                    if isinstance(base, ast.Call) and callee_name(base) in ("sorted", "list") and base.args:
                        base = base.args[0]
                    if isinstance(base, ast.Name) and from_support(base.id, d, depth + 1):
                        continue
                    return False
                return True

            ok = isinstance(v, ast.Name) and from_support(v.id, fm.cfgn(c))
            if not ok:
                return False, "the restricted variable is not taken from the support of the argument"
            pc = fm.pc(fm.cfgn(c))
            # base cases: is_false / is_true returns dominate
            need = [logic.B(f"T:{p}.is_false()"), logic.B(f"T:{p}.is_true()")]
        # both base tests must return before the recursive part
        body = fm.f.node.body
        bases = [s for s in body if isinstance(s, ast.If) and any(isinstance(x, ast.Return) for x in ast.walk(s))
                 and ("is_false" in text(s.test) or "is_true" in text(s.test))]
        if len(bases) < 2:
            return False, "constant BDDs are not handled before recursing"
        return True, "recursion on cofactors of a support variable (support strictly shrinks), constants first"
    # (c) depth propagation: recursive call only after a strict increase of the stored depth
    if quals == {"SuccessionDiagram._update_node_depth"}:
        fm = prog.fm("biobalm.succession_diagram", "SuccessionDiagram._update_node_depth")
        calls = [n for n in own_walk(fm.f.node) if isinstance(n, ast.Call) and callee_name(n) == "_update_node_depth"]
        stores = [e for e in fm.field_events() if e.kind == "store" and e.field == "depth"]
        for c in calls:
            cn = fm.cfgn(c)
            if not stores or not all(cn.id in fm.cfg.reach_avoiding(s.cfgn, []) for s in stores) or \
                    not any(fm.cfg.dominates(s.cfgn, cn) for s in stores):
                return False, "depth propagation recurses without having raised a depth first"
            s = next(s for s in stores if fm.cfg.dominates(s.cfgn, cn))
            cur = f"FIELD<self|{s.nid}|depth>"
            vk = fm.key(s.value, s.cfgn)
            pc = fm.pc(s.cfgn, numeric={cur, vk})
            try:
                if not logic.implies(pc, logic.Lt(cur, vk)):
                    return False, ("the recursive propagation is not guarded by a strict increase of the depth: on a "
                                   "diamond-shaped diagram it revisits nodes without bound (or forever on equal depths)")
            except logic.TooBig:
                return False, "guard too complex"
        return True, "depth propagation recurses only after a strict increase (depths are bounded by the longest path)"
    return False, "unknown recursion"
