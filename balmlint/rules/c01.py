"""C01 -- reported attractor seeds correspond one-to-one to the network's attractors (necessary structural clauses)."""

from __future__ import annotations

import ast

from .. import logic
from ..program import FuncModel, call_arg
from ..report import Check
from ..repo import AnalysisError, dotted, own_walk, text
from .common import (SD_MOD, GrowthModel, callee_name, escapes, expanded_assertions, fresh_diagrams, is_empty_list, is_false,
                     is_none, is_true, region_of)
from . import c15

SYM = "biobalm._sd_attractors.attractor_symbolic"

EXPLANATION = (
    "(S1) every state that becomes a seed is a full state: `reduced candidate | node space` (or names produced from an "
    "attractor of the full symbolic graph). (S2) exact-filter protocol of the symbolic seed loop, as def-use/path facts "
    "about the avoid set: it starts as (all candidates) U (child motifs); on every path to the reachability test the "
    "current candidate has been subtracted; on the accept path the closure is united into it before the next "
    "iteration (this is what keeps one seed per attractor); seed and set are recorded on the same path; the loop has "
    "no exit other than the sanctioned shortcut. (S3) shortcuts: a candidate list is stored as seeds only under "
    "`empty or (pseudo-minimal and exactly one)` with pseudo-minimal = not expanded or minimal; the unchecked return of "
    "the last candidate only under seeds_only, no child motifs, last candidate, no seed so far (truth tables). (S4) "
    "every 'attractor-free' mark ([] stored into seeds/sets) outside the core class is justified: by the source "
    "shortcut (all combinations of the source variables become children on the same paths) or by an emptiness test of "
    "the candidates of the sub-diagram node that corresponds to the marked node. (S6) sub-diagrams are only built over "
    "regulator-closed variable sets. (S5) successors are discarded unvisited by the DFS-style drivers only for a permitted "
    "reason (engine shared with C03-G; for attractor-seed expansion: an empty constant-limit probe over the successor's "
    "own net). (S7) a node that is marked expanded with only a part of its successors (sub-diagram "
    "attachment) must be known attractor-free on every path, otherwise its seeds are not exclusive."
)
ASSUMPTIONS = [
    "the NFVS reduction, the clean-block argument and the source-SCC propagation are mathematically right",
    "AEON reachability and attractor algorithms are correct",
    "candidate lists cover all attractors (C08)",
]


def run(ck: Check) -> None:
    s1(ck)
    s2(ck)
    s3(ck)
    s4(ck)
    s6(ck)
    s7(ck)
    from . import c03
    c03.g_dfs(ck, "S5")  # pruning of unvisited successors (shared engine with C03-G)
    ck.floor("S5", 8)
    ck.floor("S1", 3)
    ck.floor("S2", 5)
    ck.floor("S3", 3)
    ck.floor("S4", 3)
    ck.floor("S6", 2)
    ck.floor("S7", 2)


def _cas(ck: Check) -> FuncModel:
    return ck.prog.fm(SYM, "compute_attractors_symbolic")


def _seed_loop(fm: FuncModel):
    loops = [n for n in own_walk(fm.f.node) if isinstance(n, ast.For)
             and any(isinstance(c, ast.Call) and callee_name(c) == "symbolic_attractor_test" for c in ast.walk(n))]
    if len(loops) != 1:
        raise AnalysisError("anchor vanished: seed identification loop of compute_attractors_symbolic")
    return loops[0]


# ------------------------------------------------------------------------------------------ S1
def s1(ck: Check) -> None:
    fm = _cas(ck)
    f = fm.f
    sd_p, node_p = f.params()[0], f.params()[1]
    space_key = f"FIELD<{sd_p}|{node_p}|space>"
    loop = _seed_loop(fm)
    cand = loop.target.elts[-1].id if isinstance(loop.target, ast.Tuple) else text(loop.target)
    seeds_name = None
    for n in own_walk(f.node):
        if isinstance(n, ast.Return) and isinstance(n.value, ast.Tuple) and isinstance(n.value.elts[0], ast.Name):
            seeds_name = n.value.elts[0].id

    def full_state(e: ast.AST, at) -> str | None:
        if isinstance(e, ast.BinOp) and isinstance(e.op, ast.BitOr):
            ks = [fm.key(e.left, at), fm.key(e.right, at)]
            if space_key in ks and any(text(x) == cand for x in (e.left, e.right)):
                return None
            return f"`{text(e)}` is not `<current candidate> | <node space>`"
        return f"`{text(e)}` is a reduced-coordinate state (variables fixed by the node's space are missing)"

    for n in own_walk(f.node):
        if isinstance(n, ast.Call) and isinstance(n.func, ast.Attribute) and n.func.attr == "append" and text(n.func.value) == seeds_name:
            why = full_state(n.args[0], fm.cfgn(n))
            ck.ob("S1", fm, f.stmt_of(n), why is None, "seed = candidate joined with the node space" if why is None else why)
        if isinstance(n, ast.Return) and isinstance(n.value, ast.Tuple) and isinstance(n.value.elts[0], ast.List):
            for e in n.value.elts[0].elts:
                why = full_state(e, fm.cfgn(n))
                ck.ob("S1", fm, n, why is None, "shortcut seed = candidate joined with the node space" if why is None else why)
    # fallback: names come from the full network, attractors from the full symbolic graph
    fb = ck.prog.fm(SYM, "symbolic_attractor_fallback")
    probs = []
    xb = [n for n in own_walk(fb.f.node) if isinstance(n, ast.Call) and callee_name(n) == "xie_beerel"]
    if not xb or not text(xb[0].args[0]).endswith(".symbolic"):
        probs.append("fallback attractors are not computed on the diagram's full symbolic graph")
    nm = [n for n in own_walk(fb.f.node) if isinstance(n, ast.DictComp) and "get_variable_name" in text(n)]
    if not nm or ".network.get_variable_name" not in text(nm[0].key) or nm[0].generators[0].ifs:
        probs.append("fallback seed is not the full valuation renamed through the diagram's network")
    ck.ob("S1", fb, fb.f.node, not probs, "; ".join(probs) if probs else "fallback seeds are full valuations over the network's variables",
          key="fallback seed")
    # the fallback takes the successors' spaces out of its search region whenever the node is expanded (skip nodes included):
    # otherwise the attractors of the successors are reported here as well as in their own nodes
    sd_pf, node_pf = fb.f.params()[0], fb.f.params()[1]
    expf = logic.B(f"T:FIELD<{sd_pf}|{node_pf}|expanded>")
    probs = []
    n_loops = 0
    for lp in own_walk(fb.f.node):
        if isinstance(lp, ast.For) and any(isinstance(c_, ast.Call) and callee_name(c_) == "node_successors" for c_ in ast.walk(lp.iter)):
            n_loops += 1
            pcl = fb.pc(fb.cfg.loop_header[lp])
            try:
                okl = expf[1] in logic.atoms(pcl) and logic.implies(pcl, expf)
                extra_ = [a_ for a_ in logic.atoms(pcl) if a_[0] == "b" and a_[1].startswith("T:FIELD<") and a_ != expf[1]]
            except logic.TooBig:
                okl, extra_ = False, []
            if not okl or extra_:
                probs.append(f"line {lp.lineno}: the successors' spaces are handled under `{logic.show(pcl)[:80]}`, not whenever the node is "
                             f"expanded")
    if n_loops:
        ck.ob("S1", fb, fb.f.node, not probs, ("; ".join(probs) + ": where they are left in, the fallback reports the attractors of the "
              "successors again (every attractor below a skip node twice)") if probs else
              "fallback removes the successors' spaces whenever the node is expanded", key="fallback child spaces")


# ------------------------------------------------------------------------------------------ S2
def s2(ck: Check) -> None:
    fm = _cas(ck)
    f = fm.f
    loop = _seed_loop(fm)
    hdr = fm.cfg.loop_header[loop]
    cand = loop.target.elts[-1].id if isinstance(loop.target, ast.Tuple) else text(loop.target)
    test = next(c for c in ast.walk(loop) if isinstance(c, ast.Call) and callee_name(c) == "symbolic_attractor_test")
    tn = fm.cfgn(test)
    av = test.args[-1] if test.args else None
    if not isinstance(av, ast.Name):
        ck.ob("S2", fm, f.stmt_of(test), False, "the avoid set passed to the reachability test is not a tracked variable")
        return
    A = av.id
    # pivot is the current candidate, on the reduced graph the candidate was encoded in
    piv = test.args[3] if len(test.args) > 3 else None
    ok = isinstance(piv, ast.Name) and piv.id == cand
    ck.ob("S2", fm, f.stmt_of(test), ok, "reachability test starts from the current candidate" if ok else
          f"the reachability test is started from `{text(piv) if piv is not None else '?'}`, not from the current candidate", key="pivot")
    # the child motifs that go into the avoid set are those of every successor, collected whenever the node is expanded
    # (skip nodes and seeds-only calls included): a candidate that can reach a child space is transient, and with an empty
    # list the node also counts as (pseudo-)minimal for the unchecked shortcut
    it0 = loop.iter
    lst0 = text(it0.args[0]) if isinstance(it0, ast.Call) and callee_name(it0) == "enumerate" and it0.args else text(it0)
    enc0 = [c.args[1] for c in own_walk(f.node) if isinstance(c, ast.Call) and callee_name(c) == "state_list_to_bdd" and len(c.args) == 2]
    childs0 = [x for x in enc0 if isinstance(x, ast.Name) and x.id != lst0]
    node_p0 = f.params()[1]
    sd_p0 = f.params()[0]
    for ch in childs0[:1]:
        probs0 = []
        fills = [d for d in fm.cfg.nodes if d.kind == "stmt" and isinstance(d.ast, (ast.Assign, ast.AnnAssign))
                 and text(d.ast.targets[0] if isinstance(d.ast, ast.Assign) else d.ast.target) == ch.id
                 and d.ast.value is not None and not is_empty_list(d.ast.value)]
        exp0 = logic.B(f"T:FIELD<{sd_p0}|{node_p0}|expanded>")
        for d in fills:
            pc0 = fm.pc(d)
            v0 = d.ast.value
            d0 = d
            if isinstance(v0, ast.ListComp) and len(v0.generators) == 1 and not v0.generators[0].ifs and isinstance(v0.generators[0].iter, ast.Name):
                # `children = succs if expanded else []; motifs = [.. for s in children]`: the list is empty where the children are
                sdc = fm.single_def(v0.generators[0].iter.id, d)
                if sdc and isinstance(sdc[1], ast.IfExp):
                    d0, v0 = sdc[0], sdc[1]
            if isinstance(v0, ast.IfExp) and (is_empty_list(v0.body) != is_empty_list(v0.orelse)):
                # `[...] if node["expanded"] else []`
                t0 = fm.translator(d0).f(v0.test)
                pc0 = logic.And(pc0, fm.pc(d0), logic.Not(t0) if is_empty_list(v0.body) else t0)
            try:
                ok0 = exp0[1] in logic.atoms(pc0) and logic.equivalent(pc0, exp0)
            except logic.TooBig:
                ok0 = False
            if not ok0:
                probs0.append(f"line {d.lineno}: the child motifs are collected under `{logic.show(pc0)[:80]}`, not exactly when the node "
                              f"is expanded: where they are left out, a candidate that reaches a successor's space is not refuted and "
                              f"the node counts as minimal for the unchecked shortcut (a transient state is reported as a seed)")
        if fills:
            ck.ob("S2", fm, fills[0].ast, not probs0, "; ".join(probs0) if probs0 else
                  "child motifs collected whenever the node is expanded", key="child motifs collected")
    clo0 = f.stmt_of(test).targets[0].id if isinstance(f.stmt_of(test), ast.Assign) and isinstance(f.stmt_of(test).targets[0], ast.Name) else None
    algebra = _avoid_algebra(fm, loop, test, cand, clo0)
    by_algebra = algebra == []
    alg_probs = algebra or None      # the reading applies and names what is wrong: reported instead of the syntactic forms
    # (i) initial value
    init = [d for d in fm.cfg.reaching_defs(A, hdr) if d.id not in fm.cfg.loop_nodes[loop]]
    probs = []
    if by_algebra:
        pass        # the three parts are shown for the set as it is at the call (below)
    elif alg_probs:
        probs += alg_probs
    elif len(init) != 1 or not (isinstance(init[0].ast, ast.Assign) and isinstance(init[0].ast.value, ast.Call) and callee_name(init[0].ast.value) == "union"):
        probs.append("initial avoid set is not a union of two sets")
    else:
        u = init[0].ast.value
        parts = [u.func.value, u.args[0]]
        kinds = set()
        for p in parts:
            kinds.add(_set_origin(fm, p, init[0], loop))
        if kinds != {"ALLCANDIDATES", "CHILDREN"}:
            probs.append(f"initial avoid set is built from {sorted(k or 'unknown' for k in kinds)}; it must contain every candidate "
                         f"(so that a candidate reaching another candidate is discarded) and every child motif")
    ck.ob("S2", fm, init[0].ast if init else loop, not probs, "; ".join(probs) if probs else
          ("at the call the avoid set = child motifs U untested candidates U attractors found (read as set algebra over the loop)"
           if by_algebra else "avoid set starts as all candidates U child motifs"), key="initial avoid set")
    # (ii) current candidate subtracted on every path to the test
    from .c13 import _within, _tbranch
    subs = []
    for n in fm.cfg.nodes:
        if n.kind == "stmt" and isinstance(n.ast, ast.Assign) and text(n.ast.targets[0]) == A and isinstance(n.ast.value, ast.Call) \
                and callee_name(n.ast.value) == "minus" and text(n.ast.value.func.value) == A:
            s = n.ast.value.args[0]
            sd_ = fm.single_def(s.id, n) if isinstance(s, ast.Name) else None
            v = sd_[1] if sd_ else s
            if isinstance(v, ast.Call) and callee_name(v) == "mk_subspace" and text(v.args[0]) == cand:
                subs.append(n)
    tb = _tbranch(fm, loop)
    ok = by_algebra or alg_probs is not None or (bool(subs) and tn.id not in _within(fm, loop, tb, {s.id for s in subs}))
    ck.ob("S2", fm, f.stmt_of(test), ok, "current candidate removed from the avoid set before its test" if ok else
          "a path reaches the reachability test without removing the current candidate from the avoid set: the candidate "
          "'reaches itself' and every candidate is discarded (attractors lost)", key="subtract current")
    # (iii) closure united on the accept path; (iv) seed and set recorded on the same path
    clo = f.stmt_of(test).targets[0].id if isinstance(f.stmt_of(test), ast.Assign) else None
    unions = [n for n in fm.cfg.nodes if n.kind == "stmt" and isinstance(n.ast, ast.Assign) and text(n.ast.targets[0]) == A
              and isinstance(n.ast.value, ast.Call) and callee_name(n.ast.value) == "union" and text(n.ast.value.func.value) == A
              and clo and text(n.ast.value.args[0]) == clo and n.id in fm.cfg.loop_nodes[loop]]
    apps = [fm.cfgn(c) for c in ast.walk(loop) if isinstance(c, ast.Call) and isinstance(c.func, ast.Attribute) and c.func.attr == "append"]
    probs = []
    if not apps:
        probs.append("no seed is recorded")
    for a in apps:
        pc = fm.pc(a)
        if clo and not logic.implies(pc, logic.Not(logic.B("none:" + clo))):
            probs.append(f"line {a.lineno}: a result is recorded although the candidate may have been refuted (closure is None)")
        if by_algebra or alg_probs:
            continue
        if not unions or hdr.id in _within(fm, loop, a, {u.id for u in unions}) and not any(u.id in fm.cfg.can_reach_avoiding(a, []) for u in unions):
            probs.append(f"line {a.lineno}: the attractor found is not added to the avoid set: a later candidate inside the same "
                         f"attractor is accepted as well (two seeds for one attractor)")
    if apps and unions and not by_algebra and not alg_probs:
        # every accept path passes the union
        first = min(apps, key=lambda x: x.lineno)
        accept_start = next((b for b in fm.cfg.nodes if b.kind == "branch" and b.test is not None and clo and clo in text(b.test)
                             and "None" in text(b.test) and b.id in fm.cfg.loop_nodes[loop]
                             and ((isinstance(b.test.ops[0], ast.Is) and not b.pol) or (isinstance(b.test.ops[0], ast.IsNot) and b.pol))), None)
        if accept_start is not None and hdr.id in _within(fm, loop, accept_start, {u.id for u in unions}):
            probs.append("the accept path can reach the next candidate without uniting the closure into the avoid set: two "
                         "candidates of one cyclic attractor both become seeds")
    if len(apps) >= 2:
        a, b = apps[0], apps[1]
        doms = lambda x: {d.id for d in fm.cfg.dominators(x) if d.kind == "branch"}
        same = (fm.cfg.dominates(a, b) or fm.cfg.dominates(b, a)) and doms(a) == doms(b)
        from .c13 import _within as _w
        # once one is recorded the other must follow before the next candidate
        first, second = (a, b) if fm.cfg.dominates(a, b) else (b, a)
        if not same or hdr.id in _w(fm, loop, first, {second.id}):
            probs.append("seed and attractor set are recorded on different paths: the two lists get out of step")
    ck.ob("S2", fm, loop, not probs, "; ".join(probs) if probs else
          "accepted closure joins the avoid set; seed and set recorded together", key="accept path")
    # loop exits
    probs = []
    for n in ast.walk(loop):
        if isinstance(n, ast.Break):
            probs.append(f"line {n.lineno}: `break` leaves later candidates unexamined")
        if isinstance(n, ast.Continue):
            pc = fm.pc(fm.cfgn(n))
            if clo and not logic.implies(pc, logic.B("none:" + clo)):
                probs.append(f"line {n.lineno}: a candidate is skipped although it was not refuted")
    ck.ob("S2", fm, loop, not probs, "; ".join(probs) if probs else "every candidate is examined unless refuted", key="loop exits")


# ---- the avoid set, read as set algebra -------------------------------------------------------------------------------
# Whatever the bookkeeping (one set that is edited, or parts that are recombined for every candidate), the set handed to
# the reachability test must, at the moment of the call, include (a) every child motif, (b) every candidate that has not
# had its turn yet but not the current one, (c) every attractor found so far. Each set-valued local is described by
#   ch   : includes all child motifs
#   cand : GE = includes the current and all later candidates, GT = all later ones but not the current, NONE
#   fd   : ALL = includes every attractor found so far, OLD = all but the one found in this iteration, NO
# and the loop body is interpreted over these descriptions until the description at the loop head is stable.
_NONE, _GT, _GE = 0, 1, 2
_NO, _OLD, _ALL = 0, 1, 2
# Next to these lower bounds, one upper bound: may the set still hold, as plain candidate states, (E) candidates whose turn
# is over, (C) the current one, (L) later ones?  Child motifs, found attractors and the empty set hold none; the set of all
# candidates holds C and L before the loop and all three inside it; when the next candidate's turn starts, C moves to E and
# L to C.  A refuted candidate that stays in the avoid set refutes the candidates of its own attractor in turn.
_CLEAN = (False, False, False)
_BOTTOM = (False, _NONE, _NO, (True, True, True))


def _avoid_algebra(fm: FuncModel, loop: ast.For, test: ast.Call, cand: str, clo: str | None) -> list[str] | None:
    """[] when the avoid argument of the reachability test provably has the three parts; a list of what is missing
    otherwise; None when the loop body has a shape this reading does not cover."""
    f = fm.f
    av = test.args[-1] if test.args else None
    if av is None or clo is None:
        return None
    hdr = fm.cfg.loop_header[loop]
    found_at_call: list[tuple] = []

    def const_of(e: ast.expr, at, in_loop: bool):
        k = _set_origin(fm, e, at, loop)
        if k == "ALLCANDIDATES":
            return (False, _GE, _NO if in_loop else _ALL, (in_loop, True, True))
        if k == "CHILDREN":
            return (True, _NONE, _NO if in_loop else _ALL, _CLEAN)
        return None

    def ev(e: ast.expr, st: dict, at, in_loop: bool):
        if isinstance(e, ast.Name):
            if e.id == clo:
                return "NEW"
            if e.id in st:
                return st[e.id]
            c = const_of(e, at, in_loop)
            return c if c is not None else _BOTTOM
        if isinstance(e, ast.Call) and isinstance(e.func, ast.Attribute):
            nm = e.func.attr
            if nm == "union" and len(e.args) == 1:
                a, b = ev(e.func.value, st, at, in_loop), ev(e.args[0], st, at, in_loop)
                if a == "NEW" and b == "NEW":
                    return _BOTTOM
                if a == "NEW" or b == "NEW":
                    x = b if a == "NEW" else a
                    return (x[0], x[1], _ALL if x[2] >= _OLD else _NO, x[3])
                return (a[0] or b[0], max(a[1], b[1]), max(a[2], b[2]), tuple(p_ or q_ for p_, q_ in zip(a[3], b[3])))
            if nm == "minus" and len(e.args) == 1:
                a = ev(e.func.value, st, at, in_loop)
                if a == "NEW":
                    return _BOTTOM
                s_ = e.args[0]
                sd_ = fm.single_def(s_.id, at) if isinstance(s_, ast.Name) else None
                v_ = sd_[1] if sd_ else s_
                if isinstance(v_, ast.Call) and callee_name(v_) == "mk_subspace" and v_.args and text(v_.args[0]) == cand:
                    # the current candidate leaves; child motifs and attractors found earlier do not contain it as a rule,
                    # and where they do the test refutes the candidate either way
                    return (a[0], _GT if a[1] >= _GT else _NONE, a[2], (a[3][0], False, a[3][2]))
                return _BOTTOM
            if nm == "mk_empty_colored_vertices":
                return (False, _NONE, _NO if in_loop else _ALL, _CLEAN)
            if nm == "copy" and not e.args:
                return ev(e.func.value, st, at, in_loop)
        c = const_of(e, at, in_loop)
        return c if c is not None else _BOTTOM

    def meet(a, b):
        keys = set(a) & set(b)
        return {k: (a[k][0] and b[k][0], min(a[k][1], b[k][1]), min(a[k][2], b[k][2]), tuple(p_ or q_ for p_, q_ in zip(a[k][3], b[k][3])))
                for k in keys}

    class Unsupported(Exception):
        pass

    def closure_test(t: ast.expr):
        """(True: the branch taken when a closure was found is the body) / False: the orelse / None: not such a test"""
        neg = False
        while isinstance(t, ast.UnaryOp) and isinstance(t.op, ast.Not):
            t, neg = t.operand, not neg
        if isinstance(t, ast.Compare) and len(t.ops) == 1 and isinstance(t.left, ast.Name) and t.left.id == clo \
                and isinstance(t.comparators[0], ast.Constant) and t.comparators[0].value is None:
            is_none_branch = isinstance(t.ops[0], ast.Is)
            return (not is_none_branch) != neg
        return None

    def event(st: dict) -> dict:
        return {k: (v[0], v[1], _OLD if v[2] == _ALL else _NO, v[3]) for k, v in st.items()}

    def run(stmts: list[ast.stmt], st: dict, in_loop: bool, pending: list) -> list[tuple[str, dict]]:
        """pending[0] is True between the call and the test that tells whether a closure was found"""
        cur = dict(st)
        for k, s_ in enumerate(stmts):
            rest = stmts[k + 1:]
            if isinstance(s_, (ast.Assign, ast.AnnAssign)) and getattr(s_, "value", None) is not None:
                tg = s_.targets[0] if isinstance(s_, ast.Assign) else s_.target
                if any(c_ is test for c_ in ast.walk(s_.value)):
                    found_at_call.append(ev(av, cur, fm.cfgn(s_), in_loop))
                    pending[0] = True
                    continue
                if isinstance(tg, ast.Name):
                    v = ev(s_.value, cur, fm.cfgn(s_), in_loop)
                    if v == "NEW":
                        v = _BOTTOM
                    if v != _BOTTOM or tg.id in cur:
                        cur[tg.id] = v
                continue
            if isinstance(s_, ast.If):
                ct = closure_test(s_.test)
                b_st, o_st = dict(cur), dict(cur)
                if ct is not None and pending[0]:
                    if ct:
                        b_st = event(b_st)
                    else:
                        o_st = event(o_st)
                    pb, po = [False], [False]
                else:
                    pb, po = [pending[0]], [pending[0]]
                outs = run(s_.body, b_st, in_loop, pb) + run(s_.orelse, o_st, in_loop, po)
                falls = [x for kd, x in outs if kd == "fall"]
                done = [(kd, x) for kd, x in outs if kd != "fall"]
                if not falls:
                    return done
                nxt = falls[0]
                for x in falls[1:]:
                    nxt = meet(nxt, x)
                pending[0] = (pb[0] or po[0]) and ct is None
                return done + run(rest, nxt, in_loop, pending)
            if isinstance(s_, (ast.For, ast.While)):
                outs = run(s_.body, dict(cur), in_loop, [pending[0]])
                for kd, x in outs:
                    if kd in ("fall", "continue", "break"):
                        cur = meet(cur, x)
                    else:
                        return [(kd, x)] + run(rest, cur, in_loop, pending)
                continue
            if isinstance(s_, ast.Continue):
                return [("continue", cur)]
            if isinstance(s_, ast.Break):
                return [("break", cur)]
            if isinstance(s_, (ast.Return, ast.Raise)):
                return [("return", cur)]
            if isinstance(s_, (ast.Try, ast.With, ast.Match if hasattr(ast, "Match") else ast.Try)):
                raise Unsupported()
            if isinstance(s_, ast.Expr) and any(c_ is test for c_ in ast.walk(s_)):
                raise Unsupported()
        return [("fall", cur)]

    try:
        # before the loop: the plain assignments of the function body, in order
        entry: dict = {}
        for s_ in f.node.body:
            if s_ is loop:
                break
            if isinstance(s_, (ast.Assign, ast.AnnAssign)) and getattr(s_, "value", None) is not None:
                tg = s_.targets[0] if isinstance(s_, ast.Assign) else s_.target
                if isinstance(tg, ast.Name):
                    v = ev(s_.value, entry, fm.cfgn(s_), False)
                    if v != "NEW" and v != _BOTTOM:
                        entry[tg.id] = v
        if loop not in f.node.body:
            return None
        head = dict(entry)
        for _ in range(6):
            found_at_call.clear()
            outs = run(loop.body, dict(head), True, [False])
            nxt = dict(entry)
            for kd, x in outs:
                if kd in ("fall", "continue"):
                    # the next candidate's turn: "later than the current one" now includes the new current one; an
                    # attractor that was found and not taken in stays missing
                    y = {k: (v[0], _GE if v[1] == _GT else v[1], _ALL if v[2] == _ALL else _NO, (v[3][0] or v[3][1], v[3][2], v[3][2]))
                         for k, v in x.items()}
                    nxt = meet(nxt, y)
            if nxt == head:
                break
            head = nxt
        else:
            return None
    except (Unsupported, AnalysisError, RecursionError):
        return None
    if not found_at_call:
        return None
    probs = []
    for v in found_at_call:
        if v == "NEW" or v is None:
            return None
        if not v[0]:
            probs.append("the child motifs are not (known to be) part of the avoid set")
        if v[1] == _GE:
            probs.append("the current candidate is still in the avoid set when its own test starts")
        elif v[1] == _NONE:
            probs.append("the candidates that have not been tested yet are not part of the avoid set")
        if v[2] != _ALL:
            probs.append("an attractor found for an earlier candidate is not part of the avoid set")
        if v[3][0] and v[0] and v[1] != _NONE:
            probs.append("a candidate that was refuted earlier can still be in the avoid set when a later candidate is tested: two "
                         "candidates of one attractor refute each other and the attractor is left without a seed")
    return sorted(set(probs))


def _set_origin(fm: FuncModel, e: ast.AST, at, loop) -> str | None:
    """ALLCANDIDATES: ColoredVertexSet over state_list_to_bdd(ctx, <list the loop iterates>); CHILDREN: ... over the
    reduced child motifs."""
    for _ in range(4):
        if isinstance(e, ast.Name):
            sd_ = fm.single_def(e.id, at)
            if not sd_:
                return None
            at, e = sd_
            continue
        break
    if isinstance(e, ast.Call) and callee_name(e) == "ColoredVertexSet" and len(e.args) == 2:
        b = e.args[1]
        sd_ = fm.single_def(b.id, at) if isinstance(b, ast.Name) else None
        bv = sd_[1] if sd_ else b
        if isinstance(bv, ast.Call) and callee_name(bv) == "state_list_to_bdd" and len(bv.args) == 2:
            lst = text(bv.args[1])
            it = loop.iter
            base = it.args[0] if isinstance(it, ast.Call) and callee_name(it) == "enumerate" else it
            if lst == text(base):
                return "ALLCANDIDATES"
            if "child_motifs" in lst:
                return "CHILDREN"
    return None


# ------------------------------------------------------------------------------------------ S3
def s3(ck: Check) -> None:
    prog = ck.prog
    for q in ("node_attractor_candidates", "node_attractor_seeds"):
        fm = prog.fm(SD_MOD, f"SuccessionDiagram.{q}")
        node_p = [p for p in fm.f.params() if p != "self"][0]
        for e in fm.field_events():
            if e.kind != "store" or e.field != "attractor_seeds" or not isinstance(e.value, ast.Name):
                continue
            v = e.value.id
            # is the value a candidate list (not the result of the symbolic check)?
            defs = fm.cfg.reaching_defs(v, e.cfgn)
            is_cand = any(d.kind == "stmt" and isinstance(d.ast, (ast.Assign, ast.AnnAssign)) and d.ast.value is not None
                          and ("candidates" in text(d.ast.value)) and "symbolic" not in text(d.ast.value) for d in defs)
            if not is_cand:
                continue

            def atomize(x):
                if isinstance(x, ast.Call) and callee_name(x) == "node_is_minimal" and x.args and text(x.args[0]) == node_p:
                    return logic.B("MIN")
                return None

            pc = fm.pc(e.cfgn, atomize=atomize)
            cand_defs = [d for d in defs if d.kind == "stmt" and isinstance(d.ast, (ast.Assign, ast.AnnAssign)) and d.ast.value is not None
                         and ("candidates" in text(d.ast.value)) and "symbolic" not in text(d.ast.value)]
            if len(defs) > 1 and len(cand_defs) == 1 and isinstance(cand_defs[0].ast.value, ast.Name):
                # one store after an if/else (`seeds = candidates` in one arm, the symbolic result in the other): the candidate
                # list gets there under the conditions of its own arm
                pc = logic.And(pc, fm.pc(cand_defs[0], atomize=atomize))
                v = cand_defs[0].ast.value.id
            # `seeds = candidates; node[...] = seeds`: the conditions speak about the list under its first name
            sd_ = fm.single_def(v, e.cfgn)
            if sd_ and isinstance(sd_[1], ast.Name) and \
                    {d.id for d in fm.cfg.reaching_defs(sd_[1].id, e.cfgn)} == {d.id for d in fm.cfg.reaching_defs(sd_[1].id, sd_[0])}:
                v = sd_[1].id
            L = f"len({v})"
            exp = logic.B(f"T:FIELD<self|{node_p}|expanded>")
            ref = logic.Or(logic.Eq(L, "0"), logic.And(logic.Or(logic.Not(exp), logic.B("MIN")), logic.Eq(L, "1")))
            try:
                ok = logic.implies(pc, ref)
            except logic.TooBig:
                ok = False
            ck.ob("S3", fm, e.stmt, ok, "candidates become seeds only if empty, or single in a (pseudo-)minimal node" if ok else
                  f"a candidate list is stored as the node's seeds under `{logic.show(pc)[:200]}`; that is sound only if the "
                  f"list is empty, or has exactly one element in a node that is unexpanded or minimal (candidates may be "
                  f"spurious or several per attractor otherwise)")
    # the unchecked return of the last candidate
    fm = _cas(ck)
    loop = _seed_loop(fm)
    seeds_name = None
    for n in own_walk(fm.f.node):
        if isinstance(n, ast.Return) and isinstance(n.value, ast.Tuple) and isinstance(n.value.elts[0], ast.Name):
            seeds_name = n.value.elts[0].id
    it = loop.iter
    lst = text(it.args[0]) if isinstance(it, ast.Call) and callee_name(it) == "enumerate" else text(it)
    idx = text(loop.target.elts[0]) if isinstance(loop.target, ast.Tuple) else None
    # the list of child motifs: the other list that is encoded into the initial avoid set
    enc = [text(c.args[1]) for c in own_walk(fm.f.node) if isinstance(c, ast.Call) and callee_name(c) == "state_list_to_bdd"
           and len(c.args) == 2]
    child_lists = [x for x in enc if x != lst]
    child = child_lists[0] if len(child_lists) == 1 else "child_motifs_reduced"
    n_ret = 0
    for n in ast.walk(loop):
        if isinstance(n, ast.Return):
            n_ret += 1
            at = fm.cfgn(n)
            pc = fm.pc(at, numeric={idx} if idx else set())
            tr = fm.translator(at, numeric={idx} if idx else set())
            src = f"seeds_only and len({child}) == 0 and len({seeds_name}) == 0"
            if idx:
                start = 0
                if isinstance(it, ast.Call) and callee_name(it) == "enumerate":
                    sv = it.args[1] if len(it.args) > 1 else next((k.value for k in it.keywords if k.arg == "start"), None)
                    if isinstance(sv, ast.Constant) and isinstance(sv.value, int):
                        start = sv.value
                    elif sv is not None:
                        start = None
                if start == 0:
                    src += f" and {idx} == len({lst}) - 1"
                elif start == 1:
                    src += f" and {idx} == len({lst})"
                else:
                    src += f" and {idx} == len({lst}) - 1 + {start}"
            want = tr.f(ast.parse(src, mode="eval").body)
            try:
                ok = logic.implies(pc, want)
            except logic.TooBig:
                ok = False
            ck.ob("S3", fm, n, ok, "last candidate returned unchecked only in a (pseudo-)minimal node without any seed so far" if ok else
                  f"the seed loop returns early under `{logic.show(pc)[:220]}`; sound only when seeds_only, the node has no child "
                  f"motifs, this is the last candidate and no seed was found yet -- otherwise remaining candidates (other "
                  f"attractors of the node) are never examined")
    if n_ret == 0:
        ck.ob("S3", fm, loop, True, "no unchecked shortcut in the seed loop", key="no shortcut")


# ------------------------------------------------------------------------------------------ S4
def s4(ck: Check) -> None:
    prog = ck.prog
    gm = GrowthModel(prog)
    for fm in prog.models():
        fresh = fresh_diagrams(fm)
        done = set()
        for e in fm.field_events():
            if e.kind != "store" or e.field != "attractor_seeds" or not is_empty_list(e.value) or e.diag in fresh:
                continue
            # J2: evidence guard (checked in detail by C15-E4): which sub-diagram node does the evidence talk about?
            guards = []
            for test, pol, b in fm.facts(e.cfgn):
                test, pol = c15.strip_not(test, pol)
                if pol and b.loop is None:
                    tnode = fm.cfg.nodes[next(iter(fm.cfg.g.predecessors(b.id)))]
                    if not c15._is_config_test(fm, test, tnode):
                        guards.append((test, tnode))
            if guards:
                probs = []
                for test, tnode in guards:
                    p = c15.guard_value_ok(fm, test, tnode, prog)
                    probs += p
                    probs += _evidence_corresponds(fm, test, tnode, e)
                ck.ob("S4", fm, e.stmt, not probs, "; ".join(probs[:3]) if probs else
                      f"attractor-free mark of `{e.nid}` justified by the empty candidate set of its sub-diagram counterpart")
                continue
            # J1: source shortcut -- children for all combinations of the sources were created on the same handle
            g = [x for x in gm.events(fm) if (fm.vkey(x.diag_expr, x.cfgn), fm.vkey(x.parent_expr, x.cfgn)) == e.hk]
            probs = []
            if not g:
                probs.append(f"node `{e.nid}` is marked attractor-free without evidence and without the source shortcut")
            else:
                loops = [l for l in fm.cfg.enclosing_loops(g[0].cfgn) if isinstance(l, ast.For)]
                it = loops[0].iter if loops else None
                sd_ = fm.single_def(it.id, fm.cfg.loop_header[loops[0]]) if isinstance(it, ast.Name) else None
                src = sd_[1] if sd_ else it
                X = None
                if isinstance(src, ast.Call) and callee_name(src) == "product" and src.args and text(src.args[0]) == "range(2)":
                    rep = next((k.value for k in src.keywords if k.arg == "repeat"), None)
                    if isinstance(rep, ast.Call) and callee_name(rep) == "len" and rep.args and isinstance(rep.args[0], ast.Name):
                        X = rep.args[0].id
                zipped = X is not None and loops and any(
                    isinstance(c_, ast.Call) and callee_name(c_) == "zip" and len(c_.args) == 2 and text(c_.args[0]) == X
                    and text(c_.args[1]) == text(loops[0].target) for c_ in ast.walk(loops[0]))
                if not zipped:
                    probs.append("children of the shortcut are not all 2^k valuations of the source variables")
                pc = fm.pc(g[0].cfgn, numeric=set())
                LX = f"len({X})"
                if X is None or (not logic.implies(pc, logic.Lt("0", LX)) and not logic.implies(pc, logic.Not(logic.Eq(LX, "0")))):
                    probs.append("the shortcut may run without any source variable (the node would be marked attractor-free and "
                                 "get itself as only child)")
            ck.ob("S4", fm, e.stmt, not probs, "; ".join(probs) if probs else
                  f"attractor-free mark of `{e.nid}` justified by the source shortcut (all source valuations become children)")


def _evidence_corresponds(fm: FuncModel, test: ast.AST, tnode, e) -> list[str]:
    """The emptiness evidence must be about the sub-diagram node that corresponds to the marked node."""
    f = fm.f
    probs = []
    calls = [c for c in ast.walk(test) if isinstance(c, ast.Call) and callee_name(c) in
             ("_has_no_attractor_candidates", "node_attractor_candidates", "node_attractor_seeds")]
    names = [n for n in ast.walk(test) if isinstance(n, ast.Name)]
    if not calls:
        # a flag: find the call in its definition
        for nm in names:
            for d in fm.cfg.reaching_defs(nm.id, tnode):
                if d.kind == "stmt" and isinstance(d.ast, (ast.Assign, ast.AnnAssign)) and d.ast.value is not None:
                    for x in ast.walk(d.ast.value):
                        if isinstance(x, ast.Name):
                            for d2 in fm.cfg.reaching_defs(x.id, d):
                                if d2.kind == "stmt" and isinstance(d2.ast, ast.Assign):
                                    calls += [c for c in ast.walk(d2.ast.value) if isinstance(c, ast.Call) and callee_name(c) in
                                              ("node_attractor_candidates", "node_attractor_seeds")]
    for c in calls:
        if callee_name(c) == "_has_no_attractor_candidates":
            sub, sub_node = c.args[0], c.args[1]
        else:
            sub, sub_node = c.func.value, c.args[0]
        # the sub-diagram node and the marked node must be related: root<->attachment/block node, or same id-map pair
        sn = text(sub_node)
        marked = e.nid
        if sn.endswith(".root()") and text(sub) in sn:
            # evidence about the sub-diagram's root: the marked node must be the node the sub-diagram was made for
            mk = [n for n in own_walk(f.node) if isinstance(n, ast.Assign) and text(n.targets[0]) == text(sub)
                  and isinstance(n.value, ast.Call) and callee_name(n.value) == "component_subdiagram"]
            if mk:
                a = mk[0].value.args[1] if len(mk[0].value.args) > 1 else None
                if a is None or text(a) != marked:
                    probs.append(f"the evidence is about the sub-diagram made for `{text(a) if a is not None else '?'}`, the mark "
                                 f"is put on `{marked}`")
            else:
                # attachment: the root corresponds to the attachment parameter
                if marked not in f.params():
                    probs.append(f"root evidence used to mark `{marked}`, which is not the attachment node")
        else:
            # id-map pair: main id assigned in the same iteration from the same sub-diagram node
            ok = False
            for n in own_walk(f.node):
                if isinstance(n, ast.Assign) and isinstance(n.targets[0], ast.Subscript) and text(n.targets[0].slice) == sn \
                        and text(n.value) == marked:
                    ok = True
            if not ok:
                probs.append(f"emptiness of sub-diagram node `{sn}` is used to mark `{marked}`, which is not its image")
    return probs


# ------------------------------------------------------------------------------------------ S6
def s6(ck: Check) -> None:
    prog = ck.prog
    for fm in prog.models():
        for n in own_walk(fm.f.node):
            if isinstance(n, ast.Call) and callee_name(n) == "component_subdiagram":
                arg = n.args[0] if n.args else None
                cn = fm.cfgn(n)
                ok, why = _bwd_closed(prog, fm, arg, cn, 0)
                ck.ob("S6", fm, fm.f.stmt_of(n), ok, "sub-diagram over a regulator-closed variable set" if ok else
                      f"a sub-diagram is built over `{text(arg) if arg is not None else '?'}`, which is not known to be closed under "
                      f"regulators ({why}): its dynamics would not be independent of the rest of the network")
                # ... and it is the diagram of the component *as percolated to that node*: kept in a table or attribute it
                # would be reused for another node, where the component's update functions (percolated with other values of
                # the upstream variables) and hence its trap spaces differ
                node_a = call_arg(n, 1, "node_id")
                st = fm.f.stmt_of(n)
                up = fm.f.parents.get(n)
                kept = None
                if isinstance(st, ast.Assign) and st.value is n and isinstance(st.targets[0], ast.Subscript):
                    kept = (text(st.targets[0].value), st.targets[0].slice)
                elif isinstance(st, ast.Assign) and st.value is n and isinstance(st.targets[0], ast.Attribute):
                    kept = (text(st.targets[0]), None)
                elif isinstance(up, ast.Call) and isinstance(up.func, ast.Attribute) and up.func.attr == "setdefault" and len(up.args) == 2 \
                        and up.args[1] is n:
                    kept = (text(up.func.value), up.args[0])
                if kept is not None:
                    key_ = kept[1]
                    if isinstance(key_, ast.Name):
                        try:
                            key_ = fm.deref(key_, cn)
                        except AnalysisError:
                            pass
                    names_in_key = {text(x) for x in ast.walk(key_)} if key_ is not None else set()
                    okk = node_a is not None and key_ is not None and text(node_a) in names_in_key
                    ck.ob("S6", fm, st, okk, "stored sub-diagram is keyed by the node it was made for" if okk else
                          f"the component sub-diagram made for node `{text(node_a) if node_a is not None else 'the root'}` is kept in "
                          f"`{kept[0]}` under `{text(key_) if key_ is not None else 'an attribute'}`, which does not name the node: the "
                          f"same variables form a different component in a node that fixes the upstream variables differently, so "
                          f"a reused sub-diagram contributes spaces that are not trap spaces there (spurious and missing minimal trap "
                          f"spaces, attractors counted in the wrong nodes)", key="sub-diagram kept across nodes")


_BW_SEEN: set = set()


def _bwd_closed(prog, fm: FuncModel, e, at, depth) -> tuple[bool, str]:
    if depth == 0:
        _BW_SEEN.clear()
    if e is None or depth > 20:
        return False, "origin too indirect"
    if isinstance(e, ast.Call) and callee_name(e) in ("list", "sorted", "set", "frozenset", "tuple") and e.args:
        return _bwd_closed(prog, fm, e.args[0], at, depth + 1)
    if isinstance(e, ast.Call) and callee_name(e) == "backward_reachable":
        return True, ""
    if isinstance(e, (ast.SetComp, ast.ListComp, ast.GeneratorExp)):
        if e.generators[0].ifs:
            return False, "filtered"
        return _bwd_closed(prog, fm, e.generators[0].iter, at, depth + 1)
    if isinstance(e, ast.Name):
        defs = fm.cfg.reaching_defs(e.id, at)
        if not defs:
            return False, f"`{e.id}` undefined"
        for d in defs:
            if d.kind == "for":
                tgt = d.ast.target
                it = d.ast.iter
                while isinstance(it, ast.Call) and callee_name(it) in ("sorted", "list", "tuple") and len(it.args) == 1:
                    it = it.args[0]
                if isinstance(it, ast.Name):
                    # element of a list of (block, nodes) pairs or of source SCC lists
                    r = _list_of_closed(prog, fm, it.id, d, depth + 1)
                    if not r[0]:
                        return r
                    continue
                if isinstance(it, ast.Call) and callee_name(it) == "source_SCCs":
                    if not _source_sccs_closed(prog):
                        return False, "source_SCCs no longer keeps only components equal to their backward closure"
                    continue
                return False, f"iterates `{text(it)[:40]}`"
            if d.kind == "entry":
                return False, f"parameter `{e.id}`"
            v = d.ast.value if d.kind == "stmt" and isinstance(d.ast, (ast.Assign, ast.AnnAssign)) else None
            if v is None:
                return False, "opaque binding"
            r = _bwd_closed(prog, fm, v, d, depth + 1)
            if not r[0]:
                return r
        return True, ""
    return False, f"`{text(e)[:40]}`"


def _source_sccs_closed(prog) -> bool:
    """every list that source_SCCs returns holds the names of a component X under the condition
    backward_reachable(X) == X (read symbolically: loop + append and comprehension + filter are the same thing)"""
    from .symstr import SymEval
    import re as _re
    g = prog.fm("biobalm.interaction_graph_utils", "source_SCCs")
    se = SymEval(g)
    rets = [r for r in own_walk(g.f.node) if isinstance(r, ast.Return) and r.value is not None]
    if not rets:
        return False
    for r in rets:
        col = se.collection(r.value, g.cfgn(r))
        if not col:
            return False
        for el, cnd in col:
            m = _re.match(r"^map\((\w+)\.get_variable_name\(elem\((.+)\)\),(.+)\)$", el)
            if not m:
                return False
            X = m.group(3)
            if m.group(2) != X:
                return False
            want = logic.B("eq:" + "|".join(sorted([f"{m.group(1)}.backward_reachable({X})", X])))
            if want[1] not in logic.atoms(cnd) or not logic.implies(cnd, want):
                return False
    return True


def _list_expr_closed(prog, fm: FuncModel, v, d, depth):
    """the list expression `v` is made of other lists of closed sets: a name, either arm of a conditional expression, a
    sorted/list/tuple copy, or a selection `[x for x in xs if ...]`.  None: not of this shape."""
    if depth > 20:
        return False, "too deep"
    if isinstance(v, ast.Name):
        return _list_of_closed(prog, fm, v.id, d, depth + 1)
    if isinstance(v, ast.IfExp):
        for br in (v.body, v.orelse):
            r = _list_expr_closed(prog, fm, br, d, depth + 1)
            if r is None:
                return False, ""
            if not r[0]:
                return r
        return True, ""
    if isinstance(v, ast.Call) and callee_name(v) in ("sorted", "list", "tuple", "reversed") and len(v.args) == 1 \
            and isinstance(v.args[0], (ast.Name, ast.IfExp, ast.ListComp, ast.Call)):
        if isinstance(v.args[0], ast.Call) and callee_name(v.args[0]) not in ("sorted", "list", "tuple", "reversed"):
            return None
        return _list_expr_closed(prog, fm, v.args[0], d, depth + 1)
    if isinstance(v, ast.ListComp) and len(v.generators) == 1 and isinstance(v.generators[0].iter, (ast.Name, ast.IfExp)) \
            and ast.dump(v.elt) == ast.dump(v.generators[0].target).replace("Store()", "Load()"):
        # a selection of elements of another such list
        return _list_expr_closed(prog, fm, v.generators[0].iter, d, depth + 1)
    return None


def _list_of_closed(prog, fm: FuncModel, name: str, at, depth) -> tuple[bool, str]:
    """`name` is a list whose elements are (tuples starting with) regulator-closed variable sets."""
    if depth > 20:
        return False, "too deep"
    for d in fm.cfg.reaching_defs(name, at):
        if (name, d.id) in _BW_SEEN:
            continue  # cyclic provenance (a list rebuilt from its own elements)
        _BW_SEEN.add((name, d.id))
        v = d.ast.value if d.kind == "stmt" and isinstance(d.ast, (ast.Assign, ast.AnnAssign)) else None
        if v is None:
            return False, f"`{name}` opaque"
        if is_empty_list(v):
            continue
        r = _list_expr_closed(prog, fm, v, d, depth)
        if r is not None:
            if not r[0]:
                return (False, r[1] or f"`{name}` = `{text(v)[:40]}`")
            continue
        if isinstance(v, ast.Call) and callee_name(v) == "source_SCCs":
            if not _source_sccs_closed(prog):
                return False, "source_SCCs no longer keeps only components equal to their backward closure"
            continue
        vv = v.args[0] if isinstance(v, ast.Call) and callee_name(v) in ("list", "sorted", "tuple") and len(v.args) == 1 else v
        if isinstance(vv, ast.Call) and callee_name(vv) == "values" and isinstance(vv.func, ast.Attribute) \
                and isinstance(vv.func.value, ast.Name) and not vv.args:
            # list(groups.values()) with groups[key] = (block, [nodes]): the first component of every stored value
            Dn = vv.func.value.id
            n_st = 0
            okd = True
            for n_ in own_walk(fm.f.node):
                if isinstance(n_, ast.Assign) and len(n_.targets) == 1 and isinstance(n_.targets[0], ast.Subscript) \
                        and text(n_.targets[0].value) == Dn:
                    n_st += 1
                    first_ = n_.value.elts[0] if isinstance(n_.value, ast.Tuple) and n_.value.elts else n_.value
                    r = _bwd_closed(prog, fm, first_, fm.cfgn(n_), depth + 1)
                    if not r[0]:
                        return r
                elif isinstance(n_, ast.Call) and isinstance(n_.func, ast.Attribute) and text(n_.func.value) == Dn \
                        and n_.func.attr in ("update", "setdefault", "__setitem__"):
                    okd = False
            if n_st and okd:
                continue
            return False, f"`{name}` = `{text(v)[:40]}`"
        if isinstance(v, ast.ListComp) and len(v.generators) == 1 and not v.generators[0].ifs:
            # [(set(block), nodes) for block, nodes in groups.items()]: the keys of a grouping dictionary
            g_ = v.generators[0]
            it_ = g_.iter
            first = v.elt.elts[0] if isinstance(v.elt, ast.Tuple) and v.elt.elts else v.elt
            while isinstance(first, ast.Call) and callee_name(first) in ("set", "frozenset", "list", "sorted", "tuple") and len(first.args) == 1:
                first = first.args[0]
            key_t = g_.target.elts[0] if isinstance(g_.target, ast.Tuple) and g_.target.elts else None
            if isinstance(it_, ast.Call) and callee_name(it_) == "items" and isinstance(it_.func, ast.Attribute) \
                    and isinstance(it_.func.value, ast.Name) and isinstance(first, ast.Name) and isinstance(key_t, ast.Name) \
                    and first.id == key_t.id:
                r = _dict_keys_closed(prog, fm, it_.func.value.id, d, depth + 1)
                if not r[0]:
                    return r
                continue
        return False, f"`{name}` = `{text(v)[:40]}`"
    # appended elements
    for n in own_walk(fm.f.node):
        if isinstance(n, ast.Call) and isinstance(n.func, ast.Attribute) and n.func.attr == "append" and text(n.func.value) == name:
            a = n.args[0]
            first = a.elts[0] if isinstance(a, ast.Tuple) else a
            r = _bwd_closed(prog, fm, first, fm.cfgn(n), depth + 1)
            if not r[0]:
                return r
    return True, ""


def _dict_keys_closed(prog, fm: FuncModel, name: str, at, depth) -> tuple[bool, str]:
    """every key ever stored in the local dictionary `name` is a regulator-closed variable set"""
    for d in fm.cfg.reaching_defs(name, at):
        v = d.ast.value if d.kind == "stmt" and isinstance(d.ast, (ast.Assign, ast.AnnAssign)) else None
        if not (isinstance(v, ast.Dict) and not v.keys or isinstance(v, ast.Call) and callee_name(v) in ("dict", "OrderedDict", "defaultdict")
                and not any(isinstance(a_, (ast.Dict, ast.Name)) for a_ in v.args)):
            return False, f"`{name}` does not start as an empty dictionary"
    n_keys = 0
    for n in own_walk(fm.f.node):
        key = None
        if isinstance(n, ast.Subscript) and isinstance(n.ctx, ast.Store) and text(n.value) == name:
            key = n.slice
        elif isinstance(n, ast.Call) and isinstance(n.func, ast.Attribute) and text(n.func.value) == name:
            if n.func.attr == "setdefault" and n.args:
                key = n.args[0]
            elif n.func.attr in ("update", "__setitem__"):
                return False, f"`{name}` filled by {n.func.attr}"
        if key is not None:
            n_keys += 1
            r = _bwd_closed(prog, fm, key, fm.cfgn(n), depth + 1)
            if not r[0]:
                return r
    return (True, "") if n_keys else (False, f"`{name}` has no keys")


# ------------------------------------------------------------------------------------------ S7
def s7(ck: Check) -> None:
    """Nodes that are marked expanded with a partial successor set (functions whose edge parents come from an id
    map: sub-diagram attachment) must be marked attractor-free on every path."""
    prog = ck.prog
    gm = GrowthModel(prog)
    for fm in prog.models():
        if fm.f.key in gm.wrappers:
            continue
        evs = gm.events(fm)
        unresolved = [g for g in evs if not any(e.kind == "store" and e.hk == (fm.vkey(g.diag_expr, g.cfgn), fm.vkey(g.parent_expr, g.cfgn))
                                                for e in fm.field_events())]
        if not unresolved:
            continue
        fresh = fresh_diagrams(fm)
        for e in fm.field_events():
            if e.kind != "store" or e.field != "expanded" or not is_true(e.value) or e.diag in fresh:
                continue
            loop = region_of(fm, e.cfgn, [e.node.value])
            marks = [x.cfgn for x in fm.field_events() if x.kind == "store" and x.field == "attractor_seeds" and x.hk == e.hk
                     and is_empty_list(x.value)]
            esc = escapes(fm, e.cfgn, marks, loop, need_pre=False)
            ck.ob("S7", fm, e.stmt, esc is None,
                  f"`{e.nid}` gets a partial successor set and is marked attractor-free on every path" if esc is None else
                  f"`{e.nid}` is marked expanded with only the successors copied from one source-SCC sub-diagram, but it is "
                  f"marked attractor-free only conditionally (path reaches {esc}): when the sub-diagram node has a "
                  f"motif-avoidant attractor, the seeds later computed for `{e.nid}` are also found in other nodes that are "
                  f"not among its partial successors (one attractor, two seeds)", key="mark expanded: " + ("a node copied in a loop" if fm.cfg.enclosing_loops(e.cfgn) else "the attachment node"))
