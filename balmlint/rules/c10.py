"""C10 -- Petri-net encoding and network reduction preserve the asynchronous dynamics (encoder consistency)."""

from __future__ import annotations

import ast

from .. import logic
from ..program import FuncModel, call_arg
from ..report import Check
from ..repo import AnalysisError, dotted, own_walk, text
from .common import callee_name, is_empty_list, is_false, is_none, is_true

PN = "biobalm.petri_net_translation"
SP = "biobalm.space_utils"

EXPLANATION = (
    "(A) network_to_petrinet pairs the implicants of `f and not x` with up-transitions and of `not f and x` with "
    "down-transitions, one place pair (zero, one) per variable, free inputs get no transitions. (B) _create_transitions, "
    "evaluated for go_up in {True, False} with the tuple model places[name] = (zero place, one place): an up-transition "
    "consumes the zero place and produces the one place, a down-transition the reverse; every other literal of the "
    "implicant is a read arc (both directions) on the place indexed by its value; the changed variable's own literal is "
    "skipped; every implicant yields a transition. (C) optimized_recursive_dnf_generator recurses on both cofactors of a "
    "support variable and extends each clause with the literal of its own cofactor (Shannon pairing), constants first. "
    "(D) restrict_petrinet_to_subspace removes, for each fixed variable, the transitions that produce a token in either "
    "of its places without consuming it from that same place, all transitions that consume the inverse place, and both "
    "places, on a deep copy. (E) percolate_network: a free input is replaced by the constant given by the space exactly "
    "when the (percolated) space mentions it (membership, not truthiness); other variables get their update function "
    "restricted to the percolated space; constants are removed only on request."
)
ASSUMPTIONS = [
    "equality of the encoded transition relation with the update functions on all states needs BDD evaluation and is not decided",
    "AEON's r_restrict, to_expression and inline_constants are correct",
]


def run(ck: Check) -> None:
    a(ck)
    b(ck)
    c(ck)
    d(ck)
    e(ck)
    f_(ck)
    ck.floor("F", 2)
    ck.floor("A", 3)
    ck.floor("B", 3)
    ck.floor("C", 3)
    ck.floor("D", 3)
    ck.floor("E", 2)


def _ct_roles(callee: FuncModel) -> dict[str, str]:
    """the parameters of _create_transitions by what is done with them (robust to reordering / keyword-only / renaming)"""
    f = callee.f
    ps = f.params()
    roles: dict[str, str] = {}
    for n in own_walk(f.node):
        if isinstance(n, ast.Call) and callee_name(n) == "optimized_recursive_dnf_generator" and n.args and isinstance(n.args[0], ast.Name) \
                and n.args[0].id in ps:
            roles["bdd"] = n.args[0].id
        if isinstance(n, ast.Call) and callee_name(n) == "add_node":
            for k in n.keywords:
                if k.arg == "change" and isinstance(k.value, ast.Name) and k.value.id in ps:
                    roles["var"] = k.value.id
    for n in own_walk(f.node):
        if isinstance(n, ast.Subscript) and isinstance(n.value, ast.Name) and n.value.id in ps and "var" in roles \
                and text(n.slice) == roles["var"]:
            roles["places"] = n.value.id
    # the direction flag: a parameter that is tested as a Boolean
    for n in own_walk(f.node):
        t = n.test if isinstance(n, (ast.If, ast.IfExp)) else None
        while isinstance(t, ast.UnaryOp) and isinstance(t.op, ast.Not):
            t = t.operand
        if isinstance(t, ast.Name) and t.id in ps and t.id not in roles.values():
            roles["up"] = t.id
    if "up" not in roles and "go_up" in ps:
        roles["up"] = "go_up"
    if set(roles) != {"bdd", "var", "places", "up"}:
        raise AnalysisError(f"anchor vanished: roles of the parameters of _create_transitions ({roles})")
    return roles


def a(ck: Check) -> None:
    """network_to_petrinet, read symbolically: what is passed to _create_transitions and stored in the place table."""
    from .symstr import SymEval
    fm = ck.prog.fm(PN, "network_to_petrinet")
    f = fm.f
    net = f.params()[0]
    se = SymEval(fm)
    VAR = f"elem({net}.variables())"
    calls = [n for n in own_walk(f.node) if isinstance(n, ast.Call) and callee_name(n) == "_create_transitions"]
    callee = ck.prog.fm(PN, "_create_transitions")
    cps = callee.f.params()
    roles = _ct_roles(callee)
    probs = []
    seen = set()
    places_tok = None
    for c in calls:
        cn = fm.cfgn(c)
        arg = {p_: se.val(call_arg(c, i, p_), cn) if call_arg(c, i, p_) is not None else None for i, p_ in enumerate(cps)}
        upv = call_arg(c, cps.index(roles["up"]), roles["up"])
        bdd = arg.get(roles["bdd"])
        places_tok = arg.get(roles["places"])
        # F = BDD of the update function of VAR, X = BDD of VAR, in one symbolic context
        def attr_call(x, name):
            return isinstance(x, ast.Call) and isinstance(x.func, ast.Attribute) and x.func.attr == name

        def strip_not(x, at):
            x, at = fm.deref_at(x, at)
            if attr_call(x, "l_not") and not x.args:
                y, at2 = fm.deref_at(x.func.value, at)
                return y, at2, True
            return x, at, False
        e0, at0 = fm.deref_at(call_arg(c, cps.index(roles["bdd"]), roles["bdd"]), cn)
        if not (attr_call(e0, "l_and") and len(e0.args) == 1):
            probs.append(f"transitions are built from `{bdd}`, which is not a conjunction of the update function and the variable")
            continue
        L, atL, notL = strip_not(e0.func.value, at0)
        R, atR, notR = strip_not(e0.args[0], at0)
        if attr_call(L, "mk_network_variable"):
            L, atL, notL, R, atR, notR = R, atR, notR, L, atL, notL
        notf, notx = notL, notR
        okF = attr_call(L, "mk_update_function") and len(L.args) == 1
        uf = fm.deref_at(L.args[0], atL)[0] if okF else None
        okF = okF and attr_call(uf, "get_update_function") and len(uf.args) == 1
        okX = attr_call(R, "mk_network_variable") and len(R.args) == 1
        if not (okF and okX):
            probs.append(f"transitions are built from `{bdd}`, which is not a conjunction of the update function and the variable")
            continue
        ufat = fm.deref_at(L.args[0], atL)[1]
        same = se.val(L.func.value, atL) == se.val(R.func.value, atR) and se.val(uf.func.value, ufat) == net \
            and se.val(uf.args[0], ufat) == VAR and se.val(R.args[0], atR) == VAR
        if not same:
            probs.append("update function, variable BDD and variable name are not taken from the same variable of the same network")
        if is_true(upv):
            seen.add(True)
            if notf or not notx:
                probs.append(f"up-transitions are built from `{bdd}`, expected f AND NOT x")
        elif is_false(upv):
            seen.add(False)
            if not notf or notx:
                probs.append(f"down-transitions are built from `{bdd}`, expected NOT f AND x")
        else:
            probs.append("go_up is not a constant")
        if arg.get(roles["var"]) != f"{net}.get_variable_name({VAR})":
            probs.append("transitions are created for another variable")
        pc = se.cond(cn, local=True)
        if not logic.equivalent(pc, logic.Not(logic.B(f"none:{net}.get_update_function({VAR})"))):
            probs.append(f"transitions are created under `{logic.show(pc)}`; expected: for every variable that has an update function")
    if seen != {True, False}:
        probs.append("both directions are not generated")
    ck.ob("A", fm, calls[0] if calls else f.node, not probs, "; ".join(sorted(set(probs))) if probs else "up = f & !x, down = !f & x",
          key="direction pairing")
    # the place table
    probs = []
    E = f"elem({net}.variable_names())"
    pl = [n for n in own_walk(f.node) if isinstance(n, ast.Assign) and isinstance(n.targets[0], ast.Subscript)
          and places_tok is not None and se.val(n.targets[0].value, fm.cfgn(n)) == places_tok]
    if len(pl) != 1:
        probs.append("the place table is not filled at one place")
    else:
        cn = fm.cfgn(pl[0])
        if se.val(pl[0].targets[0].slice, cn) != E or se.val(pl[0].value, cn) != f"(P({E},False),P({E},True))" or logic.atoms(se.cond(cn, local=True)):
            probs.append(f"places[{se.val(pl[0].targets[0].slice, cn)}] = {se.val(pl[0].value, cn)}; expected (zero place, one place) of every variable")
    adds = [n for n in own_walk(f.node) if isinstance(n, ast.Call) and callee_name(n) == "add_node"
            and any(k.arg == "kind" and isinstance(k.value, ast.Constant) and k.value.value == "place" for k in n.keywords)]
    declared = {se.val(x.args[0], fm.cfgn(x)) for x in adds if x.args and not logic.atoms(se.cond(fm.cfgn(x), local=True))}
    if declared != {f"P({E},True)", f"P({E},False)"}:
        probs.append("both places of every variable are not declared as kind='place'")
    ck.ob("A", fm, pl[0] if pl else f.node, not probs, "; ".join(probs) if probs else "one (zero, one) place pair per variable", key="places")
    probs = []
    san = [n for n in own_walk(f.node) if isinstance(n, ast.Call) and callee_name(n) == "sanitize_network_names"]
    if not san or not any(k.arg == "check_only" and is_true(k.value) for k in san[0].keywords):
        probs.append("unsanitised variable names are not refused")
    ck.ob("A", fm, san[0] if san else f.node, not probs, "; ".join(probs) if probs else "per-variable data consistent; names checked",
          key="per variable")


def _spec_model(prog, fm: FuncModel, env: dict) -> FuncModel:
    from .. import peval
    from ..repo import Func
    node = peval.specialise(fm.f.node, {k: v for k, v in env.items() if k in fm.f.params()})
    return FuncModel(prog, Func(fm.f.module, fm.f.qualname, node, fm.f.cls, fm.f.parent))


def b(ck: Check) -> None:
    """_create_transitions, specialised to go_up = True / False and read symbolically: which arcs are created between
    which places and the transition, and under which condition."""
    from .symstr import SymEval
    fm = ck.prog.fm(PN, "_create_transitions")
    f = fm.f
    ps = f.params()
    roles = _ct_roles(fm)
    places_p, var_p, bdd_p, up_p = roles["places"], roles["var"], roles["bdd"], roles["up"]
    move_probs, read_probs, impl_probs = [], [], []
    tnames = {}
    for up in (True, False):
        g = _spec_model(ck.prog, fm, {up_p: up})
        se = SymEval(g)
        label = "an up-transition" if up else "a down-transition"
        nodes_t = [n for n in own_walk(g.f.node) if isinstance(n, ast.Call) and callee_name(n) == "add_node"
                   and any(k.arg == "kind" and isinstance(k.value, ast.Constant) and k.value.value == "transition" for k in n.keywords)]
        if len(nodes_t) != 1:
            impl_probs.append("transition nodes are not created at one place (kind='transition')")
            continue
        tn = nodes_t[0]
        T = se.val(tn.args[0], g.cfgn(tn)) if tn.args else "?"
        tnames[up] = T
        chg = next((k.value for k in tn.keywords if k.arg == "change"), None)
        if chg is None or se.val(chg, g.cfgn(tn)) != var_p:
            impl_probs.append("transition nodes are not tagged change=<variable>")
        loops = [l for l in g.cfg.enclosing_loops(g.cfgn(tn)) if isinstance(l, ast.For)]
        gen = se.val(loops[-1].iter, g.cfg.loop_header[loops[-1]]) if loops else ""
        if not loops or f"optimized_recursive_dnf_generator({bdd_p})" not in gen or gen.replace("enumerate(", "").rstrip(")") != \
                f"optimized_recursive_dnf_generator({bdd_p})".rstrip(")"):
            impl_probs.append(f"transitions are created for `{gen}`, not for every implicant of the BDD")
        elif any(isinstance(x, ast.Break) for x in ast.walk(loops[-1])) or g.cond(g.cfgn(tn)) if False else False:
            pass
        if loops and any(isinstance(x, ast.Break) and g.cfg.enclosing_loops(g.cfgn(x))[0] is loops[-1] for x in ast.walk(loops[-1])):
            impl_probs.append("not every implicant of the BDD yields a transition")
        if se.cond(g.cfgn(tn)) != logic.TRUE and logic.atoms(se.cond(g.cfgn(tn))):
            impl_probs.append(f"a transition is created only under `{logic.show(se.cond(g.cfgn(tn)))}`")
        if var_p not in T or "index(" not in T:
            impl_probs.append("transition names are not unique per (variable, direction, implicant)")
        IMP = f"elem(optimized_recursive_dnf_generator({bdd_p}))"
        arcs = []
        for e in own_walk(g.f.node):
            if isinstance(e, ast.Call) and callee_name(e) == "add_edge" and len(e.args) >= 2:
                cn = g.cfgn(e)
                arcs.append((se.val(e.args[0], cn), se.val(e.args[1], cn), se.cond(cn)))
        zero, one = f"idx(idx({places_p},{var_p}),0)", f"idx(idx({places_p},{var_p}),1)"
        src, dst = (zero, one) if up else (one, zero)
        move = {(a_, b_) for a_, b_, c_ in arcs if not logic.atoms(c_)}
        if move != {(src, T), (T, dst)}:
            move_probs.append(f"{label} has the unconditional arcs {sorted(move)}; expected: take the token from the "
                              f"{'zero' if up else 'one'} place, put it into the {'one' if up else 'zero'} place")
        reads = [(a_, b_, c_) for a_, b_, c_ in arcs if logic.atoms(c_)]
        NAME = None
        for a_, b_, c_ in reads:
            other = a_ if b_ == T else b_
            pre = f"idx(idx({places_p},"
            suf = f"),idx({IMP},elem({IMP})))"
            if not ((a_ == T) != (b_ == T)) or not (other.startswith(pre) and other.endswith(suf)):
                read_probs.append(f"{label}: arc ({a_} -> {b_}) is not a read arc on the place indexed by a literal's value")
                continue
            NAME = other[len(pre):-len(suf)]
            if f"get_variable_name(elem({IMP}))" not in NAME:
                read_probs.append("literal variable is not translated to its name")
            want = logic.Not(logic.Eq(*sorted([NAME, var_p]))) if False else logic.Not(logic.B("eq:" + "|".join(sorted([NAME, var_p]))))
            if not logic.equivalent(c_, want):
                read_probs.append(f"{label}: a condition literal gets its arc under `{logic.show(c_)}`; exactly the changed "
                                  f"variable's own literal must be skipped")
        dirs = {(a_ == T) for a_, b_, c_ in reads}
        if reads and dirs != {True, False}:
            read_probs.append(f"{label}: condition literals need a read arc in both directions (place -> t and t -> place)")
        if not reads:
            read_probs.append(f"{label}: the other literals of the implicant create no arcs")
    if len(set(tnames.values())) != 2:
        impl_probs.append("up- and down-transitions are not named differently")
    ck.ob("B", fm, f.node, not move_probs, "; ".join(sorted(set(move_probs))) if move_probs else "up: zero -> t -> one; down: one -> t -> zero",
          key="token move")
    ck.ob("B", fm, f.node, not read_probs, "; ".join(sorted(set(read_probs))) if read_probs else
          "other literals: read arcs on places[var][value]", key="read arcs")
    ck.ob("B", fm, f.node, not impl_probs, "; ".join(sorted(set(impl_probs))) if impl_probs else
          "one uniquely named transition per implicant", key="implicants")


def c(ck: Check) -> None:
    fm = ck.prog.fm(PN, "optimized_recursive_dnf_generator")
    f = fm.f
    p = f.params()[0]
    loops = [n for n in f.node.body if isinstance(n, ast.For) and "optimized_recursive_dnf_generator" in text(n.iter)]
    probs = []
    vals = set()
    for lp in loops:
        c = lp.iter
        a = c.args[0] if c.args else None
        from .common import resolve_cached
        a = resolve_cached(fm, a, fm.cfg.loop_header[lp]) if a is not None else None
        if not (isinstance(a, ast.Call) and callee_name(a) == "r_restrict" and text(a.func.value) == p and isinstance(a.args[0], ast.Dict)):
            probs.append("recursion is not on a cofactor of the argument")
            continue
        var, val = text(a.args[0].keys[0]), a.args[0].values[0]
        st = [s for s in lp.body if isinstance(s, ast.Assign) and isinstance(s.targets[0], ast.Subscript)]
        ys = [s for s in ast.walk(lp) if isinstance(s, ast.Yield)]
        if not (isinstance(val, ast.Constant) and isinstance(val.value, bool)):
            probs.append("cofactor value is not a Boolean constant")
            continue
        vals.add(val.value)
        if len(st) != 1 or text(st[0].targets[0].value) != text(lp.target) or text(st[0].targets[0].slice) != var \
                or not (isinstance(st[0].value, ast.Constant) and st[0].value.value is val.value):
            probs.append(f"clauses of the cofactor {var}={val.value} are extended with `{text(st[0]) if st else 'nothing'}`: the literal must "
                         f"carry the cofactor's own value (otherwise transitions fire under the opposite condition)")
        if len(ys) != 1 or text(ys[0].value) != text(lp.target):
            probs.append("extended clause is not yielded")
    if vals != {True, False}:
        probs.append("both cofactors must be expanded")
    ck.ob("C", fm, loops[0] if loops else f.node, not probs, "; ".join(probs) if probs else "Shannon expansion with matching literals", key="cofactors")
    probs = []
    body = f.node.body
    base = [s for s in body if isinstance(s, ast.If)]
    if len(base) < 2 or "is_false" not in text(base[0].test) or "is_true" not in text(base[1].test):
        probs.append("constant BDDs are not handled first (false: no clause, true: the empty clause)")
    else:
        if any(isinstance(x, ast.Yield) for x in ast.walk(base[0])):
            probs.append("a clause is produced for the constant false")
        if not any(isinstance(x, ast.Yield) for x in ast.walk(base[1])):
            probs.append("no clause is produced for the constant true")
    ck.ob("C", fm, f.node, not probs, "; ".join(probs) if probs else "false -> no clause, true -> the empty clause", key="base cases")
    # every consumer up the recursion writes its literal *into* the clause object it receives, so a clause object must
    # have exactly one owner: it is created for this yield or received from the recursive call, and kept nowhere else
    probs = []
    yielded_names = set()
    for y in own_walk(f.node):
        if not isinstance(y, ast.Yield):
            continue
        v = y.value
        if isinstance(v, ast.Call) and isinstance(v.func, ast.Name) and v.func.id[:1].isupper():
            continue      # a fresh object
        if isinstance(v, ast.Name):
            yielded_names.add(v.id)
            defs = fm.cfg.reaching_defs(v.id, fm.cfgn(y))
            okd = bool(defs)
            for d_ in defs:
                if d_.kind == "for" and isinstance(d_.ast.iter, ast.Call) and callee_name(d_.ast.iter) == f.name \
                        and text(d_.ast.target) == v.id:
                    continue
                if d_.kind == "stmt" and isinstance(d_.ast, ast.Assign) and isinstance(d_.ast.value, ast.Call) \
                        and isinstance(d_.ast.value.func, ast.Name) and d_.ast.value.func.id[:1].isupper():
                    continue
                okd = False
            if okd:
                continue
        probs.append(f"line {y.lineno}: `{text(y)[:50]}` hands out a clause object that is neither new nor received from the "
                     f"recursive call (e.g. replayed from a table): callers write their literal into it, so literals of an earlier "
                     f"path stay in the clause and the cover loses implicants (transitions go missing)")
    for n in own_walk(f.node):
        if isinstance(n, ast.Call) and isinstance(n.func, ast.Attribute) and n.func.attr in ("append", "add", "extend", "insert", "setdefault") \
                and any(isinstance(x, ast.Name) and x.id in yielded_names for a_ in n.args for x in ast.walk(a_)):
            probs.append(f"line {n.lineno}: `{text(n)[:50]}` keeps a clause object that is also handed to the caller, who modifies it")
        if isinstance(n, ast.Assign) and any(isinstance(t, ast.Subscript) for t in n.targets) and \
                any(isinstance(x, ast.Name) and x.id in yielded_names for x in ast.walk(n.value)):
            probs.append(f"line {n.lineno}: `{text(n)[:50]}` keeps a clause object that is also handed to the caller, who modifies it")
    ck.ob("C", fm, f.node, not probs, "; ".join(probs) if probs else
          "each yielded clause object is new or comes straight from the recursive call, and is retained nowhere", key="clause ownership")


def d(ck: Check) -> None:
    """restrict_petrinet_to_subspace, read symbolically (loops over literal place tuples unrolled): which nodes are removed
    from which graph, under which conditions."""
    from .. import peval
    from ..repo import Func
    from .symstr import SymEval
    fm = ck.prog.fm(PN, "restrict_petrinet_to_subspace")
    f = fm.f
    pn_p, sp_p = f.params()[0], f.params()[1]
    node = peval.specialise(f.node, {}, unroll=True)
    g = FuncModel(ck.prog, Func(f.module, f.qualname, node, f.cls, f.parent))
    se = SymEval(g, pol_tables=True)
    VAL = f"idx({sp_p},elem({sp_p}))"
    FIX = f"P(elem({sp_p}),{{0:F,1:T}}@{VAL})"
    INV = f"P(elem({sp_p}),{{0:T,1:F}}@{VAL})"
    # an independent copy of the net: deepcopy, or the graph's own copy() (new adjacency and attribute dictionaries; the
    # restriction only removes nodes)
    R = f"copy.deepcopy({pn_p})"
    for r_ in own_walk(g.f.node):
        if isinstance(r_, ast.Return) and r_.value is not None and se.val(r_.value, g.cfgn(r_)) == f"{pn_p}.copy()":
            R = f"{pn_p}.copy()"
    both = logic.And(logic.B(f"in:{FIX}|{R}"), logic.B(f"in:{INV}|{R}"))
    removed = []   # (what, condition, cfg node)
    for c in own_walk(g.f.node):
        if isinstance(c, ast.Call) and isinstance(c.func, ast.Attribute) and c.func.attr in ("remove_node", "remove_nodes_from") and c.args:
            cn = g.cfgn(c)
            tgt = se.val(c.func.value, cn)
            if c.func.attr == "remove_nodes_from" and isinstance(c.args[0], (ast.List, ast.Tuple, ast.Set)):
                for x_ in c.args[0].elts:
                    removed.append((tgt, se.val(x_, cn), se.cond(cn), cn))
                continue
            what = se.val(c.args[0], cn)
            if c.func.attr == "remove_nodes_from":
                what = f"elem({what})"
            removed.append((tgt, what, se.cond(cn), cn))
    probs = []
    rets = [r for r in own_walk(g.f.node) if isinstance(r, ast.Return)]
    if not rets or any(se.val(r.value, g.cfgn(r)) != R for r in rets):
        probs.append("the function does not return a deep copy of the given net")
    if any(t != R for t, _, _, _ in removed):
        probs.append("the restriction does not work on a deep copy: the caller's net (shared by other nodes) is modified")
    places = {w: c_ for _, w, c_, _ in removed if w.startswith("P(")}
    if set(places) != {FIX, INV}:
        probs.append(f"removed places are {sorted(places)}; expected the place of the fixed value and the place of the opposite value")
    else:
        for w, c_ in places.items():
            if not logic.equivalent(c_, both):
                probs.append(f"a place of a fixed variable is removed under `{logic.show(c_)[:120]}`; expected: whenever both places "
                             f"are still in the net")
    ck.ob("D", fm, f.node, not probs, "; ".join(probs) if probs else "deep copy; fixed and inverse place of each fixed variable removed",
          key="setup")
    # the transitions that are removed
    probs1, probs2 = [], []
    sets = [(w, c_, None) for _, w, c_, _ in removed if w.startswith("elem(acc[")]
    if not sets:
        # the set is an expression over several pieces (`producers | consumers`, one of them a comprehension)
        for c in own_walk(g.f.node):
            if isinstance(c, ast.Call) and isinstance(c.func, ast.Attribute) and c.func.attr in ("remove_node", "remove_nodes_from") and c.args:
                cn = g.cfgn(c)
                src = None
                if c.func.attr == "remove_nodes_from":
                    src, at_ = c.args[0], cn
                elif isinstance(c.args[0], ast.Name):
                    lps_ = [l for l in g.cfg.enclosing_loops(cn) if isinstance(l, ast.For) and text(l.target) == c.args[0].id]
                    if lps_:
                        src, at_ = lps_[0].iter, g.cfg.loop_header[lps_[0]]
                if src is not None:
                    y_, _ = g.deref_at(src, at_)
                    if isinstance(y_, ast.BinOp) or (isinstance(y_, ast.Call) and callee_name(y_) == "union"):
                        col = se.collection(src, at_)
                        if col is not None:
                            sets.append((None, se.cond(cn), [(el, logic.And(se.cond(cn), cd), cn) for el, cd in col]))
    if len(sets) != 1:
        probs1.append("the transitions to delete are not collected in one set that is removed as a whole")
    else:
        w, c_, contrib = sets[0]
        if not logic.equivalent(c_, both):
            probs1.append("collected transitions are not always removed")
        if contrib is None:
            tok = w[len("elem("):-1]
            contrib = se.contributions(tok)
        want = {
            f"elem(preds({FIX}))": logic.And(both, logic.Not(logic.B(f"T:{R}.has_edge({FIX},elem(preds({FIX})))"))),
            f"elem(preds({INV}))": logic.And(both, logic.Not(logic.B(f"T:{R}.has_edge({INV},elem(preds({INV})))"))),
            f"elem(succs({INV}))": both,
        }
        got = {}
        for el, cnd, cn in contrib:
            got.setdefault(el, []).append(cnd)
        for el, wc in want.items():
            bucket = probs2 if el.startswith("elem(succs") else probs1
            if el not in got:
                if el.startswith("elem(succs"):
                    bucket.append("all transitions that need the opposite value (consumers/readers of the inverse place) must be "
                                  "removed")
                else:
                    bucket.append(f"transitions that produce a token in `{'the fixed' if FIX in el else 'the inverse'}` place are not "
                                  f"removed (each place tested against itself)")
                continue
            total = logic.Or(*got[el])
            if not logic.equivalent(total, wc):
                bucket.append(f"transitions from `{el[:40]}...` are deleted under `{logic.show(total)[:160]}`; expected "
                              f"`{logic.show(wc)[:160]}`: only a transition that takes the token back from the same place is a "
                              f"mere reader; every consumer of the inverse place must go")
        for el in got:
            if el not in want:
                probs2.append(f"`{el[:80]}` is deleted too: only producers of the variable's places and consumers of the inverse "
                              f"place may be removed")
    ck.ob("D", fm, f.node, not probs1, "; ".join(probs1) if probs1 else
          "transitions changing the fixed variable removed (producers that do not also consume, per place)", key="producers")
    ck.ob("D", fm, f.node, not probs2, "; ".join(probs2) if probs2 else
          "consumers of the inverse place removed, nothing else", key="consumers and places")


def e(ck: Check) -> None:
    """percolate_network, read symbolically along the paths of the per-variable loop: which update function is stored for
    a variable under which condition."""
    from .common import enumerate_paths
    from .c13 import _tbranch
    from .symstr import SymEval
    fm = ck.prog.fm(SP, "percolate_network")
    f = fm.f
    bn_p, space_p = f.params()[0], f.params()[1]
    se = SymEval(fm)
    sets = [n for n in own_walk(f.node) if isinstance(n, ast.Call) and callee_name(n) == "set_update_function" and len(n.args) == 2]
    if not sets:
        raise AnalysisError("anchor vanished: percolate_network no longer stores update functions")
    lps = [l for l in fm.cfg.enclosing_loops(fm.cfgn(sets[0])) if isinstance(l, ast.For)]
    if not lps:
        raise AnalysisError("anchor vanished: per-variable loop of percolate_network")
    lp = lps[-1]
    VAR = se.val(lp.target, fm.cfg.loop_header[lp]) if not isinstance(lp.target, ast.Name) else None
    hdr = fm.cfg.loop_header[lp]
    tb = _tbranch(fm, lp)
    VAR = f"elem({se.val(lp.iter, hdr)})"
    probs_in, probs_fn = [], []
    # every call gets to the per-variable loop: a `return` before it claims "nothing to percolate" on grounds that nothing
    # here proves (declared regulators say nothing about constants: `y -?? x`, `$x: y & !y`)
    from .common import escapes as _esc
    e0 = _esc(fm, fm.cfg.entry, [hdr], None, need_pre=False)
    if e0 is not None:
        probs_fn.append(f"a path returns before the loop over the variables (reaches {e0}): the network is handed back without being "
                        f"percolated")
    if se.val(lp.iter, hdr) != f"{bn_p}.variables()":
        probs_fn.append(f"the loop ranges over `{se.val(lp.iter, hdr)}`, not over all variables of the network")
    U = logic.B(f"none:{bn_p}.get_update_function({VAR})")
    NAME = f"{bn_p}.get_variable_name({VAR})"
    # the percolated space
    per = [n for n in own_walk(f.node) if isinstance(n, ast.Call) and callee_name(n) == "percolate_space"]
    SPACE = se.val(per[0], fm.cfgn(per[0])) if per else "?"
    if not per or not SPACE.endswith(f",{space_p})"):
        probs_fn.append("the space is not percolated before the functions are restricted")
    INSP = logic.B(f"in:{NAME}|{SPACE}")

    def walk(path):
        """conditions and last definitions along a path of CFG node ids"""
        facts, last = [], {}
        for i in path:
            n = fm.cfg.nodes[i]
            if n.kind == "stmt" and isinstance(n.ast, ast.Assign) and len(n.ast.targets) == 1 and isinstance(n.ast.targets[0], ast.Name):
                x = n.ast.targets[0].id
                last[x] = n
                facts = [(fl, rd) for fl, rd in facts if x not in rd]
                v = n.ast.value
                if isinstance(v, ast.Constant) and v.value is None:
                    facts.append((logic.B(f"none:{x}"), {x}))
                elif isinstance(v, ast.Call) and (callee_name(v)[:1].isupper() or callee_name(v).startswith("mk_")):
                    facts.append((logic.Not(logic.B(f"none:{x}")), {x}))   # constructors do not return None
            if n.kind == "branch" and n.test is not None:
                tnode = fm.cfg.nodes[next(iter(fm.cfg.g.predecessors(n.id)))]
                names = {x.id for x in ast.walk(n.test) if isinstance(x, ast.Name)}
                multi = {x for x in names if len(fm.cfg.reaching_defs(x, tnode)) > 1}
                key = (lambda e_, t_=tnode, m_=multi: text(e_) if isinstance(e_, ast.Name) and e_.id in m_ else se.val(e_, t_))
                ff = logic.Translator(key).f(n.test)
                facts.append((ff if n.pol else logic.Not(ff), names & multi))
        return logic.And(*[fl for fl, _ in facts]), last

    seen_const = seen_fn = False
    for c in sets:
        cn = fm.cfgn(c)
        tgt = se.val(c.func.value, cn)
        if se.val(c.args[0], cn) != VAR:
            probs_fn.append("an update function is stored for another variable than the one being processed")
        for path in enumerate_paths(fm, tb, cn, stop={hdr.id}):
            hyp, last = walk(path)
            if not logic.satisfiable(hyp):
                continue
            a = c.args[1]
            if isinstance(a, ast.Name) and a.id in last:
                vtok = se.val(last[a.id].ast.value, last[a.id])
            else:
                vtok = se.val(a, cn)
            if logic.implies(hyp, U):
                seen_const = True
                if not logic.implies(hyp, INSP):
                    probs_in.append(f"a free input becomes a constant under `{logic.show(hyp)[:160]}`; expected: it has no update "
                                    f"function and the percolated space mentions it (a value of 0 is a value too)")
                if vtok != f"UpdateFunction.mk_const({tgt},idx({SPACE},{NAME}))":
                    probs_in.append(f"a free input is replaced by `{vtok[:100]}`, not by the constant the space gives to it")
            elif logic.implies(hyp, logic.Not(U)):
                seen_fn = True
                import re
                ok = re.match(r"^UpdateFunction\(" + re.escape(tgt) + r",restrict_expression\(" +
                              re.escape(f"{bn_p}.get_update_function({VAR}).as_expression()") + "," + re.escape(SPACE) + r"(,.*)?\)\)$", vtok)
                if not ok:
                    probs_fn.append(f"the update function is replaced by `{vtok[:140]}`; expected its restriction to the percolated space")
            else:
                probs_fn.append(f"an update function is stored under `{logic.show(hyp)[:120]}`, which does not say whether the "
                                f"variable is a free input")
    # paths that store nothing: only free inputs that the space does not mention
    for path in enumerate_paths(fm, tb, hdr, stop={fm.cfgn(c).id for c in sets}):
        hyp, _ = walk(path)
        if logic.satisfiable(hyp) and not logic.implies(hyp, logic.And(U, logic.Not(INSP))):
            if logic.satisfiable(logic.And(hyp, U)):
                probs_in.append(f"a free input keeps its free update function under `{logic.show(hyp)[:140]}` although the space may fix "
                                f"it (membership, not truthiness, decides)")
            if logic.satisfiable(logic.And(hyp, logic.Not(U))):
                probs_fn.append("the update function of some variable is not restricted to the percolated space")
    if not seen_const:
        probs_in.append("free inputs fixed by the space are not turned into constants")
    if not seen_fn:
        probs_fn.append("update functions are not rewritten")
    ck.ob("E", fm, sets[0], not probs_in, "; ".join(sorted(set(probs_in))) if probs_in else "free input -> constant iff fixed by the space",
          key="free inputs")
    rc = [n for n in own_walk(f.node) if isinstance(n, ast.Call) and callee_name(n) == "inline_constants"]
    if rc:
        pc = fm.pc(fm.cfgn(rc[0]))
        if not logic.equivalent(pc, logic.B("T:remove_constants")):
            probs_fn.append("constants are removed although not requested (or kept although requested)")
    ck.ob("E", fm, sets[-1], not probs_fn, "; ".join(sorted(set(probs_fn))) if probs_fn else
          "every function restricted to the percolated space; constants removed on request only", key="functions")


def _remainder_of_parent(fm: FuncModel, v_, d_, c, cn, want: str) -> bool:
    """`{k: v for k, v in node_space.items() if k not in P["space"]}` as the restricting space, where the base net is P's own
    cached net on the same path: P's net has already lost the variables P fixes, and the node's space extends P's, so only the
    remainder is left to eliminate. Anything else (the edge motif, another node's space) is not accepted."""
    import re as _re
    if not (isinstance(v_, ast.DictComp) and len(v_.generators) == 1 and len(v_.generators[0].ifs) == 1):
        return False
    g = v_.generators[0]
    if not (isinstance(g.target, ast.Tuple) and len(g.target.elts) == 2 and all(isinstance(e, ast.Name) for e in g.target.elts)
            and isinstance(v_.key, ast.Name) and isinstance(v_.value, ast.Name)
            and (v_.key.id, v_.value.id) == (g.target.elts[0].id, g.target.elts[1].id)):
        return False
    it = g.iter
    if not (isinstance(it, ast.Call) and isinstance(it.func, ast.Attribute) and it.func.attr == "items" and not it.args
            and fm.key(it.func.value, d_) == want):
        return False
    t = g.ifs[0]
    if not (isinstance(t, ast.Compare) and len(t.ops) == 1 and isinstance(t.ops[0], ast.NotIn) and isinstance(t.left, ast.Name)
            and t.left.id == v_.key.id):
        return False
    m = _re.match(r"^FIELD<self\|(\w+)\|space>$", fm.key(t.comparators[0], d_) or "")
    if not m:
        return False
    b0 = call_arg(c, 0, "petri_net")
    if not isinstance(b0, ast.Name):
        return False
    # at the definition of the space the base is P's cached net ...
    vals = list(fm.value_defs(b0.id, d_))
    for _ in range(3):
        nxt = []
        for d2, v2 in vals:
            if isinstance(v2, ast.Name) and v2.id not in fm.f.params():
                nxt += list(fm.value_defs(v2.id, d2))
            else:
                nxt.append((d2, v2))
        vals = nxt
    if not vals or any(v2 is None or fm.key(v2, d2) != f"FIELD<self|{m.group(1)}|percolated_petri_net>" for d2, v2 in vals):
        return False
    # ... and stays so up to the call
    between = fm.cfg.reach_avoiding(d_, []) & fm.cfg.can_reach_avoiding(cn, [])
    for i in between:
        a_ = fm.cfg.nodes[i].ast if fm.cfg.nodes[i].kind == "stmt" else None
        if a_ is not None and any(isinstance(y, ast.Name) and y.id == b0.id and isinstance(y.ctx, ast.Store) for y in ast.walk(a_)):
            return False
    return True


def f_(ck: Check) -> None:
    """The reduced net / network cached for a node is the restriction to that node's own (percolated) space, whichever
    base (the global one or the parent's cached one) the restriction starts from."""
    SD = "biobalm.succession_diagram"
    for q, callee, argi, argn in (("SuccessionDiagram.node_percolated_petri_net", "restrict_petrinet_to_subspace", 1, "sub_space"),
                                  ("SuccessionDiagram.node_percolated_network", "percolate_network", 1, "space")):
        fm = ck.prog.fm(SD, q)
        f = fm.f
        node_p = [p_ for p_ in f.params() if p_ != "self"][0]
        want = f"FIELD<self|{node_p}|space>"
        calls = [n for n in own_walk(f.node) if isinstance(n, ast.Call) and callee_name(n) == callee]
        if not calls:
            raise AnalysisError(f"anchor vanished: {callee} call in {q}")
        for c in calls:
            cn = fm.cfgn(c)
            a = call_arg(c, argi, argn)
            probs = []
            if a is None:
                probs.append("no space given")
            else:
                vals = [(d_, v_) for d_, v_ in fm.value_defs(a.id, cn)] if isinstance(a, ast.Name) else [(cn, a)]
                for d_, v_ in vals:
                    k = fm.key(v_, d_) if v_ is not None else "?"
                    if k != want and callee == "restrict_petrinet_to_subspace" and _remainder_of_parent(fm, v_, d_, c, cn, want):
                        continue
                    if k != want:
                        probs.append(f"line {getattr(d_, 'lineno', c.lineno)}: the restriction uses `{text(v_)[:50] if v_ is not None else '?'}`, "
                                     f"not the node's own space: variables fixed by percolation (or by the rest of the space) stay "
                                     f"in the reduced object when this path is taken")
            if callee == "restrict_petrinet_to_subspace":
                # the base is the global net or the cached net of the node's parent (a net over a *super*space of the node);
                # a net picked from any other node may already have lost places of variables that are free here
                import re as _re
                b0 = call_arg(c, 0, "petri_net")
                bvals = [(d_, v_) for d_, v_ in fm.value_defs(b0.id, cn)] if isinstance(b0, ast.Name) else [(cn, b0)]
                for _ in range(3):      # a base held in a second local (`base = parent_net` under `parent_net is not None`)
                    nxt_ = []
                    for d_, v_ in bvals:
                        if isinstance(v_, ast.Name) and v_.id not in f.params():
                            nxt_ += [(d2, v2) for d2, v2 in fm.value_defs(v_.id, d_)]
                        else:
                            nxt_.append((d_, v_))
                    bvals = nxt_
                bvals = [(d_, v_) for d_, v_ in bvals if not (v_ is not None and is_none(v_))]   # None is no base at all
                for d_, v_ in bvals:
                    if v_ is None:
                        probs.append("the base net has an opaque origin")
                        continue
                    for arm in ([v_.body, v_.orelse] if isinstance(v_, ast.IfExp) else [v_]):
                        while isinstance(arm, ast.IfExp):
                            arm = arm.body if text(arm.orelse) == "self.petri_net" else arm.orelse
                        k = fm.key(arm, d_)
                        if k == "self.petri_net":
                            continue
                        m_ = _re.match(r"^FIELD<self\|(\w+)\|percolated_petri_net>$", k)
                        okb = False
                        if m_:
                            okb = True
                            for pd in fm.cfg.reaching_defs(m_.group(1), d_):
                                if pd.kind == "entry" and m_.group(1) in f.params():
                                    continue
                                pv = pd.ast.value if pd.kind == "stmt" and isinstance(pd.ast, (ast.Assign, ast.AnnAssign)) else None
                                if pv is not None and fm.key(pv, pd) == f"FIELD<self|{node_p}|parent_node>":
                                    continue
                                okb = False
                        if not okb:
                            probs.append(f"line {getattr(d_, 'lineno', c.lineno)}: the restriction starts from `{text(arm)[:60]}`, which is "
                                         f"neither the global net nor the cached net of the node's (given or recorded) parent: a net of "
                                         f"another node need not be over a superspace, and what it has lost cannot be restored")
            if callee == "percolate_network":
                # the node's network is over the free variables only: the fixed ones are removed, not kept as constants
                g = ck.prog.fm("biobalm.space_utils", "percolate_network")
                gp = g.f.params()
                rc = call_arg(c, gp.index("remove_constants"), "remove_constants") if "remove_constants" in gp else None
                if "remove_constants" not in gp:
                    raise AnalysisError("anchor vanished: remove_constants parameter of percolate_network")
                if not is_true(rc):
                    probs.append(f"remove_constants is `{text(rc) if rc is not None else 'left at its default'}`: the node's network "
                                 f"keeps the fixed variables as constants, so it is not an encoding over the free variables "
                                 f"(and disagrees with the node's restricted Petri net, NFVS and candidate search)")
            ck.ob("F", fm, f.stmt_of(c), not probs, "; ".join(probs) if probs else
                  "restricted to the node's own space on every path", key=f"{q.split('.')[1]} space")
