"""C10 -- Petri-net encoding and network reduction preserve the asynchronous dynamics (encoder consistency)."""

from __future__ import annotations

import ast

from .. import logic
from ..program import FuncModel, call_arg
from ..report import Check
from ..repo import AnalysisError, dotted, own_walk, text
from .common import callee_name, is_empty_list, is_false, is_none, is_true

PN = "biobalm.petri_net_translation"
SP = "biobalm.space_utils"

EXPLANATION = (
    "(A) network_to_petrinet pairs the implicants of `f and not x` with up-transitions and of `not f and x` with "
    "down-transitions, one place pair (zero, one) per variable, free inputs get no transitions. (B) _create_transitions, "
    "evaluated for go_up in {True, False} with the tuple model places[name] = (zero place, one place): an up-transition "
    "consumes the zero place and produces the one place, a down-transition the reverse; every other literal of the "
    "implicant is a read arc (both directions) on the place indexed by its value; the changed variable's own literal is "
    "skipped; every implicant yields a transition. (C) optimized_recursive_dnf_generator recurses on both cofactors of a "
    "support variable and extends each clause with the literal of its own cofactor (Shannon pairing), constants first. "
    "(D) restrict_petrinet_to_subspace removes, for each fixed variable, the transitions that produce a token in either "
    "of its places without consuming it from that same place, all transitions that consume the inverse place, and both "
    "places, on a deep copy. (E) percolate_network: a free input is replaced by the constant given by the space exactly "
    "when the (percolated) space mentions it (membership, not truthiness); other variables get their update function "
    "restricted to the percolated space; constants are removed only on request."
)
ASSUMPTIONS = [
    "equality of the encoded transition relation with the update functions on all states needs BDD evaluation and is not decided",
    "AEON's r_restrict, to_expression and inline_constants are correct",
]


def run(ck: Check) -> None:
    a(ck)
    b(ck)
    c(ck)
    d(ck)
    e(ck)
    ck.floor("A", 3)
    ck.floor("B", 3)
    ck.floor("C", 2)
    ck.floor("D", 3)
    ck.floor("E", 2)


def a(ck: Check) -> None:
    fm = ck.prog.fm(PN, "network_to_petrinet")
    f = fm.f
    bd = {}
    for n in own_walk(f.node):
        if isinstance(n, ast.Assign) and isinstance(n.targets[0], ast.Name) and isinstance(n.value, ast.Call) and callee_name(n.value) == "l_and":
            bd[n.targets[0].id] = text(n.value)
    calls = [n for n in own_walk(f.node) if isinstance(n, ast.Call) and callee_name(n) == "_create_transitions"]
    probs = []
    seen = set()
    for c in calls:
        up = next((k.value for k in c.keywords if k.arg == "go_up"), c.args[5] if len(c.args) > 5 else None)
        bdd = c.args[4] if len(c.args) > 4 else None
        src = bd.get(text(bdd), "")
        if is_true(up):
            seen.add(True)
            if src != "function_bdd.l_and(var_bdd.l_not())":
                probs.append(f"up-transitions are built from `{src or text(bdd)}`, expected f AND NOT x")
        elif is_false(up):
            seen.add(False)
            if src != "function_bdd.l_not().l_and(var_bdd)":
                probs.append(f"down-transitions are built from `{src or text(bdd)}`, expected NOT f AND x")
        else:
            probs.append("go_up is not a constant")
        if text(c.args[3]) != "var_name" or text(c.args[2]) != "places":
            probs.append("transitions are created for another variable / place table")
    if seen != {True, False}:
        probs.append("both directions are not generated")
    ck.ob("A", fm, calls[0] if calls else f.node, not probs, "; ".join(probs) if probs else "up = f & !x, down = !f & x", key="direction pairing")
    probs = []
    pl = [n for n in own_walk(f.node) if isinstance(n, ast.Assign) and isinstance(n.targets[0], ast.Subscript) and text(n.targets[0].value) == "places"]
    if len(pl) != 1 or text(pl[0].value) != "(n_name, p_name)":
        probs.append("places[name] is not (zero place, one place)")
    nn = {text(n.targets[0]): n.value for n in own_walk(f.node) if isinstance(n, ast.Assign) and text(n.targets[0]) in ("p_name", "n_name")}
    for nm, pol in (("p_name", True), ("n_name", False)):
        v = nn.get(nm)
        kw = next((k.value for k in v.keywords if k.arg == "positive"), v.args[1] if v is not None and len(v.args) > 1 else None) if isinstance(v, ast.Call) else None
        if not (isinstance(kw, ast.Constant) and kw.value is pol):
            probs.append(f"{nm} is not variable_to_place(name, positive={pol})")
    adds = [n for n in own_walk(f.node) if isinstance(n, ast.Call) and callee_name(n) == "add_node" and 'kind' in text(n)]
    if len(adds) != 2 or not all("'place'" in text(x) for x in adds):
        probs.append("both places of every variable are not declared as kind='place'")
    ck.ob("A", fm, pl[0] if pl else f.node, not probs, "; ".join(probs) if probs else "one (zero, one) place pair per variable", key="places")
    # the update function and the variable BDD come from the same variable
    probs = []
    uf = [n for n in own_walk(f.node) if isinstance(n, ast.Assign) and text(n.targets[0]) == "update_function"]
    vb = [n for n in own_walk(f.node) if isinstance(n, ast.Assign) and text(n.targets[0]) == "var_bdd"]
    fb = [n for n in own_walk(f.node) if isinstance(n, ast.Assign) and text(n.targets[0]) == "function_bdd"]
    vn = [n for n in own_walk(f.node) if isinstance(n, ast.Assign) and text(n.targets[0]) == "var_name"]
    if not (uf and text(uf[0].value) == "network.get_update_function(var)" and vb and text(vb[0].value) == "symbolic_context.mk_network_variable(var)"
            and fb and text(fb[0].value) == "symbolic_context.mk_update_function(update_function)" and vn and text(vn[0].value) == "network.get_variable_name(var)"):
        probs.append("update function, variable BDD and variable name are not taken from the same variable of the same network")
    san = [n for n in own_walk(f.node) if isinstance(n, ast.Call) and callee_name(n) == "sanitize_network_names"]
    if not san or not any(k.arg == "check_only" and is_true(k.value) for k in san[0].keywords):
        probs.append("unsanitised variable names are not refused")
    ck.ob("A", fm, uf[0] if uf else f.node, not probs, "; ".join(probs) if probs else "per-variable data consistent; names checked", key="per variable")


def b(ck: Check) -> None:
    fm = ck.prog.fm(PN, "_create_transitions")
    f = fm.f
    edges = [n for n in own_walk(f.node) if isinstance(n, ast.Call) and callee_name(n) == "add_edge"]
    table = {True: [], False: [], None: []}
    for e in edges:
        pc = fm.pc(fm.cfgn(e))
        up = logic.B("T:go_up")
        key = None
        if up[1] in logic.atoms(pc):
            if logic.implies(pc, up):
                key = True
            elif logic.implies(pc, logic.Not(up)):
                key = False
        table[key].append((text(e.args[0]), text(e.args[1])))
    probs = []
    want_up = {("places[var_name][0]", "t_name"), ("t_name", "places[var_name][1]")}
    want_dn = {("places[var_name][1]", "t_name"), ("t_name", "places[var_name][0]")}
    if set(table[True]) != want_up:
        probs.append(f"an up-transition has arcs {sorted(table[True])}; expected: take the token from the zero place, put it into the one place")
    if set(table[False]) != want_dn:
        probs.append(f"a down-transition has arcs {sorted(table[False])}; expected: take the token from the one place, put it into the zero place")
    ck.ob("B", fm, f.node, not probs, "; ".join(probs) if probs else "up: zero -> t -> one; down: one -> t -> zero", key="token move")
    probs = []
    read = set(table[None])
    if read != {("places[variable_str][value]", "t_name"), ("t_name", "places[variable_str][value]")}:
        probs.append(f"condition literals create arcs {sorted(read)}; expected a read arc (both directions) on the place indexed by the literal's value")
    lp = [n for n in own_walk(f.node) if isinstance(n, ast.For) and "implicant.items()" in text(n.iter)]
    if len(lp) != 1:
        probs.append("literals of the implicant are not all visited")
    else:
        conts = [n for n in ast.walk(lp[0]) if isinstance(n, ast.Continue)]
        if len(conts) != 1 or text(fm.f.parents[conts[0]].test) not in ("variable_str == var_name", "var_name == variable_str"):
            probs.append("exactly the changed variable's own literal must be skipped")
        vs = [n for n in ast.walk(lp[0]) if isinstance(n, ast.Assign) and text(n.targets[0]) == "variable_str"]
        if not vs or "get_variable_name(variable)" not in text(vs[0].value).replace("\n", ""):
            probs.append("literal variable is not translated to its name")
    ck.ob("B", fm, lp[0] if lp else f.node, not probs, "; ".join(probs) if probs else "other literals: read arcs on places[var][value]", key="read arcs")
    probs = []
    ol = [n for n in own_walk(f.node) if isinstance(n, ast.For) and "optimized_recursive_dnf_generator(implicant_bdd)" in text(n.iter)]
    if len(ol) != 1 or any(isinstance(x, (ast.Break,)) for x in ast.walk(ol[0])):
        probs.append("not every implicant of the BDD yields a transition")
    else:
        an = [n for n in ast.walk(ol[0]) if isinstance(n, ast.Call) and callee_name(n) == "add_node"]
        if not an or "'transition'" not in text(an[0]) or "change=var_name" not in text(an[0]):
            probs.append("transition nodes are not tagged kind='transition', change=<variable>")
        tn = [n for n in ast.walk(ol[0]) if isinstance(n, ast.Assign) and text(n.targets[0]) == "t_name"]
        if not tn or "t_id" not in text(tn[0].value) or "var_name" not in text(tn[0].value) or "dir_str" not in text(tn[0].value):
            probs.append("transition names are not unique per (variable, direction, implicant)")
    ck.ob("B", fm, ol[0] if ol else f.node, not probs, "; ".join(probs) if probs else "one uniquely named transition per implicant", key="implicants")


def c(ck: Check) -> None:
    fm = ck.prog.fm(PN, "optimized_recursive_dnf_generator")
    f = fm.f
    p = f.params()[0]
    loops = [n for n in f.node.body if isinstance(n, ast.For) and "optimized_recursive_dnf_generator" in text(n.iter)]
    probs = []
    vals = set()
    for lp in loops:
        c = lp.iter
        a = c.args[0] if c.args else None
        if not (isinstance(a, ast.Call) and callee_name(a) == "r_restrict" and text(a.func.value) == p and isinstance(a.args[0], ast.Dict)):
            probs.append("recursion is not on a cofactor of the argument")
            continue
        var, val = text(a.args[0].keys[0]), a.args[0].values[0]
        st = [s for s in lp.body if isinstance(s, ast.Assign) and isinstance(s.targets[0], ast.Subscript)]
        ys = [s for s in ast.walk(lp) if isinstance(s, ast.Yield)]
        if not (isinstance(val, ast.Constant) and isinstance(val.value, bool)):
            probs.append("cofactor value is not a Boolean constant")
            continue
        vals.add(val.value)
        if len(st) != 1 or text(st[0].targets[0].value) != text(lp.target) or text(st[0].targets[0].slice) != var \
                or not (isinstance(st[0].value, ast.Constant) and st[0].value.value is val.value):
            probs.append(f"clauses of the cofactor {var}={val.value} are extended with `{text(st[0]) if st else 'nothing'}`: the literal must "
                         f"carry the cofactor's own value (otherwise transitions fire under the opposite condition)")
        if len(ys) != 1 or text(ys[0].value) != text(lp.target):
            probs.append("extended clause is not yielded")
    if vals != {True, False}:
        probs.append("both cofactors must be expanded")
    ck.ob("C", fm, loops[0] if loops else f.node, not probs, "; ".join(probs) if probs else "Shannon expansion with matching literals", key="cofactors")
    probs = []
    body = f.node.body
    base = [s for s in body if isinstance(s, ast.If)]
    if len(base) < 2 or "is_false" not in text(base[0].test) or "is_true" not in text(base[1].test):
        probs.append("constant BDDs are not handled first (false: no clause, true: the empty clause)")
    else:
        if any(isinstance(x, ast.Yield) for x in ast.walk(base[0])):
            probs.append("a clause is produced for the constant false")
        if not any(isinstance(x, ast.Yield) for x in ast.walk(base[1])):
            probs.append("no clause is produced for the constant true")
    ck.ob("C", fm, f.node, not probs, "; ".join(probs) if probs else "false -> no clause, true -> the empty clause", key="base cases")


def d(ck: Check) -> None:
    fm = ck.prog.fm(PN, "restrict_petrinet_to_subspace")
    f = fm.f
    probs = []
    cp = [n for n in own_walk(f.node) if isinstance(n, ast.Assign) and text(n.targets[0]) == "result"]
    if not cp or "deepcopy(petri_net)" not in text(cp[0].value):
        probs.append("the restriction does not work on a deep copy: the caller's net (shared by other nodes) is modified")
    pls = {text(n.targets[0]): n.value for n in own_walk(f.node) if isinstance(n, ast.Assign) and text(n.targets[0]) in ("fixed_place", "inverse_place")}
    okp = "fixed_place" in pls and "inverse_place" in pls and text(pls["fixed_place"]) == "variable_to_place(var, bool(value))" \
        and text(pls["inverse_place"]) == "variable_to_place(var, not bool(value))"
    if not okp:
        probs.append("fixed / inverse place are not the places of the fixed value / the opposite value")
    ck.ob("D", fm, cp[0] if cp else f.node, not probs, "; ".join(probs) if probs else "deep copy; fixed and inverse place of each fixed variable", key="setup")
    # producer loops
    probs = []
    prod = []
    for lp in own_walk(f.node):
        if isinstance(lp, ast.For) and isinstance(lp.iter, ast.Call) and callee_name(lp.iter) == "predecessors":
            place = text(lp.iter.args[0])
            tr = text(lp.target)
            tests = [t for t in ast.walk(lp) if isinstance(t, ast.If)]
            adds = [c for c in ast.walk(lp) if isinstance(c, ast.Call) and callee_name(c) == "add" and "to_delete" in text(c.func.value)]
            if len(tests) != 1 or not adds:
                probs.append(f"producers of {place} are not filtered/collected")
                continue
            t = tests[0].test
            want = f"not result.has_edge({place}, {tr})"
            if text(t) != want:
                probs.append(f"a producer of `{place}` is kept unless `{text(t)}`; expected `{want}`: only a transition that takes the "
                             f"token back from the same place is a mere reader")
            prod.append(place)
    if sorted(prod) != ["fixed_place", "inverse_place"] and sorted(set(prod)) != ["fixed_place", "inverse_place"]:
        # a merged loop over both places is fine if it uses the loop's place in the test
        merged = [lp for lp in own_walk(f.node) if isinstance(lp, ast.For) and isinstance(lp.iter, (ast.Tuple, ast.List))
                  and {text(x) for x in lp.iter.elts} == {"fixed_place", "inverse_place"}]
        ok = False
        for m in merged:
            pv = text(m.target)
            inner = [l for l in ast.walk(m) if isinstance(l, ast.For) and isinstance(l.iter, ast.Call) and callee_name(l.iter) == "predecessors"]
            if inner and text(inner[0].iter.args[0]) == pv:
                tests = [t for t in ast.walk(inner[0]) if isinstance(t, ast.If)]
                if tests and text(tests[0].test) == f"not result.has_edge({pv}, {text(inner[0].target)})":
                    ok = True
                    probs = [p for p in probs if "producer" not in p and "producers" not in p]
        if not ok:
            probs.append("transitions that change the fixed variable are not removed for both of its places (each place tested "
                         "against itself)")
    ck.ob("D", fm, f.node, not probs, "; ".join(probs) if probs else
          "transitions changing the fixed variable removed (producers that do not also consume, per place)", key="producers")
    probs = []
    cons = [lp for lp in own_walk(f.node) if isinstance(lp, ast.For) and isinstance(lp.iter, ast.Call) and callee_name(lp.iter) == "successors"]
    if len(cons) != 1 or text(cons[0].iter.args[0]) != "inverse_place" or any(isinstance(x, ast.If) for x in ast.walk(cons[0])):
        probs.append("all transitions that need the opposite value (consumers/readers of the inverse place) must be removed, and only those")
    rm = [text(n.args[0]) for n in own_walk(f.node) if isinstance(n, ast.Call) and callee_name(n) == "remove_node"]
    if sorted(rm) != ["fixed_place", "inverse_place", "tr"]:
        probs.append(f"removed nodes are {sorted(rm)}; expected the collected transitions and both places")
    skip = [n for n in own_walk(f.node) if isinstance(n, ast.Continue)]
    for s in skip:
        t = fm.f.parents[s].test
        if text(t) != "fixed_place not in result.nodes or inverse_place not in result.nodes":
            probs.append(f"a fixed variable is skipped when `{text(t)}`")
    ck.ob("D", fm, cons[0] if cons else f.node, not probs, "; ".join(probs) if probs else
          "consumers of the inverse place and both places removed", key="consumers and places")


def e(ck: Check) -> None:
    fm = ck.prog.fm(SP, "percolate_network")
    f = fm.f
    probs = []
    sets = [n for n in own_walk(f.node) if isinstance(n, ast.Call) and callee_name(n) == "set_update_function"]
    consts = [c for c in sets if "mk_const" in text(c)]
    others = [c for c in sets if "mk_const" not in text(c)]
    if len(consts) != 1:
        probs.append("free inputs fixed by the space are not turned into constants at one place")
    else:
        c = consts[0]
        pc = fm.pc(fm.cfgn(c))
        want = logic.And(logic.B("none:update"), logic.B("in:name|space"))
        if not logic.equivalent(pc, want):
            probs.append(f"a free input becomes a constant under `{logic.show(pc)}`; expected: it has no update function and the "
                         f"percolated space mentions it (a value of 0 is a value too)")
        if "space[name]" not in text(c):
            probs.append("the constant is not the value the space gives to the input")
        nm = [n for n in own_walk(f.node) if isinstance(n, ast.Assign) and text(n.targets[0]) == "name"]
        if not nm or text(nm[0].value) != "bn.get_variable_name(var)":
            probs.append("name is not the name of the processed variable")
    ck.ob("E", fm, consts[0] if consts else f.node, not probs, "; ".join(probs) if probs else "free input -> constant iff fixed by the space", key="free inputs")
    probs = []
    if len(others) != 1:
        probs.append("update functions are not rewritten at one place")
    else:
        c = others[0]
        pc = fm.pc(fm.cfgn(c))
        if not logic.equivalent(pc, logic.Not(logic.B("none:update"))):
            probs.append(f"update functions are restricted under `{logic.show(pc)}`")
        rs = [n for n in own_walk(f.node) if isinstance(n, ast.Call) and callee_name(n) == "restrict_expression"]
        if not rs or text(rs[0].args[1]) != "space" or "update.as_expression()" not in text(rs[0].args[0]):
            probs.append("the update function is not restricted to the percolated space")
    per = [n for n in own_walk(f.node) if isinstance(n, ast.Assign) and text(n.targets[0]) == "space" and "percolate_space" in text(n.value)]
    if not per:
        probs.append("the space is not percolated before the functions are restricted")
    rc = [n for n in own_walk(f.node) if isinstance(n, ast.Call) and callee_name(n) == "inline_constants"]
    if rc:
        pc = fm.pc(fm.cfgn(rc[0]))
        if not logic.equivalent(pc, logic.B("T:remove_constants")):
            probs.append("constants are removed although not requested (or kept although requested)")
    lp = [n for n in own_walk(f.node) if isinstance(n, ast.For) and text(n.iter) == "bn.variables()"]
    if not lp or any(isinstance(x, (ast.Continue, ast.Break)) for x in ast.walk(lp[0])):
        probs.append("not every variable is processed")
    ck.ob("E", fm, others[0] if others else f.node, not probs, "; ".join(probs) if probs else
          "every function restricted to the percolated space; constants removed on request only", key="functions")
