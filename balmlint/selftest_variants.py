"""Variant corpus (DESIGN.md appendix A).  Each entry edits a scratch copy of the current tree.

edits: (file relative to the repo root, old text, new text[, expected count]) -- the old text must
occur exactly `count` times, otherwise the variant is STALE (reported, so the corpus is kept current).
"""

from __future__ import annotations

import ast
from pathlib import Path

SD = "biobalm/succession_diagram.py"
BLK = "biobalm/_sd_algorithms/expand_source_blocks.py"
SCC = "biobalm/_sd_algorithms/expand_source_SCCs.py"
MIN = "biobalm/_sd_algorithms/expand_minimal_spaces.py"
BFS = "biobalm/_sd_algorithms/expand_bfs.py"
DFS = "biobalm/_sd_algorithms/expand_dfs.py"
ASE = "biobalm/_sd_algorithms/expand_attractor_seeds.py"
TGT = "biobalm/_sd_algorithms/expand_to_target.py"
CAND = "biobalm/_sd_attractors/attractor_candidates.py"
SYM = "biobalm/_sd_attractors/attractor_symbolic.py"
TRAP = "biobalm/trappist_core.py"
PN = "biobalm/petri_net_translation.py"
SPACE = "biobalm/space_utils.py"
CTRL = "biobalm/control.py"
IGU = "biobalm/interaction_graph_utils.py"
SYMU = "biobalm/symbolic_utils.py"
DRV = "biobalm/drivers.py"

VARIANTS: list[dict] = []


def B(id, rules, edits, what, **kw):
    VARIANTS.append({"id": id, "kind": "break", "rules": rules if isinstance(rules, list) else [rules],
                     "edits": edits, "what": what, **kw})


def V(id, what, edits=None, transform=None):
    v = {"id": id, "kind": "benign", "what": what}
    if edits:
        v["edits"] = edits
    if transform:
        v["transform"] = transform
    VARIANTS.append(v)


# ------------------------------------------------------------------------------------------ C14
B("B01a", "C14-R1", [(SD, '''        # no longer valid and need to be erased.
        node["attractor_seeds"] = None
''', '''        # no longer valid and need to be erased.
''')], "_expand_one_node: seeds not reset")
B("B01b", "C14-R1", [(SD, '''        node["attractor_candidates"] = None
        node["attractor_sets"] = None

        current_space = node["space"]''', '''        node["attractor_candidates"] = None

        current_space = node["space"]''')], "_expand_one_node: sets not reset")
B("B02", "C14-R1", [(BLK, '''                sd.node_data(node)["expanded"] = True
                sd.node_data(node)["attractor_seeds"] = []
''', '''                sd.node_data(node)["expanded"] = True
''')], "fast-forward: seeds not replaced")
B("B02b", "C14-R1", [(SCC, '''        sd.node_data(root)["attractor_sets"] = []
''', '')], "SCC root fast-forward: sets not replaced")
B("B03", "C14-R2", [(SD, '''                    node["attractor_seeds"] = result[0]
''', '''                    self.node_data(self.root())["attractor_seeds"] = result[0]
''')], "seeds of node stored into the root")
B("B03b", "C14-R2", [(SD, '''            (seeds, sets) = symbolic_attractor_fallback(self, node_id)
''', '''            (seeds, sets) = symbolic_attractor_fallback(self, self.root())
''')], "fallback computed for the root, stored into node")
B("B36a", "C14-R3", [(SD, '''            if data["attractor_seeds"] is not None:
                data["attractor_candidates"] = None''', '''            data["attractor_candidates"] = None''')],
  "reclaim clears candidates unconditionally")
B("B36b", "C14-R3", [(SD, '''        if candidates is None and node["attractor_seeds"] is not None:
            return node["attractor_seeds"]''', '''        if node["attractor_seeds"] is not None:
            return node["attractor_seeds"]''')], "seeds returned although candidates are known")
B("B60", "C14-R1", [(SD, '''            # Attractor data computed while the node had no successors is no longer valid.
            node["attractor_seeds"] = None
            node["attractor_candidates"] = None
            node["attractor_sets"] = None

            skip_edges = 0''', '''            skip_edges = 0''')], "skip_remaining: reset removed")
B("B61", "C14-R1", [(SCC, '''    if not sd.node_data(attach_at)["expanded"] or sd.node_data(attach_at)["skipped"]:
        # Data computed''', '''    if sd.node_data(attach_at)["expanded"]:
        # Data computed''')], "attach: reset guarded by the wrong polarity")
B("B322", ["C03-K"], [("biobalm/_sd_algorithms/expand_minimal_spaces.py", """            if is_subspace(m_trap, sd.node_data(node_id)["space"]):""",
                       """            if m_trap is not None:""")],
  "make_skip_node: skip edges to every minimal trap space of the network, also those outside the node (mutation sweep 3)")
B("B321", ["C03-G"], [("biobalm/_sd_algorithms/expand_attractor_seeds.py", """        if len(successors) == 0:
            # Everything is done for this `node` and we can continue to the next one.""", """        if len(successors) >= 0 or True:
            # Everything is done for this `node` and we can continue to the next one.""")],
  "expand_attractor_seeds: the 'frame is finished' test always holds, no successor is ever scheduled (mutation sweep 3)")
B("B320", ["C12-C"], [(SD, """            if len(seeds) > 0:
                result = compute_attractors_symbolic(""", """            if len(seeds) > 1:
                result = compute_attractors_symbolic(""")],
  "node_attractor_sets computes no set for a node with exactly one seed (mutation sweep 2)")
B("B319", ["C03-G"], [("biobalm/_sd_algorithms/expand_source_blocks.py", """            if len(successors) == 1 and not check_maa:""",
                       """            if len(successors) == 2 and not check_maa:""")],
  "expand_source_blocks schedules only successors[0] of a node with two successors (mutation sweep 2)")
B("B318", ["C09-T3"], [("biobalm/trappist_core.py", """    if solution_limit is not None and solution_limit <= 0:
        return results
""", """    if solution_limit is not None and solution_limit <= 1:
        return results
""", 2)],
  "both solvers answer [] for limit 1 (the pruning probe asks with limit 1) (mutation sweep 2)")
B("B317", ["C20-M5"], [(SD, """                attrs = self.node_attractor_seeds(node, compute=False)
            except KeyError:
                continue""", """                attrs = self.node_attractor_seeds(node, compute=False)
            except KeyError:
                pass""")], "summary: a node without computed seeds is listed with the previous node's attractors (mutation sweep 2)")
B("B315", ["C08-K4"], [(CAND, """            filtered_candidates.append(valuation_to_state(symbolic_ctx, state_val))""", """            pass""")],
  "run_simulation_minification (no avoid set): the surviving states are never collected (mutation sweep)")
B("B316", ["C12-D"], [("biobalm/_sd_attractors/attractor_symbolic.py", """                        all_done = False  # The main loop should continue.
                        reach_set = updated""", """                        reach_set = updated""")],
  "symbolic_attractor_test: the reach set grows without asking for another round (mutation sweep: fixpoint not reached)")
B("B313", ["C03-K"], [(SD, """            # and thus cannot be skipped.
            node["expanded"] = True
            return True""", """            # and thus cannot be skipped.
            return True""")], "skip_to_minimal reports success for a node that is its own minimal trap space without closing it (mutation sweep)")
B("B314", ["C03-K"], [(SD, """            node["skipped"] = True
            node["expanded"] = True
            skipped_nodes += 1""", """            node["expanded"] = True
            skipped_nodes += 1""")], "skip_remaining does not flag its skip nodes (mutation sweep; F23's reset depends on the flag)")
B("B312", ["C03-K"], [(SD, """            m_data = self.node_data(m_id)
            m_data["expanded"] = True

        node["expanded"] = True
        node["skipped"] = True""", """            m_data = self.node_data(m_id)

        node["expanded"] = True
        node["skipped"] = True""")],
  "skip_to_minimal: the nodes of the minimal trap spaces stay stubs (mutation sweep)")
B("B308", ["C08-K3"], [(CAND, """                avoid_bdd = avoid_bdd.l_or(state_bdd)
                filtered_states.append(state)""", """                avoid_bdd = avoid_bdd.l_or(state_bdd)""")],
  "pint filter: kept states are never collected (mutation sweep)")
B("B309", ["C08-K4"], [("biobalm/symbolic_utils.py", """        n_var = ctx.find_network_variable(var)
        if n_var is not None:""", """        n_var = ctx.find_network_variable(var)
        if n_var is None:""")], "valuation_to_state decodes only the BDD variables that are NOT network variables (mutation sweep)")
B("B310", ["C07-D4"], [("biobalm/control.py", """            self._control.append(list(map(dict, cs)))  # type: ignore""", """            pass""")],
  "Intervention.__init__ never stores the canonical overrides (mutation sweep; the suite compares interventions built the same way)")
B("B311", ["C12-A"], [("biobalm/_sd_attractors/attractor_symbolic.py", """        seeds.append(candidate | node_space)
        sets.append(closure)""", """        seeds.append(candidate | node_space)""")],
  "compute_attractors_symbolic records seeds but not their closures (mutation sweep)")
B("B307", ["C03-G"], [("biobalm/_sd_algorithms/expand_attractor_seeds.py", "if var not in successor_space", "if var in successor_space")],
  "expand_attractor_seeds: sibling motifs reduced to the variables the successor fixes (found by the mutation sweep)")
B("B306", "C16-P3", [(SD, '''        network = state.get("network")
        if network is None:''', '''        network = state.get("network")
        if network is not None:''')],
  "__setstate__ parses the text when the persisted network object IS present (found by the mutation sweep)")
B("B305", "C10-F", [(SD, '''                if parent_pn is not None:
                    base_pn = parent_pn
                    percolate_space = node_space
''', '''                if parent_pn is not None:
                    percolate_space = {
                        k: v for k, v in node_space.items() if k not in self.node_data(parent_id)["space"]
                    }
''')], "only the remainder of the parent's space is eliminated, but from the GLOBAL net (twin of the accepted remainder form)")
B("B61c", "C14-R1", [(SCC, '''    if not sd.node_data(attach_at)["expanded"] or sd.node_data(attach_at)["skipped"]:
        # Data computed while the node had no successors (or only the
        # successors of a skip node) is no longer valid.
        sd.node_data(attach_at)["attractor_seeds"] = None
        sd.node_data(attach_at)["attractor_candidates"] = None
        sd.node_data(attach_at)["attractor_sets"] = None
    sd.node_data(attach_at)["expanded"] = True
''', '''    attach_node = sd.node_data(attach_at)
    attach_node["expanded"] = True
    was_expanded = attach_node["expanded"]
    if not was_expanded or attach_node["skipped"]:
        attach_node["attractor_seeds"] = None
        attach_node["attractor_candidates"] = None
        attach_node["attractor_sets"] = None
''')], "attach: the 'snapshot' of the flag is taken after the flag was raised (twin of the flag-snapshot reading)")
B("B61b", "C14-R1", [(SCC, '''    if not sd.node_data(attach_at)["expanded"] or sd.node_data(attach_at)["skipped"]:
        # Data computed''', '''    if not sd.node_data(attach_at)["expanded"] and sd.node_data(attach_at)["skipped"]:
        # Data computed''')], "attach: reset only for nodes that are unexpanded AND skipped (never)")

# ------------------------------------------------------------------------------------------ benign
V("V02", "ast.unparse round trip of every module (formatting, comments, quotes)", transform="unparse_all")
V("V08", "reorder the independent seeds/sets reset stores", edits=[(SD, '''        node["attractor_seeds"] = None
        node["attractor_candidates"] = None
        node["attractor_sets"] = None

        current_space = node["space"]''', '''        node["attractor_sets"] = None
        node["attractor_candidates"] = None
        node["attractor_seeds"] = None

        current_space = node["space"]''')])
V("V03", "invert an if/else (skip_to_minimal early return)", edits=[(SD, '''        node = self.node_data(node_id)

        if node["expanded"]:
            return False

        pn = self.node_percolated_petri_net(node_id, compute=True)''', '''        node = self.node_data(node_id)

        if not node["expanded"]:
            pass
        else:
            return False

        pn = self.node_percolated_petri_net(node_id, compute=True)''')])
V("V01", "rename locals in _expand_one_node (node -> nd)", transform="rename_expand_one_node")


# ------------------------------------------------------------------------------------------ transforms
def unparse_all(root: str) -> None:
    for f in Path(root, "biobalm").rglob("*.py"):
        f.write_text(ast.unparse(ast.parse(f.read_text())) + "\n")


def _rename_in_function(root: str, rel: str, qual: str, mapping: dict[str, str]) -> None:
    p = Path(root, rel)
    tree = ast.parse(p.read_text())
    parts = qual.split(".")

    def find(body, parts):
        for s in body:
            if isinstance(s, (ast.FunctionDef, ast.ClassDef)) and s.name == parts[0]:
                return s if len(parts) == 1 else find(s.body, parts[1:])
        raise KeyError(qual)

    fn = find(tree.body, parts)
    for n in ast.walk(fn):
        if isinstance(n, ast.Name) and n.id in mapping:
            n.id = mapping[n.id]
        elif isinstance(n, ast.arg) and n.arg in mapping:
            n.arg = mapping[n.arg]
    p.write_text(ast.unparse(tree) + "\n")


def rename_expand_one_node(root: str) -> None:
    _rename_in_function(root, SD, "SuccessionDiagram._expand_one_node",
                        {"node": "nd", "sub_spaces": "spaces", "current_space": "cs", "pn": "net"})


# ------------------------------------------------------------------------------------------ C04
B("B27", "C04-T1", [(SD, '''        for sub_space in sub_spaces:
            self._ensure_node(node_id, sub_space)

        # If everything else worked out, we can mark the node as expanded.
        node["expanded"] = True''', '''        node["expanded"] = True
        for sub_space in sub_spaces:
            self._ensure_node(node_id, sub_space)
''')], "_expand_one_node: marked expanded before the children exist")
B("B27b", "C04-T1", [(SD, '''        # If everything else worked out, we can mark the node as expanded.
        node["expanded"] = True''', '''        # If everything else worked out, we can mark the node as expanded.
        pass''')], "_expand_one_node: never marked expanded after growth")
B("B28a", "C04-T6", [(SD, "        for sub_space in sub_spaces:\n            self._ensure_node(node_id, sub_space)",
                      "        for sub_space in sub_spaces[:-1]:\n            self._ensure_node(node_id, sub_space)")],
  "last sub-space dropped")
B("B28b", "C04-T6", [(SD, "sub_spaces = [(s | current_space) for s in partial_sub_spaces]",
                      "sub_spaces = [(s | current_space) for s in partial_sub_spaces if len(s) > 1]")],
  "comprehension filters sub-spaces")
B("B28c", "C04-T6", [(SD, '''                problem="max",
                ensure_subspace=current_space,''', '''                problem="max",''')],
  "global net without ensure_subspace")
B("B28d", "C04-T6", [(SD, '''        if node_id == self.root():
            source_nodes = extract_source_variables(self.petri_net)''', '''        if True:
            source_nodes = extract_source_variables(self.petri_net)''')], "source optimisation at every node")
B("B29", "C04-T5", [(SD, "                space=fixed_vars,", "                space=stable_motif,")],
  "_ensure_node stores the unpercolated space")
B("B29b", "C04-T5", [(SD, "            self.node_indices[key] = child_id\n", "")], "created node not registered in the index")
B("B29c", "C04-T5", [(SD, "            child_id = self.dag.number_of_nodes()\n", "            child_id = self.dag.number_of_nodes() + 1\n")],
  "node ids skip a number")
B("B62", "C04-T3", [(SD, '''        node = cast(dict[str, Any], self.dag.nodes[node_id])
        if node["expanded"]:
            return
''', '''        node = cast(dict[str, Any], self.dag.nodes[node_id])
''')], "_expand_one_node re-expands expanded nodes")
B("B63", "C04-T2", [(SD, '''            data["percolated_nfvs"] = None
            if data["attractor_seeds"]''', '''            data["percolated_nfvs"] = None
            data["expanded"] = data["attractor_seeds"] is not None
            if data["attractor_seeds"]''')], "expanded flag assigned a computed value")
B("B64", "C04-T8", [(BLK, "if len(sources) != 0 and optimize_source_nodes:", "if len(sources) != 0 or optimize_source_nodes:")],
  "source shortcut taken although disabled")
B("B65", "C04-T1", [(SCC, '''        if scc_sd.node_is_minimal(scc_node_id):
            min_traps.append(main_node_id)
        else:
            # This node can be marked as expanded, because we know its successors.
            # We just need to add them in the for loop below.
            if (''', '''        if scc_sd.node_is_minimal(scc_node_id):
            min_traps.append(main_node_id)
        if True:
            # This node can be marked as expanded, because we know its successors.
            # We just need to add them in the for loop below.
            if (''')], "attach: minimal nodes of the sub-diagram marked expanded in the main diagram")
B("B66", "C04-T1", [(SCC, "sd._ensure_edge(main_node_id, main_succ_id, inner_stable_motif)",
                     "sd._ensure_edge(main_succ_id, main_node_id, inner_stable_motif)")], "attach: edge direction swapped")
B("B67", "C04-T1", [(SCC, '''    sd.node_data(attach_at)["expanded"] = True
    # Finally,''', '''    # Finally,''')], "attach: attachment node never marked expanded")
B("B68", "C04-T1", [(SD, '''        node["expanded"] = True
        node["skipped"] = True

        if self.config["debug"]:
            print(f"[{node_id}] Added''', '''        node["skipped"] = True

        if self.config["debug"]:
            print(f"[{node_id}] Added''')], "skip_to_minimal: skip node left unexpanded with edges")


# ------------------------------------------------------------------------------------------ C15
B("B24", "C15-E3", [(DFS, '''            result_is_complete = False
            continue''', '''            continue''')], "DFS: stack-limit abandon does not clear the flag")
B("B25", "C15-E3", [(BFS, '''                # Size limit reached.
                return False''', '''                # Size limit reached.
                return True''')], "BFS: size limit returns True")
B("B26", ["C15-E2", "C15-E5"], [(SD, '''        if len(sub_spaces) == self.config["max_motifs_per_node"]:
            raise RuntimeError(
                f"Exceeded the maximum amount of stable motifs per node ({self.config['max_motifs_per_node']}; see `SuccessionDiagramConfiguration.max_motifs_per_node`)."
            )
''', ''), (SD, '''        # If everything else worked out, we can mark the node as expanded.
        node["expanded"] = True''', '''        if len(sub_spaces) == self.config["max_motifs_per_node"]:
            raise RuntimeError("Exceeded the maximum amount of stable motifs per node")
        # If everything else worked out, we can mark the node as expanded.
        node["expanded"] = True''')], "motif limit tested after the children were created")
B("B69", "C15-E5", [(SD, 'if len(sub_spaces) == self.config["max_motifs_per_node"]:',
                     'if len(sub_spaces) > self.config["max_motifs_per_node"]:')], "truncated sub-space list accepted (> instead of ==)")
B("B10", "C15-E4", [(BLK, '''                    except RuntimeError:
                        is_clean = False''', '''                    except RuntimeError:
                        is_clean = True''')], "failed candidate search counts as clean block")
B("B10b", "C15-E4", [(SCC, '''    except RuntimeError:
        return False''', '''    except RuntimeError:
        return True''')], "failed candidate search counts as 'no candidates' in attachment")
B("B70", "C15-E3", [(SCC, '''                if not fully_expanded:
                    # Something bad happened in the expander function and we can't continue.
                    return False
''', '')], "SCC driver ignores an incomplete nested expansion")
B("B71", ["C15-E1", "C15-E2"], [(BLK, '''                bin_values_iter = it.product(range(2), repeat=len(sources))
                for bin_values in bin_values_iter:
                    valuation = cast(BooleanSpace, dict(zip(sources, bin_values)))
                    sub_space = node_space | valuation
''', '''                bin_values_iter = it.product(range(2), repeat=len(sources))
                for bin_values in bin_values_iter:
                    valuation = cast(BooleanSpace, dict(zip(sources, bin_values)))
                    sub_space = node_space | valuation
                    if len(sd) > sd.config["max_motifs_per_node"]:
                        raise RuntimeError("Exceeded the maximum amount of stable motifs per node")
''')], "limit error raised in the middle of the source fast-forward")
B("B72", "C15-E1", [(SD, '''        for m_trap in minimal_traps:
            m_id = self._ensure_node(node_id, m_trap)''', '''        for m_trap in minimal_traps:
            self.node_attractor_candidates(node_id, compute=True)
            m_id = self._ensure_node(node_id, m_trap)''')], "skip_to_minimal: candidate search between edge creations")
B("B73", "C15-E3", [(MIN, '''                and not sd.node_data(node)["expanded"]
            ):
                # Size limit reached.
                return False''', '''            ):
                # Size limit reached.
                return False''')], "minimal-space expansion: size limit False on expanded node")


# ------------------------------------------------------------------------------------------ C20
B("B31", "C20-M1", [(SD, "        self._update_node_depth(child_id, parent_id)\n", "")], "_ensure_edge: depth update dropped")
B("B31b", "C20-M1", [(SD, '''                all_motifs.append(stable_motif)  # type: ignore
        self._update_node_depth(child_id, parent_id)''', '''                all_motifs.append(stable_motif)  # type: ignore
            self._update_node_depth(child_id, parent_id)''')], "depth updated only when the edge already existed")
B("B32", "C20-M1", [(SD, '''        if parent_depth + 1 > current_depth:
            self.dag.nodes[node_id]["depth"] = parent_depth + 1''', '''        if parent_depth + 1 != current_depth:
            self.dag.nodes[node_id]["depth"] = parent_depth + 1''')], "depth can decrease")
B("B32b", "C20-M1", [(SD, '''            for child_id in list(self.dag.successors(node_id)):  # type: ignore
                self._update_node_depth(child_id, node_id)''', '''            for child_id in list(self.dag.successors(node_id))[:1]:  # type: ignore
                self._update_node_depth(child_id, node_id)''')], "depth propagated to the first successor only")
B("B32c", "C20-M1", [(SD, '''            self.dag.nodes[node_id]["depth"] = parent_depth + 1
            # The node''', '''            self.dag.nodes[node_id]["depth"] = current_depth + 1
            # The node''')], "depth incremented instead of set to parent depth + 1")
B("B33", "C20-M3", [(SPACE, "key |= (v + 2) << (2 * int(var))", "key |= (v + 2) << (1 * int(var))")], "key shift stride 1")
V("V33b", "key codes 1/2 instead of 2/3 (still injective)", edits=[(SPACE, "key |= (v + 2) << (2 * int(var))", "key |= (v + 1) << (2 * int(var))")])
B("B34", "C20-M5", [(SD, '''            if self.node_is_minimal(node):
                space_str_prefix = "minimal trap space "''', '''            if self.dag.out_degree(node) == 0:  # type: ignore
                space_str_prefix = "minimal trap space "''')], "summary labels by out-degree only")
B("B74", "C20-M4", [(SD, "return self.is_subgraph(other) and other.is_subgraph(self)", "return self.is_subgraph(other) and len(self) == len(other)")],
  "is_isomorphic checks one direction plus size")
B("B75", "C20-M3", [(SD, '''            if key in self.node_indices:
                return self.node_indices[key]
            else:
                return None''', '''            return self.node_indices.get(key, self.root() if not node_space else None)''')], "find_node falls back to the root")
B("B76", "C20-M2", [(SD, '''        for i in range(len(self)):
            yield i''', '''        for i in range(1, len(self)):
            yield i''')], "node_ids skips the root")
B("B77", "C20-M5", [(SD, "        for node_id in list(self.expanded_ids()):\n            self.node_attractor_seeds(node_id, compute=True)",
                     "        for node_id in list(self.node_ids()):\n            self.node_attractor_seeds(node_id, compute=True)")],
  "build computes seeds for stubs")


# ------------------------------------------------------------------------------------------ C16
B("B35a", "C16-P1", [(SD, '            "nfvs": self.nfvs,\n', '')], "__getstate__ drops nfvs")
B("B35b", "C16-P2", [(SD, "        self.symbolic = AsynchronousGraph(self.network)\n        self.petri_net = state", "        self.petri_net = state")],
  "__setstate__ forgets self.symbolic")
B("B35c", "C16-P3", [(SD, '''        self.node_indices = {
            space_unique_key(self.node_data(node_id)["space"], self.network): node_id
            for node_id in state["node_indices"].values()
        }''', '''        self.node_indices = state["node_indices"]''')], "persisted index keys trusted although the restored network may order variables differently (F10)")
B("B35c2", "C16-P3", [(SD, '''            space_unique_key(self.node_data(node_id)["space"], self.network): node_id
            for node_id in state["node_indices"].values()''', '''            space_unique_key(self.node_data(node_id)["space"], self.network): node_id
            for node_id in state["node_indices"].values()
            if self.node_data(node_id)["expanded"]''')], "index rebuilt for expanded nodes only")
B("B35d", "C16-P3", [(SD, 'network = BooleanNetwork.from_aeon(state["network_rules"])',
                      'network = BooleanNetwork.from_bnet(state["network_rules"])')],
  "rules exported as aeon, parsed as bnet")
B("B78", "C16-P4", [(SD, '''            data["percolated_nfvs"] = None
            if data["attractor_seeds"]''', '''            data["percolated_nfvs"] = None
            data["skipped"] = None
            if data["attractor_seeds"]''')], "reclaim drops the skipped flag (no recompute path)")
V("V79", "accessor recompute guard rewritten as `is None and compute` (equivalent after the raise)", edits=[(SD, '''        if network is None and not compute:
            raise KeyError(f"Percolated network not computed for node {node_id}.")

        if network is None:
            network = percolate_network(''', '''        if network is None and not compute:
            raise KeyError(f"Percolated network not computed for node {node_id}.")

        if network is None and compute:
            network = percolate_network(''')])
B("B80", "C16-P5", [(SYM, "    bn_reduced = sd.node_percolated_network(node_id, compute=True)\n    graph_reduced = AsynchronousGraph(bn_reduced)\n    symbolic_ctx",
                     "    bn_reduced = sd.node_data(node_id)[\"percolated_network\"]\n    graph_reduced = AsynchronousGraph(bn_reduced)\n    symbolic_ctx")],
  "compute_attractors_symbolic reads the reclaimed network field directly")


# ------------------------------------------------------------------------------------------ C13
B("B37", "C13-WHILE", [(SYM, '''    if sd.config["debug"]:
        print(f"[{node_id}] > Reachability completed with {reach_set}.")
''', '''    rounds = 0
    while rounds < len(saturated_vars):
        if reach_set.is_empty():
            rounds += 1
    if sd.config["debug"]:
        print(f"[{node_id}] > Reachability completed with {reach_set}.")
''')], "new while loop whose counter advances on one path only")
B("B38", "C13-WHILE", [(CAND, "            iterations = 2 * iterations\n", "")], "simulation budget never grows")
B("B39", "C13-WHILE", [(SPACE, '''                    # but we also don't want to change the value.
                    candidates.remove(var)''', '''                    # but we also don't want to change the value.
                    done = False''')], "percolate_space_strict: flag cleared without removing the variable")
B("B41", "C13-REC", [(SCC, '''                next_level = next_level | set(sd.node_successors(node_id, compute=True))
                continue

            attach_at_list''', '''                next_level = next_level | set(sd.node_successors(node_id, compute=True))

            attach_at_list''')], "single source SCC no longer short-circuits: unbounded recursion")
B("B15", "C13-WHILE", [(CAND, "            if len(candidate_states_2) < len(candidate_states):", "            if len(candidate_states_2) <= len(candidate_states):")],
  "greedy optimisation accepts ties: can flip back and forth forever")
B("B81", "C13-WHILE", [(DFS, "        s = successors.pop()\n        seen.add(s)\n", "        s = successors.pop()\n")], "DFS schedules nodes without recording them")
B("B82", "C13-WHILE", [(SYM, '''                        all_done = False  # The main loop should continue.
                        reach_set = updated''', '''                        reach_set = updated'''), (SYM, '''                if not successors.is_empty():
                    updated = reach_set.union(successors)''', '''                if not successors.is_empty():
                    all_done = False
                    updated = reach_set.union(successors)''')], "all_done cleared although the forward step may be declined")
B("B83", "C13-WHILE", [(MIN, '''            if successors[-1] in seen:
                # Everything in seen is expanded, so no need to skip it.
                successors.pop()
                continue''', '''            if successors[-1] in seen:
                # Everything in seen is expanded, so no need to skip it.
                continue''')], "inner successor loop no longer pops seen nodes")
B("B84", "C13-WHILE", [(BLK, '''            if sd.node_data(node)["expanded"]:
                # We re-discovered a previously expanded node.
                if node not in visited:
                    visited.add(node)
                    next_level = next_level | set(sd.node_successors(node))
                continue

''', '')], "block expansion reprocesses expanded nodes")
V("V85", "DFS loop test written as truthiness", edits=[(DFS, "    while len(stack) > 0:", "    while stack:")])
V("V86", "debug print added inside loops", edits=[(BFS, "            for s in successors:\n                if s not in seen:", "            for s in successors:\n                if sd.config[\"debug\"]:\n                    print(s)\n                if s not in seen:")])


# ------------------------------------------------------------------------------------------ C08
B("B12", "C08-K1", [(CAND, "        return [candidate_states[0] | node_space]", "        return [candidate_states[0]]", 2)],
  "single candidate returned in reduced coordinates")
B("B13", "C08-K2", [(CAND, '''        if len(candidate_states) == sd.config["attractor_candidates_limit"]:
            raise RuntimeError(''', '''        if len(candidate_states) > sd.config["attractor_candidates_limit"]:
            raise RuntimeError(''')], "truncated list accepted when not greedy (> instead of ==)")
B("B14", "C08-K2", [(CAND, "                    solution_limit=len(candidate_states_zero),", "                    solution_limit=len(candidate_states),")],
  "var=1 list limited by the length of the previous candidate list")
B("B16", "C08-K6", [(CAND, "                retained_set = retained_set_2\n                candidate_states = candidate_states_2", "                candidate_states = candidate_states_2")],
  "greedy: candidates replaced without the retained set")
B("B17", "C08-K4", [(CAND, '''            state_bdd = graph.mk_subspace(state).to_bdd()
            candidates_bdd = candidates_bdd.l_and_not(state_bdd)
''', '''            state_bdd = graph.mk_subspace(state).to_bdd()
''')], "avoid branch: current state not subtracted before its walk")
B("B18", "C08-K4", [(CAND, '''            if is_valid_candidate:
                # If we cannot rule out the candidate, we have to put it back''', '''            else:
                is_valid_candidate = False
            if is_valid_candidate:
                # If we cannot rule out the candidate, we have to put it back''')], "candidate dropped when the step budget runs out")
B("B19", "C08-K5", [(SD, 'nfvs = feedback_vertex_set(percolated_network, parity="negative")', 'nfvs = feedback_vertex_set(percolated_network, parity="positive")')],
  "positive FVS used as NFVS")
B("B87", "C08-K1", [(CAND, '''        if not node_is_pseudo_minimal:
            if sd.config["debug"]:
                print(
                    f"[{node_id}] > Attractor candidates done: empty NFVS in a non-minimal space."
                )
            return []''', '''        if True:
            if sd.config["debug"]:
                print(
                    f"[{node_id}] > Attractor candidates done: empty NFVS in a non-minimal space."
                )
            return []''')], "empty NFVS shortcut also taken for pseudo-minimal nodes")
B("B88", "C08-K3", [(CAND, '''    retained_set = make_heuristic_retained_set(
        graph_reduced, node_nfvs, child_motifs_reduced
    )''', '''    retained_set = make_heuristic_retained_set(
        graph_reduced, node_nfvs, child_motifs_reduced
    )
    pn_reduced = sd.petri_net''')], "enumeration on the global Petri net")
B("B89", "C08-K2", [(ASE, "                solution_limit=1,", "                solution_limit=0,")], "attractor-seed expansion decides emptiness from a zero-limit enumeration")


# ------------------------------------------------------------------------------------------ C19
B("B42", "C19-N1", [(CTRL, "            cs = sorted(map(lambda x: sorted(x.items()), c))", "            cs = sorted(map(lambda x: list(x.items()), c))")],
  "Intervention no longer sorts the items of each driver set")
B("B43", "C19-N2", [(SD, '''        sub_spaces = sorted(
            sub_spaces, key=lambda space: space_unique_key(space, self.network)
        )
''', '')], "child sub-spaces no longer sorted before ids are assigned")
B("B44", "C19-N2", [(BLK, "        for node in sorted(current_level):  # Sorted for determinism", "        for node in current_level:")],
  "block expansion traverses the level set unsorted")
B("B45", "C19-N3", [(CAND, "    generator = random.Random(simulation_seed)", "    generator = random.Random()")], "simulation seeded from the OS")
B("B45b", "C19-N3", [(CAND, "                simulation_seed=123,", "                simulation_seed=len(candidate_states) + node_id,")],
  "simulation seed depends on run-time values")
B("B46", "C19-N4", [(TRAP, '''    results: list[BooleanSpace] = []

    if solution_limit is not None and solution_limit <= 0:
        return results

    def save_result(x: BooleanSpace) -> bool:
        results.append(x)
        if solution_limit is None:
            return True
        else:
            return len(results) < solution_limit

    compute_fixed_point_reduced_STG_async(''', '''    results: list[BooleanSpace] = []

    if solution_limit is not None and solution_limit <= 0:
        return results

    def save_result(x: BooleanSpace) -> bool:
        results.append(x)
        if solution_limit is None:
            return True
        else:
            return len(results) < solution_limit

    if len(retained_set) > 0:
        avoid_subspaces.append(dict(retained_set))
        avoid_subspaces.pop()
    compute_fixed_point_reduced_STG_async(''')], "mutable default list mutated")
B("B90", "C19-N2", [(BFS, "            successors = sorted(successors)\n", "")], "BFS traverses successors unsorted")
B("B91", "C19-N4", [(SD, '''        config_copy: SuccessionDiagramConfiguration = copy.copy(self.config)
        return SuccessionDiagram(component_bn, config_copy)''', '''        return SuccessionDiagram(component_bn, self.config)''')],
  "sub-diagram shares the parent's config object")
B("B92", "C19-N1", [(CTRL, '''    drivers: ControlOverrides = []
    for driver_set_size in range(max_drivers_per_succession_node + 1):''', '''    drivers: ControlOverrides = []
    first_pool_member = next(iter(driver_pool)) if driver_pool else None
    for driver_set_size in range(max_drivers_per_succession_node + 1):''')], "first element of a string set picked")
V("V93", "driver pool sorted explicitly", edits=[(CTRL, "        for driver_set in combinations(driver_pool, driver_set_size):", "        for driver_set in combinations(sorted(driver_pool), driver_set_size):")])


# ------------------------------------------------------------------------------------------ C09
B("B52", "C09-T1", [(TRAP, "fixed_list = [variable_to_place(var, (to_avoid[var] != 1)) for var in to_avoid]",
                     "fixed_list = [variable_to_place(var, (to_avoid[var] == 1)) for var in to_avoid]")],
  "trap-space avoid constraint uses the opposite polarity")
B("B52b", "C09-T1", [(TRAP, "        space[variable] = 1 if is_positive else 0", "        space[variable] = 0 if is_positive else 1")],
  "fixed-point decoder flipped")
B("B52c", "C09-T1", [(TRAP, "        source_place = variable_to_place(node, positive=(b_i == 1))", "        source_place = variable_to_place(node, positive=(b_i == 0))")],
  "retained set applied to the opposite place")
B("B53", "C09-T2", [(TRAP, "                    if predecessor not in successors:\n                        ctl.add(f\"{s_disjunction} :- {predecessor}.\")",
                     "                    if predecessor in successors:\n                        ctl.add(f\"{s_disjunction} :- {predecessor}.\")")],
  "trap branch only: tautology test inverted")
B("B94", "C09-T3", [(TRAP, "            return len(results) < solution_limit", "            return len(results) <= solution_limit", 2)],
  "callback lets one result too many through")
B("B95", "C09-T4", [(TRAP, '        if problem == "fix":\n            ctl.add(f"{p_name} ; {n_name}.")', '        if problem != "max":\n            ctl.add(f"{p_name} ; {n_name}.")')],
  "totality clause also emitted for minimal trap spaces")
B("B96", "C09-T4", [(TRAP, "            if place_to_variable(node)[0] not in ensure_subspace:\n                free_places.append(node)",
                     "            free_places.append(node)")], "ensured places count as free in the non-triviality clause")
B("B97", "C09-T4", [(TRAP, '    if problem == "max" and len(free_places) > 0:', '    if len(free_places) > 0:')],
  "non-triviality clause emitted for every problem kind")
B("B98", "C09-T1", [(TRAP, "        deleted_transitions = list(set(succs) - set(preds))", "        deleted_transitions = list(set(succs))")],
  "retained reduction also deletes read-arc transitions")


# reverting these fix commits by patch is ambiguous after later commits; explicit variants re-introduce the defect
# ------------------------------------------------------------------------------------------ the normalisations must not hide bugs
# Each variant has the *shape* of a refactoring that a pre-pass reads back into the reference spelling, with a defect inside.
B("B300", ["C08-K6"], [(CAND, """    done = False
    while not done:
        done = True
        for var in retained_set:
            # Standrad termination checks.""", """    done = False
    best_count = len(candidate_states)
    while not done:
        done = True
        for var in retained_set:
            # Standrad termination checks."""),
                       (CAND, """                solution_limit=len(candidate_states),
            )
            if len(candidate_states_2) < len(candidate_states):""", """                solution_limit=best_count,
            )
            if len(candidate_states_2) < best_count:""")],
  "greedy optimiser: the length is cached in a local that is never refreshed (a length shadow that goes stale)")
B("B301", ["C02-H3"], [(SD, """        if not self.dag.has_edge(parent_id, child_id):  # type: ignore
            self.dag.add_edge(parent_id, child_id, motif=stable_motif, all_motifs=[stable_motif])  # type: ignore
        else:
            # The same edge can be inserted repeatedly (e.g. by another run of the SCC
            # expansion). Every stable motif is recorded only once.
            all_motifs = self.dag.edges[parent_id, child_id]["all_motifs"]  # type: ignore
            if stable_motif not in all_motifs:
                all_motifs.append(stable_motif)  # type: ignore""", """        try:
            all_motifs = self.dag.edges[parent_id, child_id]["all_motifs"]  # type: ignore
        except KeyError:
            self.dag.add_edge(parent_id, child_id, motif=stable_motif, all_motifs=[stable_motif])  # type: ignore
        else:
            all_motifs.clear()
            all_motifs.append(stable_motif)  # type: ignore""")],
  "_ensure_edge in try/except form, but an existing edge forgets its earlier motifs")
B("B302", ["C03-G"], [(DFS, """        while len(successors) > 0 and successors[-1] in seen:
            successors.pop()""", """        while len(successors) > 1:
            successors.pop()""")],
  "expand_dfs drops unvisited successors (all but one)")
B("B303", ["C19-N4"], [(CAND, """def compute_attractor_candidates(""", """SIMULATION_SEED = 123


def _next_seed() -> int:
    global SIMULATION_SEED
    SIMULATION_SEED += 1
    return SIMULATION_SEED


def compute_attractor_candidates(""")],
  "a module-level 'constant' that a function re-binds through `global`")
B("B304", ["C15-E5"], [(SD, """        if len(current_space) == self.network.variable_count():""",
                        """        if len(current_space) >= self.network.variable_count() - 1:""")],
  "_expand_one_node: 'fixed point' shortcut also taken with one free variable")

MANUAL_REVERTS = {"f087faa", "e9488dc"}
# F2 (e9488dc) put resets at five sites; F23 (b558168) later widened the guard of two of them, so the patch no longer reverts
B("R-F2", "C14-R1", [(SCC, '''            if (
                not sd.node_data(main_node_id)["expanded"]
                or sd.node_data(main_node_id)["skipped"]
            ):
                # Data computed while the node had no successors (or only the
                # successors of a skip node) is no longer valid.
                sd.node_data(main_node_id)["attractor_seeds"] = None
                sd.node_data(main_node_id)["attractor_candidates"] = None
                sd.node_data(main_node_id)["attractor_sets"] = None
''', ""), (SCC, '''    if not sd.node_data(attach_at)["expanded"] or sd.node_data(attach_at)["skipped"]:
        # Data computed while the node had no successors (or only the
        # successors of a skip node) is no longer valid.
        sd.node_data(attach_at)["attractor_seeds"] = None
        sd.node_data(attach_at)["attractor_candidates"] = None
        sd.node_data(attach_at)["attractor_sets"] = None
''', ""), (SD, '''            # Attractor data computed while the node had no successors is no longer valid.
            node["attractor_seeds"] = None
            node["attractor_candidates"] = None
            node["attractor_sets"] = None

            skip_edges = 0''', '''            skip_edges = 0''')],
  "F2 re-introduced: no reset where skip edges / sub-diagrams are attached")
B("R-F5", "C08-K1", [(CAND, '''    if not greedy_asp_minification or len(node_nfvs) == 0:''', '''    if len(retained_set) == sd.network.variable_count() and node_is_pseudo_minimal:
        return [retained_set | node_space]

    if not greedy_asp_minification or len(node_nfvs) == 0:''')], "F5 re-introduced: fixed-point retained set returned as the only candidate")


# ------------------------------------------------------------------------------------------ C01 / C12
B("B04", "C01-S3", [(SD, '''            if len(candidates) == 0 or (
                node_is_pseudo_minimal and len(candidates) == 1
            ):
                node["attractor_seeds"] = candidates

        return candidates''', '''            if len(candidates) == 0 or len(candidates) == 1:
                node["attractor_seeds"] = candidates

        return candidates''')], "single candidate of a non-minimal expanded node becomes a seed unchecked")
B("B05", "C01-S2", [(SYM, "        avoid = avoid.union(closure)\n", "")], "found attractor not added to the avoid set")
B("B06", "C01-S2", [(SYM, "        avoid = avoid.minus(candidate_singleton)\n", "")], "current candidate not removed from the avoid set")
B("B07", "C01-S1", [(SYM, "        seeds.append(candidate | node_space)", "        seeds.append(candidate)")], "reduced state recorded as seed")
B("B08a", "C12-A", [(SYM, "        vertices = sd.symbolic.transfer_from(vertices, graph_reduced)\n", "")], "attractor set not transferred to the full context")
B("B08b", "C12-A", [(SYM, "        vertices = vertices.intersect(space_symbolic)\n", "")], "attractor set not restricted to the node space")
B("B09", "C01-S2", [(SYM, '''        closure = symbolic_attractor_test(sd, node_id, graph_reduced, candidate, avoid)

        if closure is None:''', '''        closure = symbolic_attractor_test(sd, node_id, graph_reduced, candidate, avoid)
        sets.append(closure)

        if closure is None:'''), (SYM, "        seeds.append(candidate | node_space)\n        sets.append(closure)", "        seeds.append(candidate | node_space)")],
  "set recorded before the refutation test")
B("B11", ["C01-S4", "C15-E4"], [(SCC, "    if check_maa and _has_no_attractor_candidates(scc_sd, scc_sd.root()):", "    if check_maa:")],
  "attachment node marked attractor-free without evidence")
B("B99", "C01-S6", [(BLK, "motif_block = node_bn.backward_reachable(list(motif.keys()))", "motif_block = node_bn.find_variable(list(motif.keys())[0]) and [node_bn.find_variable(k) for k in motif.keys()]")],
  "blocks no longer closed under regulators")
B("B100", "C01-S4", [(BLK, "                    block_sd = sd.component_subdiagram(list(block), node)", "                    block_sd = sd.component_subdiagram(list(block), sd.root())")],
  "clean-block evidence computed for the root, mark put on the node")
B("B101", "C12-D", [(SYM, "        for var in conflict_vars + other_sorted:", "        for var in conflict_vars + other_sorted[: len(conflict_vars) + 1]:")],
  "only some non-conflict variables are ever saturated")
B("B102", "C12-B", [(SYM, "        result_seeds.append(cast(BooleanSpace, attr_seed_named))\n        result_sets.append(attr_vertices)",
                      "        result_seeds.append(cast(BooleanSpace, attr_seed_named))\n        if attr_vertices.cardinality() > 1:\n            result_sets.append(attr_vertices)")],
  "fallback records sets only for complex attractors")
B("B103", "C12-C", [(SD, "                    self, node_id, candidate_states=seeds\n", "                    self, node_id, candidate_states=self.node_attractor_candidates(node_id, compute=True)\n")],
  "sets recomputed from candidates instead of the node's seeds (order no longer follows the seeds)")


# ------------------------------------------------------------------------------------------ C06 / C07
B("B47", "C06-D1", [(CTRL, "                if target_trap_space.items() <= ldoi.items():\n                    drivers.append(driver_dict)\n            elif",
                     "                if ldoi.items() <= target_trap_space.items():\n                    drivers.append(driver_dict)\n            elif")],
  "acceptance test reversed (internal strategy)")
B("B47b", "C06-D1", [(CTRL, "                    ldoi = percolate_space(bn, driver_dict | assume_fixed)\n                    if target_trap_space.items() <= ldoi.items():",
                      "                    ldoi = percolate_space(bn, driver_dict)\n                    if target_trap_space.items() <= (ldoi | assume_fixed).items():")],
  "already fixed values not percolated together with the drivers (strategy all)")
B("B48", "C06-D2", [(CTRL, "        assume_fixed.update(ldoi)\n", "")], "percolation of a step not accumulated")
B("B49a", "C06-D3", [(CTRL, "        if not is_consistent or (not is_goal and is_minimal):", "        if not is_consistent or not is_goal:")],
  "every node outside the target is hot (and is_minimal dropped)")
B("B49b", "C06-D3", [(CTRL, "        descendant_map[s].add(s)  # for our purposes, s is its own descendant\n", "")], "node not its own descendant")
B("B49c", "C06-D3", [(CTRL, 'is_goal = is_subspace(succession_diagram.node_data(s)["space"], target)', 'is_goal = is_subspace(target, succession_diagram.node_data(s)["space"])')],
  "goal test with swapped arguments")
B("B50a", "C07-D4", [(CTRL, "        driver_pool = set(bn.network_variable_names()) - forbidden_drivers", "        driver_pool = set(bn.network_variable_names())")],
  "forbidden drivers ignored by strategy all")
B("B50b", "C07-D4", [(CTRL, "    for driver_set_size in range(max_drivers_per_succession_node + 1):", "    for driver_set_size in range(max_drivers_per_succession_node):")],
  "size bound excluded")
B("B51", "C07-D5", [(TGT, "            if is_subspace(node_space, target) and not node_space == target:", "            if is_subspace(node_space, target):")],
  "node equal to the target left unexpanded")
B("B104", "C07-D4", [(CTRL, "        if not successful_only or intervention.successful:", "        if successful_only and intervention.successful:")],
  "unsuccessful interventions never returned")
B("B105", "C07-D6", [(CTRL, "                succession_diagram.edge_all_stable_motifs(x, y, reduced=True)\n                for x, y in zip(path[:-1], path[1:])",
                      "                succession_diagram.edge_all_stable_motifs(x, y, reduced=True)\n                for x, y in zip(path[:-2], path[1:])")],
  "last edge of every path dropped")
B("B106", "C07-D4", [(CTRL, "            if any(set(d) <= set(driver_set) for d in drivers):", "            if any(set(d) >= set(driver_set) for d in drivers):")],
  "minimality filter reversed")
V("V107", "De Morgan of the hot-lava predicate", edits=[(CTRL, "        if not is_consistent or (not is_goal and is_minimal):", "        if not (is_consistent and (is_goal or not is_minimal)):")])


# ------------------------------------------------------------------------------------------ C02 / C10 / C11 / C17
B("B30", "C02-H3", [(SD, '''            if stable_motif not in all_motifs:
                all_motifs.append(stable_motif)  # type: ignore
''', '''            if stable_motif not in all_motifs:
                pass
''')], "further motifs of an existing edge are not recorded")
B("B30c", "C02-H3", [(SD, '''            if stable_motif not in all_motifs:
                all_motifs.append(stable_motif)  # type: ignore
''', '''            all_motifs.append(stable_motif)  # type: ignore
''')], "a re-inserted edge records its motif again (duplicates multiply the successions)")
B("B30b", "C02-H3", [(SD, "                result.append({k: v for k, v in m.items() if k not in node_space})", "                result.append({k: v for k, v in m.items() if k in node_space})")],
  "reduced motifs keep exactly the wrong variables")
B("B54", "C10-C", [(PN, "        f_val[best_var] = False\n", "        f_val[best_var] = True\n")], "clauses of the negative cofactor carry the positive literal")
B("B55", "C10-B", [(PN, "            pn.add_edge(places[variable_str][value], t_name)  # type: ignore[reportUnknownMemberType] # noqa\n            pn.add_edge(t_name, places[variable_str][value])",
                    "            pn.add_edge(places[variable_str][not value], t_name)  # type: ignore[reportUnknownMemberType] # noqa\n            pn.add_edge(t_name, places[variable_str][not value])")],
  "read arcs on the place of the opposite value")
B("B56", "C10-D", [(PN, '''        for tr in result.successors(inverse_place):  # type: ignore
            to_delete.add(cast(str, tr))
''', '')], "transitions that need the opposite value survive the restriction")
B("B56b", "C10-A", [(PN, "            pn, symbolic_context.bdd_variable_set(), places, var_name, p_bdd, go_up=True", "            pn, symbolic_context.bdd_variable_set(), places, var_name, n_bdd, go_up=True")],
  "up transitions generated from the down condition")
B("B57", "C11-B", [(SPACE, '''                if var in restriction and restriction[var] != fn_value:
                    # There is a conflict. We don't want to output this,
                    # but we also don't want to change the value.
                    candidates.remove(var)
                else:
                    done = False''', '''                if False:
                    candidates.remove(var)
                else:
                    done = False''')], "given values can be overwritten by percolation")
B("B58", "C11-C", [(SYMU, "    if reduced_f.is_true():\n        return 1\n    if reduced_f.is_false():\n        return 0", "    if reduced_f.is_true():\n        return 0\n    if reduced_f.is_false():\n        return 1")],
  "function_eval inverted after restriction")
B("B108", "C11-A", [(SPACE, "    for var, value in percolated.items():\n        var_name = network.get_network_variable_name(var)\n        result[var_name]",
                     "    for var, value in percolated.items():\n        var_name = network.get_network_variable_name(var)\n        if var_name in space:\n            continue\n        result[var_name]")],
  "percolate_space drops the given values from its result")
B("B109", "C11-D", [(DRV, "        if target_subspace.items() <= (LDOI.items() | {fix}):", "        if (LDOI.items() | {fix}) <= target_subspace.items():")],
  "single-driver test reversed")
B("B59", "C17-R", [(PN, 'new_name = re.sub("[^a-zA-Z0-9_]", "_", name)', 'new_name = re.sub("[^a-zA-Z0-9_-]", "_", name)')],
  "replacement class keeps '-' which the acceptance pattern rejects")
B("B110", "C17-P", [(PN, '        return f"b1_{variable}"', '        return f"B1_{variable}"'), (PN, '    if place.startswith("b1_"):', '    if place.startswith("B1_"):')],
  "place prefix starts with an upper-case letter (a clingo variable)")
V("V59", "replacement and acceptance class both without '_' is consistent... (kept: same classes)", edits=[(PN, 'if not re.fullmatch("[a-zA-Z0-9_]+", name):', 'if not re.fullmatch("[A-Za-z0-9_]+", name):')])

# the former seed C17-1 is behaviour-preserving on the current tree (see seeded/C17-1/meta.json): must stay silent ...
VARIANTS.append({"id": "V-C17-1", "kind": "benign", "patch": "/verif/seeded/C17-1/patch.diff",
                 "what": "constructor reuses self.symbolic's context for the Petri net (same variable order)"})
# ... and must fire as soon as the two networks can order their variables differently
VARIANTS.append({"id": "B111", "kind": "break", "rules": ["C17-O"], "patch": "/verif/seeded/C17-1/patch.diff",
                 "edits": [(IGU, "    network = network.infer_valid_graph()\n", "    network = BooleanNetwork.from_aeon(network.to_aeon()).infer_valid_graph()\n")],
                 "what": "context of a name-ordered copy used to translate the caller's network"})


# ------------------------------------------------------------------------------------------ round 3: symbolic encoder rules
B("B200", "C10-B", [(PN, "            pn.add_edge(places[var_name][0], t_name)  # type: ignore[reportUnknownMemberType] # noqa\n            pn.add_edge(t_name, places[var_name][1])",
                     "            pn.add_edge(places[var_name][1], t_name)  # type: ignore[reportUnknownMemberType] # noqa\n            pn.add_edge(t_name, places[var_name][0])")],
  "an up-transition moves the token from the one place to the zero place")
B("B201", "C10-B", [(PN, "            pn.add_edge(t_name, places[variable_str][value])  # type: ignore[reportUnknownMemberType] # noqa\n", "")],
  "condition literals consume their token (no arc back)")
B("B202", "C10-B", [(PN, "            if variable_str == var_name:\n                continue\n", "            if variable_str != var_name:\n                continue\n")],
  "only the changed variable's own literal gets read arcs")
B("B203", "C10-A", [(PN, "        places[name] = (n_name, p_name)", "        places[name] = (p_name, n_name)")], "place table stores (one place, zero place)")
B("B204", "C10-A", [(PN, "        n_bdd = function_bdd.l_not().l_and(var_bdd)", "        n_bdd = function_bdd.l_not().l_and(var_bdd.l_not())")],
  "down-transitions from NOT f AND NOT x")
B("B205", "C10-D", [(PN, "        for tr in result.successors(inverse_place):  # type: ignore", "        for tr in result.successors(fixed_place):  # type: ignore")],
  "consumers of the fixed place removed instead of consumers of the inverse place")
B("B206", "C10-D", [(PN, "        inverse_place = variable_to_place(var, not bool(value))", "        inverse_place = variable_to_place(var, bool(value))")],
  "inverse place = fixed place")
B("B207", "C10-D", [(PN, "    result = copy.deepcopy(petri_net)", "    result = petri_net")], "the caller's Petri net is modified")
B("B208", "C10-D", [(PN, "        result.remove_node(inverse_place)  # type: ignore\n", "")], "the inverse place survives")
B("B209", "C10-E", [(SPACE, "            if name in space:\n                new_bn.set_update_function(", "            if space.get(name):\n                new_bn.set_update_function(")],
  "free input fixed to 0 keeps its free update function (truthiness instead of membership)")
B("B210", "C10-E", [(SPACE, "    space = percolate_space(symbolic_network, space)\n\n    # Make a copy of the BN", "    percolate_space(symbolic_network, space)\n\n    # Make a copy of the BN")],
  "functions restricted to the unpercolated space")
B("B211", "C10-E", [(SPACE, "                    var, UpdateFunction.mk_const(new_bn, space[name])", "                    var, UpdateFunction.mk_const(new_bn, 1 - space[name])")],
  "free input fixed to the opposite constant")
B("B212", "C09-T4", [(TRAP, "            if place_to_variable(node)[0] not in ensure_subspace:\n                free_places.append(node)", "            free_places.append(node)")],
  "places of ensured variables count as free places")
B("B213", "C09-T4", [(TRAP, "        if problem == \"fix\":\n            ctl.add(f\"{p_name} ; {n_name}.\")", "        if problem != \"min\":\n            ctl.add(f\"{p_name} ; {n_name}.\")")],
  "totality also required for maximal trap spaces")
B("B214", "C09-T4", [(TRAP, "                for predecessor in petri_net.predecessors(node):  # type: ignore # noqa\n                    if predecessor not in successors:\n                        ctl.add(f\"{s_disjunction} :- {predecessor}.\")",
                       "                for predecessor in petri_net.predecessors(node):  # type: ignore # noqa\n                    if predecessor not in successors:\n                        ctl.add(f\"{predecessor} :- {s_disjunction}.\")")],
  "trap rule head and body exchanged")
B("B215", "C09-T2", [(TRAP, "                successors = list(petri_net.successors(node))  # type: ignore # noqa", "                successors = list(petri_net.predecessors(node))  # type: ignore # noqa")],
  "time-reversed generator reads predecessors twice")
B("B216", "C09-T3", [(TRAP, "        return len(results) < solution_limit", "        return len(results) <= solution_limit", 2)], "callback lets the result grow to limit + 1")
B("B217", "C13-WHILE", [(TGT, "                if s not in seen:\n                    seen.add(s)\n                    next_level.append(s)", "                if s not in seen:\n                    next_level.append(s)")],
  "target expansion: successors enqueued without being recorded as seen")
B("B220", "C11-B", [(SPACE, "                    done = False\n                    restriction[var] = fn_value", "                    restriction[var] = fn_value")],
  "a newly fixed value does not trigger another round")
B("B221", "C11-B", [(SPACE, "            if fn_value is not None:\n                if var in restriction and restriction[var] != fn_value:",
                     "            if fn_value is None:\n                candidates.remove(var)\n            else:\n                if var in restriction and restriction[var] != fn_value:")],
  "undetermined variables are dropped from the candidates")
B("B222", "C11-B", [(SPACE, "                    restriction[var] = fn_value\n                    result[var] = fn_value\n                    candidates.remove(var)",
                     "                    restriction[var] = fn_value\n                    candidates.remove(var)")], "newly fixed values never reach the result")
B("B223", "C11-C", [(SYMU, "    if f.is_false():\n        return 0\n    if f.is_true():\n        return 1\n", "    if f.is_false():\n        return 1\n    if f.is_true():\n        return 0\n")],
  "constants evaluated to the opposite value")
B("B224", "C11-C", [(SYMU, "    reduced_f = f.r_restrict(state)", "    reduced_f = f")], "function is never restricted to the state")
B("B225", "C11-D", [(DRV, "        LDOIs[(var, 1)] = percolate_space_strict(network, {var: 1})", "        LDOIs[(var, 1)] = percolate_space_strict(network, {var: 0})")],
  "LDOI of x=1 computed from x=0")
B("B226", "C11-A", [(SPACE, "        result[var_name] = cast(Literal[0, 1], int(value))", "        if value:\n            result[var_name] = cast(Literal[0, 1], int(value))")],
  "values fixed to 0 are dropped from the percolated space")


# ------------------------------------------------------------------------------------------ mechanical benign transforms
def _rename_locals_in_tree(tree: ast.Module, suffix: str, pick=None) -> int:
    """Rename every local variable (not parameters, not globals) of every top-level function / method, consistently
    through nested functions and comprehensions. Behaviour-preserving by construction."""
    n_renamed = 0

    def top_functions(body):
        for st in body:
            if isinstance(st, ast.FunctionDef):
                yield st
            elif isinstance(st, ast.ClassDef):
                yield from top_functions(st.body)
            elif isinstance(st, (ast.If, ast.Try)):
                yield from top_functions(st.body)
                yield from top_functions(getattr(st, "orelse", []))

    module_names = {n.id for st in tree.body for n in ast.walk(st) if isinstance(n, ast.Name) and isinstance(n.ctx, ast.Store)
                    and not isinstance(st, (ast.FunctionDef, ast.ClassDef))}
    for fn in top_functions(tree.body):
        params, stored, declared, nested = set(), set(), set(), set()
        for n in ast.walk(fn):
            if isinstance(n, (ast.FunctionDef, ast.Lambda)):
                a = n.args
                params |= {x.arg for x in a.posonlyargs + a.args + a.kwonlyargs}
                if a.vararg:
                    params.add(a.vararg.arg)
                if a.kwarg:
                    params.add(a.kwarg.arg)
                if isinstance(n, ast.FunctionDef) and n is not fn:
                    nested.add(n.name)
            elif isinstance(n, ast.Name) and isinstance(n.ctx, (ast.Store, ast.Del)):
                stored.add(n.id)
            elif isinstance(n, (ast.Global, ast.Nonlocal)):
                declared |= set(n.names)
            elif isinstance(n, ast.ExceptHandler) and n.name:
                stored.add(n.name)
        names = stored - params - declared - nested - module_names
        if pick is not None:
            names = {x for x in names if pick(x)}
        if not names:
            continue
        for n in ast.walk(fn):
            if isinstance(n, ast.Name) and n.id in names:
                n.id = n.id + suffix
                n_renamed += 1
            elif isinstance(n, ast.ExceptHandler) and n.name in names:
                n.name = n.name + suffix
    return n_renamed


def rename_all_locals(root: str) -> None:
    from pathlib import Path
    for f in Path(root, "biobalm").rglob("*.py"):
        tree = ast.parse(f.read_text())
        _rename_locals_in_tree(tree, "_rn")
        f.write_text(ast.unparse(tree))


V("V200", "every local variable of every function renamed (<name>_rn)", transform="rename_all_locals")


def rename_private_functions(root: str) -> None:
    """a maintainer renames private functions (and one public helper) consistently in the whole package"""
    import re as _re
    ren = {"_expand_one_node": "_expand_single_node", "make_heuristic_retained_set": "initial_retained_set",
           "_update_node_depth": "_raise_depth", "_ensure_edge": "_link", "compute_attractor_candidates": "attractor_candidate_states",
           "_create_clingo_constraints": "_trap_space_program"}
    for f in Path(root, "biobalm").rglob("*.py"):
        s = f.read_text()
        for a, b in ren.items():
            s = _re.sub(rf"\b{a}\b", b, s)
        f.write_text(s)


V("V201", "six functions renamed consistently in the whole package (anchors of many rules)", transform="rename_private_functions")

V("V202", "if/elif chains on string-valued options written as match statements (find_drivers strategy, node kinds of the fixed-point encoder)",
  edits=[(CTRL, """    if strategy == "internal":
        driver_pool = set(target_trap_space_inner) - forbidden_drivers
    elif strategy == "all":
        driver_pool = set(bn.network_variable_names()) - forbidden_drivers
    else:
        raise ValueError("Unknown driver search strategy")
""", """    match strategy:
        case "internal":
            driver_pool = set(target_trap_space_inner) - forbidden_drivers
        case "all":
            driver_pool = set(bn.network_variable_names()) - forbidden_drivers
        case _:
            raise ValueError("Unknown driver search strategy")
"""),
         (TRAP, """        if kind == "place":
            continue
        elif kind == "transition":
            preds = list(petri_net.predecessors(node))  # type: ignore

            pred_rhs = "; ".join(preds)  # type: ignore
            ctl.add("base", [], f":- {pred_rhs}.")
        else:
            raise Exception(f"Unexpected node kind: `{kind}`.")
""", """        match kind:
            case "place":
                continue
            case "transition":
                preds = list(petri_net.predecessors(node))  # type: ignore

                pred_rhs = "; ".join(preds)  # type: ignore
                ctl.add("base", [], f":- {pred_rhs}.")
            case _:
                raise Exception(f"Unexpected node kind: `{kind}`.")
""")])
