"""Normalisation pre-pass: functions that the rule tables do not know are part of their callers.

The rules of this analyser are anchored in named functions of the reference tree (`known_functions.txt`).
A function that is not in that list is a *new helper* (extract-method refactoring, shared reset helper,
predicate helper, split of a long function). Instead of treating its calls as opaque, the pre-pass inlines
it -- on the syntax tree, before any model is built -- into every caller where this is possible without
changing the control flow:

  (E)  the helper is a side-effect free chain of `if`/`return` (and local lets): the call is replaced by the
       corresponding conditional expression (usable inside tests and Boolean operators);
  (S)  the call is the whole value of an expression statement, an assignment or a `return`: the body is
       spliced in, parameters substituted, `return e` lowered to the assignment (continuation copied into
       the branches that fall through); a `return helper(..)` keeps the helper's returns as they are;
  (H)  a call nested in a simple statement is first hoisted into a temporary.

Helpers that are generators, recursive, use */** parameters, or return from inside a loop (unless (S) in
tail position) stay opaque calls. Inlined statements carry the line of the call site and `_inl_from`.
A new function all of whose call sites were inlined is removed from the program model.
"""

from __future__ import annotations

import ast
import copy
from pathlib import Path

KNOWN_FILE = Path(__file__).with_name("known_functions.txt")
MAX_STMTS = 400


class CannotInline(Exception):
    pass


def known_functions() -> set[str]:
    return {l.strip().split("(")[0] for l in KNOWN_FILE.read_text().splitlines() if l.strip() and not l.startswith("#")}


def known_signatures() -> dict[str, tuple[str, ...]]:
    """module:qualname -> parameter names of the reference tree"""
    out = {}
    for l in KNOWN_FILE.read_text().splitlines():
        l = l.strip()
        if l and not l.startswith("#") and "(" in l:
            k, ps = l.split("(", 1)
            out[k] = tuple(x for x in ps.rstrip(")").split(",") if x)
    return out


def undo_renames(repo) -> dict[str, str]:
    """A function of the reference tree that vanished while a new function with the same parameters appeared in its
    place (same module and class) was *renamed*: the new name is rewritten to the old one everywhere (definition,
    calls, attribute accesses, imports), so that rules -- which know the functions of the reference tree by name --
    see the same program. Returns {new key: old key}."""
    sigs = known_signatures()
    current = repo.functions
    vanished = [k for k in sigs if k not in current]
    fresh = [k for k in current if k not in sigs]
    if not vanished or not fresh:
        return {}
    pairs: dict[str, str] = {}
    for k in vanished:
        mod, q = k.split(":")
        prefix = q.rsplit(".", 1)[0] + "." if "." in q else ""
        cands = []
        for n in fresh:
            m2, q2 = n.split(":")
            p2 = q2.rsplit(".", 1)[0] + "." if "." in q2 else ""
            if p2 == prefix and tuple(current[n].params()) == sigs[k] and q2.split(".")[-1] != q.split(".")[-1]:
                cands.append(n)
        same_mod = [n for n in cands if n.split(":")[0] == mod]
        pick = same_mod if len(same_mod) == 1 else cands if len(cands) == 1 and not same_mod else []
        if not pick:
            # renamed together with its parameters: the only function that vanished from this class / module and the only
            # new one there, with the same number of parameters
            van_here = [k2 for k2 in vanished if k2.split(":")[0] == mod and (k2.split(":")[1].rsplit(".", 1)[0] + "." if "." in k2.split(":")[1] else "") == prefix]
            new_here = [n for n in fresh if n.split(":")[0] == mod and (n.split(":")[1].rsplit(".", 1)[0] + "." if "." in n.split(":")[1] else "") == prefix
                        and "." not in n.split(":")[1][len(prefix):]]
            if len(van_here) == 1 and len(new_here) == 1 and len(current[new_here[0]].params()) == len(sigs[k]):
                pick = new_here
        if len(pick) == 1 and pick[0] not in pairs:
            pairs[pick[0]] = k
    if not pairs:
        return {}
    ren = {n.split(":")[1].split(".")[-1]: k.split(":")[1].split(".")[-1] for n, k in pairs.items()}
    # the old names must be free
    taken = {x.id for m in repo.modules.values() for x in ast.walk(m.tree) if isinstance(x, ast.Name)} | \
            {x.attr for m in repo.modules.values() for x in ast.walk(m.tree) if isinstance(x, ast.Attribute)}
    ren = {a: b for a, b in ren.items() if b not in taken}
    if not ren:
        return {}
    for m in repo.modules.values():
        for x in ast.walk(m.tree):
            if isinstance(x, ast.FunctionDef) and x.name in ren:
                x.name = ren[x.name]
            elif isinstance(x, ast.Name) and x.id in ren:
                x.id = ren[x.id]
            elif isinstance(x, ast.Attribute) and x.attr in ren:
                x.attr = ren[x.attr]
            elif isinstance(x, ast.ImportFrom):
                for a in x.names:
                    if a.name in ren:
                        a.name = ren[a.name]
                    if a.asname in ren:
                        a.asname = ren[a.asname]
    repo.reindex()
    return {n: k for n, k in pairs.items() if n.split(":")[1].split(".")[-1] in ren}


# --------------------------------------------------------------------------- helpers


def _own_walk(root):
    stack = [root]
    first = True
    while stack:
        n = stack.pop()
        if not first and isinstance(n, (ast.FunctionDef, ast.AsyncFunctionDef, ast.ClassDef, ast.Lambda)):
            continue
        first = False
        yield n
        stack.extend(ast.iter_child_nodes(n))


def _nested_defs(fn: ast.FunctionDef) -> list[ast.FunctionDef]:
    """closures defined at the function's own level (not inside other closures)"""
    out = []
    stack = list(ast.iter_child_nodes(fn))
    while stack:
        n = stack.pop()
        if isinstance(n, ast.FunctionDef):
            out.append(n)
            continue
        if isinstance(n, (ast.AsyncFunctionDef, ast.ClassDef, ast.Lambda)):
            continue
        stack.extend(ast.iter_child_nodes(n))
    return out


def _stored_names(fn: ast.FunctionDef) -> set[str]:
    out = set()
    for n in _own_walk(fn):
        if isinstance(n, ast.Name) and isinstance(n.ctx, (ast.Store, ast.Del)):
            out.add(n.id)
        elif isinstance(n, ast.ExceptHandler) and n.name:
            out.add(n.name)
    for d in _nested_defs(fn):
        out.add(d.name)
    return out


def _body(fn: ast.FunctionDef) -> list[ast.stmt]:
    b = list(fn.body)
    if b and isinstance(b[0], ast.Expr) and isinstance(b[0].value, ast.Constant) and isinstance(b[0].value.value, str):
        b = b[1:]
    return b


def _contains_return(s: ast.AST) -> bool:
    if isinstance(s, (ast.FunctionDef, ast.AsyncFunctionDef, ast.ClassDef, ast.Lambda)):
        return False    # the returns of a closure are its own
    return any(isinstance(n, ast.Return) for n in _own_walk(s)) if not isinstance(s, ast.Return) else True


def eligible(fn: ast.FunctionDef) -> bool:
    a = fn.args
    if a.vararg or a.kwarg:
        return False
    for d in fn.decorator_list:
        if not (isinstance(d, ast.Name) and d.id == "staticmethod"):
            return False
    for n in ast.walk(fn):
        if isinstance(n, (ast.Yield, ast.YieldFrom, ast.Global, ast.Nonlocal, ast.Await)):
            return False
        if n is not fn and isinstance(n, (ast.AsyncFunctionDef, ast.ClassDef)):
            return False
    # closures are carried along when their own names cannot be confused with the helper's
    outer = {p.arg for p in a.posonlyargs + a.args + a.kwonlyargs} | _stored_names(fn)
    for d in _nested_defs(fn):
        da = d.args
        if da.vararg or da.kwarg or d.decorator_list or _nested_defs(d):
            return False
        inner = {p.arg for p in da.posonlyargs + da.args + da.kwonlyargs} | (_stored_names(d) - {x.name for x in _nested_defs(d)})
        if inner & outer:
            return False
    return True


def _is_expr_helper(fn: ast.FunctionDef) -> bool:
    b = _body(fn)
    return len(b) == 1 and isinstance(b[0], ast.Return)


def eligible_generator(fn: ast.FunctionDef) -> bool:
    """A generator whose `yield e` are plain expression statements: `for x in gen(..): BODY` can be replaced by
    the generator's body with `x = e; BODY` at every yield."""
    a = fn.args
    if a.vararg or a.kwarg or fn.decorator_list:
        return False
    ys = 0
    for n in ast.walk(fn):
        if isinstance(n, (ast.YieldFrom, ast.Global, ast.Nonlocal, ast.Await)):
            return False
        if n is not fn and isinstance(n, (ast.FunctionDef, ast.AsyncFunctionDef, ast.ClassDef, ast.Lambda)):
            return False
        if isinstance(n, ast.Return) and n.value is not None:
            return False
        if isinstance(n, ast.Yield):
            ys += 1
    stmts_y = sum(1 for n in ast.walk(fn) if isinstance(n, ast.Expr) and isinstance(n.value, ast.Yield) and n.value.value is not None)
    return ys > 0 and ys == stmts_y and ys <= 6


class _Subst(ast.NodeTransformer):
    def __init__(self, env: dict[str, ast.expr], rename: dict[str, str]):
        self.env, self.rename = env, rename

    def visit_Name(self, n: ast.Name):
        if n.id in self.rename:
            return ast.copy_location(ast.Name(self.rename[n.id], n.ctx), n)
        if isinstance(n.ctx, ast.Load) and n.id in self.env:
            return copy.deepcopy(self.env[n.id])
        return n

    def visit_ExceptHandler(self, n: ast.ExceptHandler):
        if n.name and n.name in self.rename:
            n.name = self.rename[n.name]
        return self.generic_visit(n)

    def visit_FunctionDef(self, n: ast.FunctionDef):
        if n.name in self.rename:
            n.name = self.rename[n.name]
        return self.generic_visit(n)


def _simple_arg(e: ast.expr) -> bool:
    """Expressions that may be substituted for a parameter at every use."""
    if isinstance(e, (ast.Name, ast.Constant)):
        return True
    if isinstance(e, ast.Attribute):
        return _simple_arg(e.value)
    if isinstance(e, ast.Subscript):
        return _simple_arg(e.value) and _simple_arg(e.slice)
    if isinstance(e, ast.UnaryOp):
        return _simple_arg(e.operand)
    if isinstance(e, ast.Tuple):
        return all(_simple_arg(x) for x in e.elts)
    if isinstance(e, ast.Call):
        f = e.func
        name = f.attr if isinstance(f, ast.Attribute) else f.id if isinstance(f, ast.Name) else None
        if name in ("node_data", "cast", "root", "len") and all(_simple_arg(a) for a in e.args) and not e.keywords:
            return not isinstance(f, ast.Attribute) or _simple_arg(f.value)
    return False


def _set_loc(nodes, line: int, origin: str):
    for s in nodes:
        for n in ast.walk(s):
            if hasattr(n, "lineno") or isinstance(n, (ast.expr, ast.stmt, ast.ExceptHandler)):
                n.lineno = line
                n.end_lineno = line
                n.col_offset = 0
                n.end_col_offset = 0
            if isinstance(n, ast.stmt):
                n._inl_from = origin


# --------------------------------------------------------------------------- one call site


class Site:
    counter = 0

    def __init__(self, caller: ast.FunctionDef, callee: ast.FunctionDef, call: ast.Call, receiver: ast.expr | None,
                 origin: str):
        self.caller, self.callee, self.call, self.receiver, self.origin = caller, callee, call, receiver, origin

    def bind(self) -> tuple[dict[str, ast.expr], dict[str, str], list[ast.stmt]]:
        fn, call = self.callee, self.call
        a = fn.args
        params = [p.arg for p in a.posonlyargs + a.args]
        static = any(isinstance(d, ast.Name) and d.id == "staticmethod" for d in fn.decorator_list)
        actual: dict[str, ast.expr] = {}
        pos = list(call.args)
        if any(isinstance(x, ast.Starred) for x in pos) or any(k.arg is None for k in call.keywords):
            raise CannotInline("star arguments")
        if self.receiver is not None and not static:
            if not params:
                raise CannotInline("method without self")
            actual[params[0]] = self.receiver
            params = params[1:]
        if len(pos) > len(params):
            raise CannotInline("too many arguments")
        for p, v in zip(params, pos):
            actual[p] = v
        for k in call.keywords:
            actual[k.arg] = k.value
        allp = [p.arg for p in a.posonlyargs + a.args]
        for p, d in zip(allp[len(allp) - len(a.defaults):], a.defaults):
            actual.setdefault(p, d)
        for p, d in zip(a.kwonlyargs, a.kw_defaults):
            if d is not None:
                actual.setdefault(p.arg, d)
        for p in allp + [p.arg for p in a.kwonlyargs]:
            if p not in actual:
                raise CannotInline(f"parameter {p} unbound")
        stored = _stored_names(fn)
        caller_names = _stored_names(self.caller) | {p.arg for p in self.caller.args.posonlyargs + self.caller.args.args + self.caller.args.kwonlyargs}
        Site.counter += 1
        k = self.k = Site.counter
        rename = {n: f"{n}__i{k}" for n in stored if n in caller_names or n in actual}
        env: dict[str, ast.expr] = {}
        pre: list[ast.stmt] = []
        for p, v in actual.items():
            if p in stored or not _simple_arg(v):
                nm = rename.get(p) or (f"{p}__i{k}" if p in caller_names else p)
                rename[p] = nm
                pre.append(ast.Assign([ast.Name(nm, ast.Store())], copy.deepcopy(v)))
            else:
                env[p] = v
        return env, rename, pre

    # (E) ------------------------------------------------------------------
    def as_expression(self) -> ast.expr:
        env, rename, pre = self.bind()
        if pre:
            # arguments that are not plain names are substituted as they are (analysis only: evaluation counts do not matter)
            stored = _stored_names(self.callee)
            for st in pre:
                nm = st.targets[0].id
                orig = next((k for k, v in rename.items() if v == nm), nm)
                if orig in stored:
                    raise CannotInline("a parameter is assigned in the helper")
                uses = sum(1 for n in _own_walk(self.callee) if isinstance(n, ast.Name) and n.id == orig and isinstance(n.ctx, ast.Load))
                if uses > 4:
                    raise CannotInline("argument expression used many times")
                rename.pop(orig, None)
                env[orig] = st.value
            pre = []
        sub = _Subst(env, rename)

        def S(e):
            return sub.visit(copy.deepcopy(e))

        def all_return(stmts) -> bool:
            for s in stmts:
                if isinstance(s, (ast.Return, ast.Raise)):
                    return True
                if isinstance(s, ast.If) and s.orelse and all_return(s.body) and all_return(s.orelse):
                    return True
            return False

        budget = [120]

        def to_expr(stmts, lets: dict[str, ast.expr]) -> ast.expr:
            budget[0] -= 1
            if budget[0] < 0:
                raise CannotInline("expression too large")
            if not stmts:
                return ast.Constant(None)
            s, rest = stmts[0], stmts[1:]

            def L(e):
                e = S(e)
                if lets:
                    e = _Subst(lets, {}).visit(e)
                return e
            if isinstance(s, ast.Return):
                return L(s.value) if s.value is not None else ast.Constant(None)
            if isinstance(s, ast.Assert) or (isinstance(s, ast.Expr) and isinstance(s.value, ast.Constant)) or isinstance(s, ast.Pass):
                return to_expr(rest, lets)
            if isinstance(s, (ast.Assign, ast.AnnAssign)):
                tg = s.targets[0] if isinstance(s, ast.Assign) and len(s.targets) == 1 else getattr(s, "target", None)
                if isinstance(tg, ast.Name) and s.value is not None:
                    v = L(s.value)
                    nm = rename.get(tg.id, tg.id)
                    uses = sum(1 for r in rest for n in ast.walk(r) if isinstance(n, ast.Name) and n.id == tg.id and isinstance(n.ctx, ast.Load))
                    if any(isinstance(x, ast.Call) for x in ast.walk(v)) and uses > 1 and not _duplicable(v):
                        # evaluate once, at the first use: `(nm := v)` there, `nm` afterwards -- when the uses are in one
                        # returned expression whose operands are evaluated left to right
                        if len(rest) == 1 and isinstance(rest[0], ast.Return) and rest[0].value is not None and not any(
                                isinstance(x, (ast.IfExp, ast.Lambda, ast.ListComp, ast.SetComp, ast.DictComp, ast.GeneratorExp, ast.NamedExpr))
                                for x in ast.walk(rest[0].value)):
                            body_e = L(rest[0].value)
                            state = {"first": True}

                            class W(ast.NodeTransformer):
                                def visit_Name(me, n):  # noqa: N805
                                    if n.id == tg.id and isinstance(n.ctx, ast.Load):
                                        if state["first"]:
                                            state["first"] = False
                                            return ast.NamedExpr(ast.Name(nm, ast.Store()), copy.deepcopy(v))
                                        return ast.Name(nm, ast.Load())
                                    return n

                                def generic_visit(me, node):  # noqa: N805  (fields in source order = evaluation order here)
                                    return super().generic_visit(node)
                            return W().visit(body_e)
                        raise CannotInline("let with a call used more than once")
                    if any(isinstance(n, ast.Name) and n.id == tg.id and isinstance(n.ctx, ast.Store) for r in rest for n in ast.walk(r)):
                        raise CannotInline("let rebound")
                    return to_expr(rest, {**lets, nm: v})
                raise CannotInline("store in expression helper")
            if isinstance(s, ast.If):
                if all_return(s.body):
                    return ast.IfExp(L(s.test), to_expr(s.body, lets), to_expr(list(s.orelse) + rest, lets))
                return ast.IfExp(L(s.test), to_expr(list(s.body) + rest, lets), to_expr(list(s.orelse) + rest, lets))
            if isinstance(s, ast.For) and not s.orelse and s.body and isinstance(s.body[-1], ast.If) and not s.body[-1].orelse \
                    and len(s.body[-1].body) == 1 and isinstance(s.body[-1].body[0], ast.Return):
                # search loop:  for x in it: [lets]; if c: return e      ->   e if any(c for x in it) else <rest>
                inner = dict(lets)
                for b in s.body[:-1]:
                    if isinstance(b, ast.Assign) and len(b.targets) == 1 and isinstance(b.targets[0], ast.Name):
                        inner[rename.get(b.targets[0].id, b.targets[0].id)] = _Subst(inner, {}).visit(S(b.value))
                    elif isinstance(b, (ast.Assert, ast.Pass)) or (isinstance(b, ast.Expr) and isinstance(b.value, ast.Constant)):
                        continue
                    else:
                        raise CannotInline("statement in a search loop")
                cond = _Subst(inner, {}).visit(S(s.body[-1].test))
                gen = ast.GeneratorExp(cond, [ast.comprehension(S(s.target), L(s.iter), [], 0)])
                found = s.body[-1].body[0].value
                hit = _Subst(inner, {}).visit(S(found)) if found is not None else ast.Constant(None)
                if any(isinstance(n, ast.Name) and isinstance(n.ctx, ast.Load) and n.id in
                       {x.id for x in ast.walk(S(s.target)) if isinstance(x, ast.Name)} for n in ast.walk(hit)):
                    raise CannotInline("the found element is returned")
                return ast.IfExp(ast.Call(ast.Name("any", ast.Load()), [gen], []), hit, to_expr(rest, lets))
            raise CannotInline(f"{type(s).__name__} in expression helper")

        e = to_expr(_body(self.callee), {})
        e = _simplify(e)
        _set_loc([e], self.call.lineno, self.origin)
        return e

    # (S) ------------------------------------------------------------------
    def as_statements(self, form: str, target_stmt: ast.stmt) -> list[ast.stmt]:
        env, rename, pre = self.bind()
        # `T = helper(..)` where the helper returns its local `r` on every path: call the local T and drop the copy
        same_as_target = None
        if form == "assign" and isinstance(target_stmt, ast.Assign) and len(target_stmt.targets) == 1 \
                and isinstance(target_stmt.targets[0], ast.Name):
            T = target_stmt.targets[0].id
            rets = [n for n in _own_walk(self.callee) if isinstance(n, ast.Return)]
            names = {n.value.id for n in rets if isinstance(n.value, ast.Name)}
            a_ = self.callee.args
            params = {p.arg for p in a_.posonlyargs + a_.args + a_.kwonlyargs}
            if rets and len(names) == 1 and all(isinstance(n.value, ast.Name) for n in rets):
                r = next(iter(names))
                used = {n.id for n in _own_walk(self.callee) if isinstance(n, ast.Name)}
                arg_names = {n.id for v in env.values() for n in ast.walk(v) if isinstance(n, ast.Name)}
                if r not in params and r in _stored_names(self.callee) and (T == r or T not in used) and T not in arg_names \
                        and T not in rename.values():
                    rename[r] = T
                    same_as_target = T
        # the same for `T1, T2 = helper(..)` with `return (r1, r2)` on every path
        same_tuple = None
        if form == "assign" and isinstance(target_stmt, ast.Assign) and len(target_stmt.targets) == 1 \
                and isinstance(target_stmt.targets[0], ast.Tuple) \
                and all(isinstance(x, ast.Name) for x in target_stmt.targets[0].elts):
            Ts = [x.id for x in target_stmt.targets[0].elts]
            rets = [n for n in _own_walk(self.callee) if isinstance(n, ast.Return)]
            shapes = {tuple(x.id for x in n.value.elts) for n in rets
                      if isinstance(n.value, ast.Tuple) and all(isinstance(x, ast.Name) for x in n.value.elts)}
            a_ = self.callee.args
            params = {p.arg for p in a_.posonlyargs + a_.args + a_.kwonlyargs}
            if rets and len(shapes) == 1 and all(isinstance(n.value, ast.Tuple) for n in rets) \
                    and len(next(iter(shapes))) == len(Ts) == len(set(Ts)) and len(set(next(iter(shapes)))) == len(Ts):
                rs = list(next(iter(shapes)))
                used = {n.id for n in _own_walk(self.callee) if isinstance(n, ast.Name)}
                arg_names = {n.id for v in env.values() for n in ast.walk(v) if isinstance(n, ast.Name)}
                stored = _stored_names(self.callee)
                if all(r not in params and r in stored and (T == r or T not in used) and T not in arg_names
                       and rename.get(r, T) in (T, f"{r}__i{self.k}") for r, T in zip(rs, Ts)) \
                        and not any(T in rename.values() for T in Ts):
                    for r, T in zip(rs, Ts):
                        rename[r] = T
                    same_tuple = Ts
        sub = _Subst(env, rename)
        body = [sub.visit(copy.deepcopy(s)) for s in _body(self.callee)]

        def ret(e: ast.expr | None) -> list[ast.stmt]:
            v = e if e is not None else ast.Constant(None)
            if same_as_target is not None and isinstance(v, ast.Name) and v.id == same_as_target:
                return []
            if same_tuple is not None and isinstance(v, ast.Tuple) and [getattr(x, "id", None) for x in v.elts] == same_tuple:
                return []
            if form == "expr":
                return [ast.Expr(v)] if any(isinstance(x, ast.Call) for x in ast.walk(v)) else []
            if form == "assign":
                t = copy.deepcopy(target_stmt)
                t.value = v
                return [t]
            raise AssertionError(form)

        if form == "return":
            out = body
            last = out[-1] if out else None
            if not (isinstance(last, (ast.Return, ast.Raise))):
                out = out + [ast.Return(ast.Constant(None))]
        elif not any(_contains_return(x) for x in body):
            out = list(body) + ret(None)
        else:
            out = _lower_structured(body, ret)
        out = pre + out
        ast.fix_missing_locations(ast.Module(out, []))
        _set_loc(out, self.call.lineno, self.origin)
        return out


def _yields_end_loop_bodies(fn: ast.FunctionDef) -> bool:
    """every `yield` statement of the generator is the last statement of the body of a loop"""
    ok = [True]
    n_y = [0]

    def walk(body: list[ast.stmt], is_loop_body: bool) -> None:
        for k, st in enumerate(body):
            if isinstance(st, ast.Expr) and isinstance(st.value, ast.Yield):
                n_y[0] += 1
                if not (is_loop_body and k == len(body) - 1):
                    ok[0] = False
            elif isinstance(st, (ast.For, ast.While)):
                walk(st.body, True)
                walk(st.orelse, False)
            elif isinstance(st, (ast.FunctionDef, ast.ClassDef)):
                continue
            else:
                for fld in ("body", "orelse", "finalbody"):
                    b = getattr(st, fld, None)
                    if isinstance(b, list) and b and isinstance(b[0], ast.stmt):
                        walk(b, False)
                for h in getattr(st, "handlers", []) or []:
                    walk(h.body, False)
    walk(_body(fn), False)
    return ok[0] and n_y[0] > 0


def _single_tail_loop(fn: ast.FunctionDef) -> bool:
    """The generator yields from one loop only, and that loop is the last thing it does (reached through if / with
    statements that are themselves last): leaving that loop with `break` ends the generator, which is what `break` in
    the consumer's loop means."""
    ys = [n for n in ast.walk(fn) if isinstance(n, (ast.Yield, ast.YieldFrom))]
    if not ys:
        return False
    body = _body(fn)
    while True:
        if not body:
            return False
        last = body[-1]
        if any(isinstance(n, (ast.Yield, ast.YieldFrom)) for st in body[:-1] for n in ast.walk(st)):
            return False
        if isinstance(last, ast.With):
            body = last.body
        elif isinstance(last, ast.If):
            in_b = any(isinstance(n, (ast.Yield, ast.YieldFrom)) for st in last.body for n in ast.walk(st))
            in_o = any(isinstance(n, (ast.Yield, ast.YieldFrom)) for st in last.orelse for n in ast.walk(st))
            if in_b == in_o:
                return False
            body = last.body if in_b else last.orelse
        elif isinstance(last, (ast.For, ast.While)):
            if last.orelse:
                return False
            # no yield inside a nested loop
            for st in last.body:
                for n in ast.walk(st):
                    if isinstance(n, (ast.For, ast.While)) and any(isinstance(y, (ast.Yield, ast.YieldFrom)) for y in ast.walk(n)):
                        return False
            return True
        else:
            return False


def inline_generator_loop(site: "Site", loop: ast.For) -> list[ast.stmt]:
    if loop.orelse:
        raise CannotInline("for/else over a generator")
    for n in _own_walk_stmts(loop.body):
        if isinstance(n, ast.Break) and _single_tail_loop(site.callee):
            continue
        if isinstance(n, (ast.Break, ast.Return)):
            raise CannotInline("loop body leaves the loop early")
        if isinstance(n, ast.Continue) and not _yields_end_loop_bodies(site.callee):
            # `continue` = "next element": at the place of a `yield` that is the last statement of a loop body of the
            # generator, continuing that loop is exactly this
            raise CannotInline("continue in the loop body")
    env, rename, pre = site.bind()
    sub = _Subst(env, rename)
    body = [sub.visit(copy.deepcopy(s)) for s in _body(site.callee)]
    if any(isinstance(n, ast.Return) for s in body for n in ast.walk(s)):
        body = _lower_structured(body, lambda e: [])

    class Y(ast.NodeTransformer):
        def visit_Expr(self, n):
            if isinstance(n.value, ast.Yield):
                bind = [ast.Assign([copy.deepcopy(loop.target)], n.value.value)]
                lb = copy.deepcopy(loop.body)
                # `for a, b in gen(): BODY` at `yield x, y`: where BODY never re-binds a or b and the generator's x, y are
                # plain names, BODY reads x and y themselves (the bindings stay for readers after the loop)
                tg, yv = loop.target, n.value.value
                pairs = list(zip(tg.elts, yv.elts)) if isinstance(tg, ast.Tuple) and isinstance(yv, ast.Tuple) \
                    and len(tg.elts) == len(yv.elts) else [(tg, yv)]
                stored = {y.id for s_ in lb for y in ast.walk(s_) if isinstance(y, ast.Name) and isinstance(y.ctx, (ast.Store, ast.Del))}
                closures = any(isinstance(y, (ast.FunctionDef, ast.Lambda)) for s_ in lb for y in ast.walk(s_))
                ren = {t.id: v.id for t, v in pairs if isinstance(t, ast.Name) and isinstance(v, ast.Name)
                       and t.id not in stored and v.id not in stored and t.id != v.id}
                if ren and not closures:
                    class RN(ast.NodeTransformer):
                        def visit_Name(self, x):
                            return ast.copy_location(ast.Name(ren[x.id], x.ctx), x) if x.id in ren and isinstance(x.ctx, ast.Load) else x
                    lb = [RN().visit(s_) for s_ in lb]
                return bind + lb
            return n
    out = []
    for st in body:
        r = Y().visit(st)
        out.extend(r if isinstance(r, list) else [r])
    out = pre + out
    ast.fix_missing_locations(ast.Module(out, []))
    _set_loc(out, site.call.lineno, site.origin)
    # keep the line numbers of the caller's own loop body
    return out


def _own_walk_stmts(stmts):
    """Statements of a loop body that belong to this loop level (nested loops own their break/continue)."""
    for s in stmts:
        yield s
        if isinstance(s, (ast.For, ast.While, ast.FunctionDef, ast.AsyncFunctionDef, ast.ClassDef)):
            # returns inside nested loops still leave the function
            for n in ast.walk(s):
                if isinstance(n, ast.Return):
                    yield n
            continue
        for fld in ("body", "orelse", "finalbody"):
            b = getattr(s, fld, None)
            if isinstance(b, list) and b and isinstance(b[0], ast.stmt):
                yield from _own_walk_stmts(b)
        if isinstance(s, ast.Try):
            for h in s.handlers:
                yield from _own_walk_stmts(h.body)


def _lower_structured(stmts: list[ast.stmt], ret) -> list[ast.stmt]:
    """`return e` -> ret(e); statements after a (conditional) return move into the else branch."""
    count = [0]

    def go(stmts: list[ast.stmt], k: list[ast.stmt] | None) -> list[ast.stmt]:
        # k = None: falls out of the inlined block (implicit `return None`)
        count[0] += 1
        if count[0] > MAX_STMTS:
            raise CannotInline("lowering too large")
        if not stmts:
            return copy.deepcopy(k) if k is not None else ret(None)
        s, rest = stmts[0], stmts[1:]
        if isinstance(s, ast.Return):
            return ret(s.value)
        if isinstance(s, ast.Raise):
            return [s]
        if _contains_return(s):
            if isinstance(s, ast.If):
                kk = go(rest, k)
                b = go(list(s.body), kk) or [ast.Pass()]
                o = go(list(s.orelse), kk)
                return [ast.If(s.test, b, o)]
            if isinstance(s, ast.Try) and not rest and k is None and not s.orelse and not any(_contains_return(x) for x in s.finalbody):
                # last statement of the helper: returns become assignments, control leaves the try normally
                hs = [ast.ExceptHandler(h.type, h.name, go(list(h.body), None) or [ast.Pass()]) for h in s.handlers]
                return [ast.Try(go(list(s.body), None) or [ast.Pass()], hs, [], list(s.finalbody))]
            if isinstance(s, ast.Try) and not s.orelse and not s.finalbody and not any(_contains_return(x) for x in s.body) \
                    and s.handlers and all(h.body and isinstance(h.body[-1], (ast.Return, ast.Raise)) for h in s.handlers):
                # `try: A  except E: return x` followed by the rest: every handler leaves, so the rest runs exactly when A
                # raised nothing -- it is the try's else clause (whose exceptions the handlers do not see either)
                kk = go(rest, k)
                hs = [ast.ExceptHandler(h.type, h.name, go(list(h.body), None) or [ast.Pass()]) for h in s.handlers]
                return [ast.Try(list(s.body), hs, kk or [ast.Pass()], [])]
            if isinstance(s, ast.With) and not rest and k is None:
                return [ast.With(s.items, go(list(s.body), None) or [ast.Pass()])]
            if isinstance(s, (ast.While, ast.For)) and rest and not s.orelse and _returns_at_loop_level(s):
                # search loop followed by the default path: what follows the loop goes to its else clause (it runs
                # exactly when no `return` -- now `deliver; break` -- ended the loop)
                s2 = copy.deepcopy(s)
                _returns_to_breaks(s2.body, ret)
                s2.orelse = go(rest, k) or [ast.Pass()]
                return [s2]
            if isinstance(s, (ast.While, ast.For)) and not rest and k is None and not s.orelse and _returns_at_loop_level(s):
                # the loop is the last statement of the helper: `return e` = deliver e and leave the loop
                s2 = copy.deepcopy(s)
                _returns_to_breaks(s2.body, ret)
                return [s2]
            raise CannotInline(f"return inside {type(s).__name__}")
        return [s] + go(rest, k)

    return go(stmts, None)


def _returns_at_loop_level(loop) -> bool:
    """Every `return` inside the loop belongs to this loop level (not to a nested loop)."""
    def ok(stmts) -> bool:
        for st in stmts:
            if isinstance(st, (ast.For, ast.While)):
                # the `else` clause of a nested loop is at this level: a `break` there leaves the outer loop
                if any(isinstance(n, ast.Return) for b_ in st.body for n in ast.walk(b_)):
                    return False
                if st.orelse and not ok(st.orelse):
                    return False
                continue
            if isinstance(st, (ast.FunctionDef, ast.AsyncFunctionDef, ast.ClassDef)):
                continue
            for fld in ("body", "orelse", "finalbody"):
                b = getattr(st, fld, None)
                if isinstance(b, list) and b and isinstance(b[0], ast.stmt) and not ok(b):
                    return False
            if isinstance(st, ast.Try):
                for h in st.handlers:
                    if not ok(h.body):
                        return False
        return True
    return ok(loop.body)


def _returns_to_breaks(stmts: list, ret) -> None:
    i = 0
    while i < len(stmts):
        st = stmts[i]
        if isinstance(st, ast.Return):
            new = ret(st.value) + [ast.Break()]
            stmts[i:i + 1] = new
            i += len(new)
            continue
        if isinstance(st, (ast.For, ast.While)) and st.orelse:
            _returns_to_breaks(st.orelse, ret)
        if not isinstance(st, (ast.For, ast.While, ast.FunctionDef, ast.AsyncFunctionDef, ast.ClassDef)):
            for fld in ("body", "orelse", "finalbody"):
                b = getattr(st, fld, None)
                if isinstance(b, list) and b and isinstance(b[0], ast.stmt):
                    _returns_to_breaks(b, ret)
            if isinstance(st, ast.Try):
                for h in st.handlers:
                    _returns_to_breaks(h.body, ret)
        i += 1


def _simplify(e: ast.expr) -> ast.expr:
    """True if c else False -> c ; a if c else False -> c and a ; True if c else b -> c or b."""
    if isinstance(e, ast.IfExp):
        c, a, b = _simplify(e.test), _simplify(e.body), _simplify(e.orelse)

        def const(x, v):
            return isinstance(x, ast.Constant) and x.value is v
        if const(a, True) and const(b, False):
            return c
        if const(a, False) and const(b, True):
            return ast.UnaryOp(ast.Not(), c)
        if const(b, False):
            return ast.BoolOp(ast.And(), [c, a])
        if const(a, True):
            return ast.BoolOp(ast.Or(), [c, b])
        if const(a, False):
            return ast.BoolOp(ast.And(), [ast.UnaryOp(ast.Not(), c), b])
        if const(b, True):
            return ast.BoolOp(ast.Or(), [ast.UnaryOp(ast.Not(), c), a])
        return ast.IfExp(c, a, b)
    return e


# --------------------------------------------------------------------------- driver


def normalise_calls(repo) -> int:
    """(1) arguments given by keyword for the *required* parameters of a function of this package become positional
    (`space_unique_key(space=s, network=n)` -> `space_unique_key(s, n)`); optional parameters keep their keywords.
    (2) `f(**{"a": x, "b": y})` -> `f(a=x, b=y)`."""
    n = 0
    for f in list(repo.functions.values()):
        # locals that are assigned one dict display and never touched otherwise
        disp: dict[str, ast.Dict] = {}
        bad: set[str] = set()
        for x in _own_walk(f.node):
            if isinstance(x, ast.Assign) and len(x.targets) == 1 and isinstance(x.targets[0], ast.Name) and isinstance(x.value, ast.Dict):
                (bad if x.targets[0].id in disp else disp).__setitem__(x.targets[0].id, x.value) if isinstance(disp, dict) and x.targets[0].id not in disp \
                    else bad.add(x.targets[0].id)
            elif isinstance(x, ast.Name) and isinstance(x.ctx, (ast.Store, ast.Del)):
                pass
        stores = {}
        for x in _own_walk(f.node):
            if isinstance(x, ast.Name) and isinstance(x.ctx, (ast.Store, ast.Del)):
                stores[x.id] = stores.get(x.id, 0) + 1
            if isinstance(x, ast.Subscript) and isinstance(x.ctx, (ast.Store, ast.Del)) and isinstance(x.value, ast.Name):
                bad.add(x.value.id)
            if isinstance(x, ast.Call) and isinstance(x.func, ast.Attribute) and isinstance(x.func.value, ast.Name) \
                    and x.func.attr in ("update", "pop", "setdefault", "clear", "popitem"):
                bad.add(x.func.value.id)
        disp = {k: v for k, v in disp.items() if k not in bad and stores.get(k, 0) == 1}
        for c in _own_walk(f.node):
            if not isinstance(c, ast.Call):
                continue
            for k in c.keywords:
                if k.arg is None and isinstance(k.value, ast.Name) and k.value.id in disp:
                    k.value = copy.deepcopy(disp[k.value.id])
            new_kw = []
            for k in c.keywords:
                if k.arg is None and isinstance(k.value, ast.Dict) and k.value.keys and all(
                        isinstance(x, ast.Constant) and isinstance(x.value, str) and x.value.isidentifier() for x in k.value.keys):
                    new_kw += [ast.keyword(x.value, v) for x, v in zip(k.value.keys, k.value.values)]
                    n += 1
                else:
                    new_kw.append(k)
            c.keywords = new_kw
            if not c.keywords or any(k.arg is None for k in c.keywords) or any(isinstance(a, ast.Starred) for a in c.args):
                continue
            tgt = repo.resolve_call(f, c)
            if not tgt or tgt.startswith("ext:") or tgt not in repo.functions:
                continue
            g = repo.functions[tgt]
            a = g.node.args
            params = [x.arg for x in a.posonlyargs + a.args]
            required = len(params) - len(a.defaults)
            static = any(isinstance(d, ast.Name) and d.id == "staticmethod" for d in g.node.decorator_list)
            if g.cls is not None and not static and params[:1] == ["self"] and isinstance(c.func, ast.Attribute) \
                    and not (isinstance(c.func.value, ast.Name) and c.func.value.id == g.cls):
                params, required = params[1:], required - 1
            elif tgt.endswith(".__init__") and params[:1] == ["self"]:
                params, required = params[1:], required - 1
            kw = {k.arg: k for k in c.keywords}
            moved = False
            while len(c.args) < required and len(c.args) < len(params) and params[len(c.args)] in kw:
                k = kw.pop(params[len(c.args)])
                c.args.append(k.value)
                c.keywords.remove(k)
                moved = True
            n += moved
    if n:
        repo.__dict__.pop("_rc_memo", None)
    return n


_NONNULL: set[str] = set()   # names of the function under work that only ever hold containers / numbers


def _value_nonnull(v: ast.AST) -> bool:
    if isinstance(v, ast.Constant):
        return v.value is not None
    if isinstance(v, (ast.List, ast.Dict, ast.Set, ast.Tuple, ast.ListComp, ast.SetComp, ast.DictComp, ast.JoinedStr)):
        return True
    if isinstance(v, ast.Call) and isinstance(v.func, ast.Name) and v.func.id in ("sorted", "list", "set", "dict", "tuple", "frozenset", "len", "str", "int"):
        return True
    if isinstance(v, ast.BinOp) and (_value_nonnull(v.left) or _value_nonnull(v.right)):
        return True
    if isinstance(v, ast.Name) and v.id in _NONNULL:
        return True
    return False


def _collect_nonnull(fn: ast.FunctionDef) -> None:
    """names all of whose bindings are containers / numbers (fixpoint over plain copies)"""
    _NONNULL.clear()
    binds: dict[str, list] = {}
    params = {a.arg for a in fn.args.posonlyargs + fn.args.args + fn.args.kwonlyargs}
    for n in _own_walk(fn):
        if isinstance(n, ast.Assign) and len(n.targets) == 1 and isinstance(n.targets[0], ast.Name):
            binds.setdefault(n.targets[0].id, []).append(n.value)
        elif isinstance(n, ast.AugAssign) and isinstance(n.target, ast.Name):
            binds.setdefault(n.target.id, []).append(ast.Name(n.target.id, ast.Load()))
        elif isinstance(n, ast.Name) and isinstance(n.ctx, ast.Store):
            binds.setdefault(n.id, [])
    other = {n.id for n in _own_walk(fn) if isinstance(n, ast.Name) and isinstance(n.ctx, ast.Store)}
    plain = {k for k in binds}
    # names bound by for/with/unpacking are not tracked
    tracked = {k for k, vs in binds.items() if vs and k not in params}
    untracked_store = set()
    for n in _own_walk(fn):
        if isinstance(n, (ast.For, ast.comprehension)):
            for t in ast.walk(n.target):
                if isinstance(t, ast.Name):
                    untracked_store.add(t.id)
        if isinstance(n, ast.Assign) and not (len(n.targets) == 1 and isinstance(n.targets[0], ast.Name)):
            for t in n.targets:
                for x in ast.walk(t):
                    if isinstance(x, ast.Name) and isinstance(x.ctx, ast.Store):
                        untracked_store.add(x.id)
        if isinstance(n, (ast.With,)):
            for i in n.items:
                if i.optional_vars is not None:
                    for x in ast.walk(i.optional_vars):
                        if isinstance(x, ast.Name):
                            untracked_store.add(x.id)
    tracked -= untracked_store
    grew = True
    while grew:
        grew = False
        for k in tracked - _NONNULL:
            if all(_value_nonnull(v) or (isinstance(v, ast.Name) and v.id == k) for v in binds[k]) and \
                    any(not (isinstance(v, ast.Name) and v.id == k) for v in binds[k]):
                _NONNULL.add(k)
                grew = True


def _noneness_at_end(block: list[ast.stmt], x: str) -> bool | None:
    """True: `x` is None when the block ends; False: certainly not None; None: unknown / the block does not end normally."""
    if not block:
        return None
    last = block[-1]
    if isinstance(last, ast.Assign) and len(last.targets) == 1 and isinstance(last.targets[0], ast.Name) and last.targets[0].id == x:
        v = last.value
        if isinstance(v, ast.Constant) and v.value is None:
            return True
        if _value_nonnull(v):
            return False
        return None
    if isinstance(last, ast.If) and last.orelse:
        a, b = _noneness_at_end(last.body, x), _noneness_at_end(last.orelse, x)
        if a is None or b is None:
            return None
        return a if a == b else "mixed"      # decided in every leaf, differently
    return None


def _append_at_end(block: list[ast.stmt], x: str, when_none: list[ast.stmt], otherwise: list[ast.stmt]) -> None:
    last = block[-1]
    if isinstance(last, ast.If) and last.orelse:
        _append_at_end(last.body, x, when_none, otherwise)
        _append_at_end(last.orelse, x, when_none, otherwise)
        return
    block.extend(copy.deepcopy(when_none if _noneness_at_end(block, x) is True else otherwise))


def _break_sites(body: list[ast.stmt]) -> list[tuple[list, int]]:
    """(block, index) of every `break` that leaves the loop whose body this is"""
    out = []
    for k, st in enumerate(body):
        if isinstance(st, ast.Break):
            out.append((body, k))
        elif isinstance(st, (ast.For, ast.While, ast.FunctionDef, ast.ClassDef)):
            continue
        else:
            for fld in ("body", "orelse", "finalbody"):
                b = getattr(st, fld, None)
                if isinstance(b, list) and b and isinstance(b[0], ast.stmt):
                    out += _break_sites(b)
            for h in getattr(st, "handlers", []) or []:
                out += _break_sites(h.body)
    return out


def _thread_sentinels(body: list[ast.stmt]) -> bool:
    """`if c: x = None  else: ...; x = <value>` followed by `if x is None: A [else: B]`  ->  A / B move to the ends of the
    branches that decide the test (what remains after inlining a helper that returns None to signal failure)."""
    changed = False
    # `if x is None: A` directly followed by `if x is not None: B` (A does not re-bind x) is one if/else
    k = 0
    while k + 1 < len(body):
        a_, b_ = body[k], body[k + 1]
        if isinstance(a_, ast.If) and isinstance(b_, ast.If) and not a_.orelse and not b_.orelse:
            def _sent(t):
                neg = False
                while isinstance(t, ast.UnaryOp) and isinstance(t.op, ast.Not):
                    t, neg = t.operand, not neg
                if isinstance(t, ast.Compare) and len(t.ops) == 1 and isinstance(t.left, ast.Name) and isinstance(t.ops[0], (ast.Is, ast.IsNot)) \
                        and isinstance(t.comparators[0], ast.Constant) and t.comparators[0].value is None:
                    return t.left.id, (isinstance(t.ops[0], ast.Is)) != neg
                return None
            sa, sb = _sent(a_.test), _sent(b_.test)
            if sa and sb and sa[0] == sb[0] and sa[1] != sb[1] and not any(
                    isinstance(y, ast.Name) and y.id == sa[0] and isinstance(y.ctx, (ast.Store, ast.Del))
                    for st_ in a_.body for y in ast.walk(st_)):
                a_.orelse = b_.body
                del body[k + 1]
                changed = True
                continue
        k += 1
    i = 0
    while i + 1 < len(body):
        s1, s2 = body[i], body[i + 1]
        done = False
        if isinstance(s1, ast.If) and s1.orelse and isinstance(s2, ast.If):
            t, neg = s2.test, False
            while isinstance(t, ast.UnaryOp) and isinstance(t.op, ast.Not):
                t, neg = t.operand, not neg
            if isinstance(t, ast.Compare) and len(t.ops) == 1 and isinstance(t.left, ast.Name) and isinstance(t.ops[0], (ast.Is, ast.IsNot)) \
                    and isinstance(t.comparators[0], ast.Constant) and t.comparators[0].value is None:
                x = t.left.id
                if isinstance(t.ops[0], ast.IsNot):
                    neg = not neg
                a, b = _noneness_at_end(s1.body, x), _noneness_at_end(s1.orelse, x)
                if a is not None and b is not None:
                    when_none, otherwise = (s2.orelse, s2.body) if neg else (s2.body, s2.orelse)
                    size = sum(1 for blk in (when_none, otherwise) for st in blk for _ in ast.walk(st))
                    if size <= 400:
                        _append_at_end(s1.body, x, when_none, otherwise)
                        _append_at_end(s1.orelse, x, when_none, otherwise)
                        del body[i + 1]
                        changed = done = True
        if not done and isinstance(s1, (ast.For, ast.While)) and s1.orelse and isinstance(s2, ast.If):
            # the same for a search loop: `... x = None; break` inside, `else: x = <value>` when the loop runs out
            t, neg = s2.test, False
            while isinstance(t, ast.UnaryOp) and isinstance(t.op, ast.Not):
                t, neg = t.operand, not neg
            if isinstance(t, ast.Compare) and len(t.ops) == 1 and isinstance(t.left, ast.Name) and isinstance(t.ops[0], (ast.Is, ast.IsNot)) \
                    and isinstance(t.comparators[0], ast.Constant) and t.comparators[0].value is None:
                x = t.left.id
                if isinstance(t.ops[0], ast.IsNot):
                    neg = not neg
                when_none, otherwise = (s2.orelse, s2.body) if neg else (s2.body, s2.orelse)
                movable = not any(isinstance(z, (ast.Break, ast.Continue)) for blk in (when_none, otherwise) for z in _own_walk_stmts(blk)
                                  if not isinstance(z, ast.Return))
                sites = _break_sites(s1.body)
                e_ = _noneness_at_end(s1.orelse, x)
                # an element of the sequence being searched counts as a value (`found = item; break`)
                elems = {y.id for y in ast.walk(s1.target) if isinstance(y, ast.Name)} if isinstance(s1, ast.For) else set()

                def _nn(blk_, k_):
                    r_ = _noneness_at_end(blk_[:k_], x)
                    if r_ is None and k_ > 0 and isinstance(blk_[k_ - 1], ast.Assign) and len(blk_[k_ - 1].targets) == 1 \
                            and isinstance(blk_[k_ - 1].targets[0], ast.Name) and blk_[k_ - 1].targets[0].id == x \
                            and isinstance(blk_[k_ - 1].value, ast.Name) and blk_[k_ - 1].value.id in elems:
                        return False
                    return r_
                if movable and sites and e_ in (True, False) and all(_nn(blk, k) in (True, False) for blk, k in sites):
                    for blk, k in sorted(sites, key=lambda bk: -bk[1]):
                        ins = copy.deepcopy(when_none if _nn(blk, k) is True else otherwise)
                        src = blk[k - 1].value if k > 0 and isinstance(blk[k - 1], ast.Assign) and len(blk[k - 1].targets) == 1 \
                            and isinstance(blk[k - 1].targets[0], ast.Name) and blk[k - 1].targets[0].id == x else None
                        if isinstance(src, ast.Name) and not any(
                                isinstance(y, ast.Name) and y.id in (x, src.id) and isinstance(y.ctx, (ast.Store, ast.Del))
                                for st_ in ins for y in ast.walk(st_)) and not any(
                                isinstance(y, (ast.FunctionDef, ast.Lambda)) for st_ in ins for y in ast.walk(st_)):
                            class _RN2(ast.NodeTransformer):
                                def visit_Name(self, n_):
                                    return ast.copy_location(ast.Name(src.id, n_.ctx), n_) if n_.id == x else n_
                            ins = [_RN2().visit(st_) for st_ in ins]
                        if ins and isinstance(ins[-1], (ast.Return, ast.Raise)):
                            blk[k:k + 1] = ins        # the `break` behind it would be unreachable
                        else:
                            blk[k:k] = ins
                    s1.orelse.extend(copy.deepcopy(when_none if e_ is True else otherwise))
                    del body[i + 1]
                    changed = done = True
        if not done and isinstance(s1, ast.For) and not s1.orelse and isinstance(s2, ast.If) and isinstance(s1.target, ast.Name):
            # search loop with the sentinel set before it:  x = None; for v in S: ... if c: x = v; break   /  if x is None: A else: B
            t, neg = s2.test, False
            while isinstance(t, ast.UnaryOp) and isinstance(t.op, ast.Not):
                t, neg = t.operand, not neg
            if isinstance(t, ast.Compare) and len(t.ops) == 1 and isinstance(t.left, ast.Name) and isinstance(t.ops[0], (ast.Is, ast.IsNot)) \
                    and isinstance(t.comparators[0], ast.Constant) and t.comparators[0].value is None:
                x = t.left.id
                if isinstance(t.ops[0], ast.IsNot):
                    neg = not neg
                when_none, otherwise = (s2.orelse, s2.body) if neg else (s2.body, s2.orelse)
                # the sentinel: `x = None` among the plain assignments right before the loop
                k0 = i - 1
                init = None
                while k0 >= 0 and isinstance(body[k0], ast.Assign) and len(body[k0].targets) == 1 and isinstance(body[k0].targets[0], ast.Name):
                    if body[k0].targets[0].id == x:
                        init = body[k0]
                        break
                    if any(isinstance(y, ast.Name) and y.id == x for y in ast.walk(body[k0])):
                        break
                    k0 -= 1
                sites = _break_sites(s1.body)
                stores = [y for y in ast.walk(s1) if isinstance(y, ast.Name) and y.id == x and isinstance(y.ctx, ast.Store)]

                def found_at(blk, k):
                    # `x = <loop variable or non-null value>` directly before the break
                    if k == 0:
                        return None
                    st_ = blk[k - 1]
                    if isinstance(st_, ast.Assign) and len(st_.targets) == 1 and isinstance(st_.targets[0], ast.Name) and st_.targets[0].id == x:
                        v = st_.value
                        if isinstance(v, ast.Name) and v.id == s1.target.id or _value_nonnull(v):
                            return st_.targets[0]
                    return None
                marks = [found_at(blk, k) for blk, k in sites]
                movable = not any(isinstance(z, (ast.Break, ast.Continue)) for blk in (when_none, otherwise) for z in _own_walk_stmts(blk)
                                  if not isinstance(z, ast.Return))
                if init is not None and isinstance(init.value, ast.Constant) and init.value.value is None and sites \
                        and all(m is not None for m in marks) and {id(m) for m in marks} == {id(y) for y in stores} and movable \
                        and sum(1 for blk in (when_none, otherwise) for st in blk for _ in ast.walk(st)) <= 600:
                    for blk, k in sorted(sites, key=lambda bk: -bk[1]):
                        ins = copy.deepcopy(otherwise)
                        src = blk[k - 1].value
                        if isinstance(src, ast.Name) and not any(
                                isinstance(y, ast.Name) and y.id in (x, src.id) and isinstance(y.ctx, (ast.Store, ast.Del))
                                for st_ in ins for y in ast.walk(st_)) and not any(
                                isinstance(y, (ast.FunctionDef, ast.Lambda)) for st_ in ins for y in ast.walk(st_)):
                            # the found element under its own name: `x = v` was just executed and neither is re-bound below
                            class _RN(ast.NodeTransformer):
                                def visit_Name(self, n_):
                                    return ast.copy_location(ast.Name(src.id, n_.ctx), n_) if n_.id == x else n_
                            ins = [_RN().visit(st_) for st_ in ins]
                        if ins and isinstance(ins[-1], (ast.Return, ast.Raise)):
                            blk[k:k + 1] = ins
                        else:
                            blk[k:k] = ins
                    s1.orelse = copy.deepcopy(when_none) or []
                    del body[i + 1]
                    changed = done = True
        if not done:
            i += 1
    for st in body:
        if isinstance(st, (ast.FunctionDef, ast.ClassDef)):
            continue
        for fld in ("body", "orelse", "finalbody"):
            b = getattr(st, fld, None)
            if isinstance(b, list) and b and isinstance(b[0], ast.stmt):
                changed |= _thread_sentinels(b)
        for h in getattr(st, "handlers", []) or []:
            changed |= _thread_sentinels(h.body)
    return changed


def _flag_at_end(block: list[ast.stmt], x: str):
    """True / False: the constant `x` holds when the block ends (last assignment, looking back over plain assignments
    to other names); "mixed": decided in every leaf of a final if/else, differently; None: unknown."""
    k = len(block) - 1
    while k >= 0:
        st = block[k]
        if isinstance(st, ast.Assign) and len(st.targets) == 1 and isinstance(st.targets[0], ast.Name):
            if st.targets[0].id == x:
                v = st.value
                return v.value if isinstance(v, ast.Constant) and isinstance(v.value, bool) else None
            if any(isinstance(y, ast.Name) and y.id == x for y in ast.walk(st.value)):
                return None
            k -= 1
            continue
        if isinstance(st, ast.If) and st.orelse and k == len(block) - 1:
            a, b = _flag_at_end(st.body, x), _flag_at_end(st.orelse, x)
            if a is None or b is None:
                return None
            return a if a == b else "mixed"
        return None
    return None


def _thread_flags(body: list[ast.stmt]) -> bool:
    """A search loop that leaves with `x = True; break` and sets `x = False` when it runs out, followed by `if x: A`:
    A moves to the break (what remains of a helper that reports `found` as a Boolean next to its result)."""
    changed = False
    i = 0
    while i + 1 < len(body):
        s1, s2 = body[i], body[i + 1]
        done = False
        if isinstance(s1, (ast.For, ast.While)) and s1.orelse and isinstance(s2, ast.If):
            t, neg = s2.test, False
            while isinstance(t, ast.UnaryOp) and isinstance(t.op, ast.Not):
                t, neg = t.operand, not neg
            if isinstance(t, ast.Name):
                x = t.id
                when_true, otherwise = (s2.orelse, s2.body) if neg else (s2.body, s2.orelse)
                movable = not any(isinstance(z, (ast.Break, ast.Continue)) for blk in (when_true, otherwise)
                                  for z in _own_walk_stmts(blk) if not isinstance(z, ast.Return))
                sites = _break_sites(s1.body)
                e_ = _flag_at_end(s1.orelse, x)
                if movable and sites and e_ in (True, False) and all(_flag_at_end(blk[:k], x) in (True, False) for blk, k in sites):
                    for blk, k in sorted(sites, key=lambda bk: -bk[1]):
                        ins = copy.deepcopy(when_true if _flag_at_end(blk[:k], x) is True else otherwise)
                        if ins and isinstance(ins[-1], (ast.Return, ast.Raise)):
                            blk[k:k + 1] = ins
                        else:
                            blk[k:k] = ins
                    s1.orelse.extend(copy.deepcopy(when_true if e_ is True else otherwise))
                    del body[i + 1]
                    changed = done = True
        if not done:
            i += 1
    for st in body:
        if isinstance(st, (ast.FunctionDef, ast.ClassDef)):
            continue
        for fld in ("body", "orelse", "finalbody"):
            b = getattr(st, fld, None)
            if isinstance(b, list) and b and isinstance(b[0], ast.stmt):
                changed |= _thread_flags(b)
        for h in getattr(st, "handlers", []) or []:
            changed |= _thread_flags(h.body)
    return changed


def _thread_loop_exits(fn: ast.AST) -> int:
    """`while True: ... V = None; break ... V = (a, b); break` followed by `if V is None: <leave>`: every exit of the loop sets V
    right before it leaves, so the test after the loop is decided at each exit. The None exits take the `if` body (which
    leaves the function), the others keep their assignment, and the test disappears. (What an inlined helper that returns
    `None | (a, b)` and its caller's `if r is None: return ...` look like together.)"""
    count = 0

    def exits(stmts, out) -> bool:
        """collect (block, index) of every `break` that leaves the loop; False if one is not preceded by an assignment"""
        for i, st in enumerate(stmts):
            if isinstance(st, ast.Break):
                out.append((stmts, i))
            elif isinstance(st, (ast.For, ast.While)):
                if st.orelse and not exits(st.orelse, out):
                    return False
            elif isinstance(st, (ast.FunctionDef, ast.AsyncFunctionDef, ast.ClassDef)):
                continue
            else:
                for fld in ("body", "orelse", "finalbody"):
                    b = getattr(st, fld, None)
                    if isinstance(b, list) and b and isinstance(b[0], ast.stmt) and not exits(b, out):
                        return False
                if isinstance(st, ast.Try):
                    for h in st.handlers:
                        if not exits(h.body, out):
                            return False
        return True

    for parent in ast.walk(fn):
        for fld in ("body", "orelse", "finalbody"):
            blk = getattr(parent, fld, None)
            if not isinstance(blk, list):
                continue
            i = 0
            while i + 1 < len(blk):
                w, t = blk[i], blk[i + 1]
                i += 1
                if not (isinstance(w, ast.While) and isinstance(w.test, ast.Constant) and w.test.value is True and not w.orelse
                        and isinstance(t, ast.If) and not t.orelse and t.body and isinstance(t.body[-1], (ast.Return, ast.Raise))
                        and isinstance(t.test, ast.Compare) and len(t.test.ops) == 1 and isinstance(t.test.ops[0], ast.Is)
                        and isinstance(t.test.left, ast.Name) and isinstance(t.test.comparators[0], ast.Constant)
                        and t.test.comparators[0].value is None):
                    continue
                V = t.test.left.id
                if any(isinstance(y, (ast.Return, ast.Continue)) and False for y in ast.walk(w)):
                    continue
                sites = []
                if not exits(w.body, sites) or not sites:
                    continue
                ok = True
                for b_, k in sites:
                    a = b_[k - 1] if k > 0 else None
                    if not (isinstance(a, ast.Assign) and len(a.targets) == 1 and isinstance(a.targets[0], ast.Name) and a.targets[0].id == V
                            and ((isinstance(a.value, ast.Constant) and a.value.value is None) or isinstance(a.value, (ast.Tuple, ast.List, ast.Dict)))):
                        ok = False
                if not ok or any(isinstance(y, ast.Name) and y.id == V for y in ast.walk(ast.Module(t.body, []))):
                    continue
                for b_, k in sorted(sites, key=lambda x: -x[1]):
                    a = b_[k - 1]
                    if isinstance(a.value, ast.Constant):
                        b_[k - 1:k + 1] = copy.deepcopy(t.body)
                del blk[i]
                count += 1
    if count:
        ast.fix_missing_locations(fn)
    return count


def _lower_classifying_setcomps(fn: ast.AST) -> None:
    """`H = {s for s in ids if <classification>}` whose test only became visible by inlining -> `H = set(); for s in ids: if ..: H.add(s)`"""
    from .repo import _classifying_setcomp
    for parent in ast.walk(fn):
        for fld in ("body", "orelse", "finalbody"):
            blk = getattr(parent, fld, None)
            if not isinstance(blk, list):
                continue
            out, changed = [], False
            for st in blk:
                if isinstance(st, ast.Assign) and len(st.targets) == 1 and isinstance(st.targets[0], ast.Name) and _classifying_setcomp(st.value) \
                        and not any(isinstance(y, ast.Name) and y.id == st.targets[0].id for y in ast.walk(st.value)):
                    X, g = st.targets[0].id, st.value.generators[0]
                    test = g.ifs[0] if len(g.ifs) == 1 else ast.BoolOp(ast.And(), list(g.ifs))
                    add = ast.Expr(ast.Call(ast.Attribute(ast.Name(X, ast.Load()), "add", ast.Load()), [st.value.elt], []))
                    new = [ast.Assign([ast.Name(X, ast.Store())], ast.Call(ast.Name("set", ast.Load()), [], [])),
                           ast.For(g.target, g.iter, [ast.If(test, [add], [])], [])]
                    for s_ in new:
                        ast.copy_location(s_, st)
                        ast.fix_missing_locations(s_)
                    out += new
                    changed = True
                else:
                    out.append(st)
            if changed:
                blk[:] = out


def _beta_reduce_lambdas(fn: ast.FunctionDef) -> bool:
    """`g = lambda p, q: E` (bound once) and later `g(a, b)` with plain names / constants as arguments: the call is
    E[p := a, q := b], provided nothing that E reads is re-bound after the lambda was made and `g` is only ever called."""
    changed = False
    stores: dict[str, int] = {}
    for n in ast.walk(fn):
        if isinstance(n, ast.Name) and isinstance(n.ctx, (ast.Store, ast.Del)):
            stores[n.id] = stores.get(n.id, 0) + 1
    params = {a.arg for a in fn.args.posonlyargs + fn.args.args + fn.args.kwonlyargs}

    def block(body: list[ast.stmt]) -> None:
        nonlocal changed
        for i, st in enumerate(body):
            if isinstance(st, ast.Assign) and len(st.targets) == 1 and isinstance(st.targets[0], ast.Name) \
                    and isinstance(st.value, ast.Lambda) and stores.get(st.targets[0].id) == 1 and st.targets[0].id not in params:
                g, lam = st.targets[0].id, st.value
                a_ = lam.args
                if a_.vararg or a_.kwarg or a_.kwonlyargs or a_.defaults or a_.posonlyargs:
                    continue
                ps = [x.arg for x in a_.args]
                if any(isinstance(y, (ast.Lambda, ast.NamedExpr, ast.Yield, ast.Await, ast.ListComp, ast.SetComp, ast.DictComp, ast.GeneratorExp))
                       for y in ast.walk(lam.body)):
                    continue
                free = {y.id for y in ast.walk(lam.body) if isinstance(y, ast.Name)} - set(ps)
                rest = body[i + 1:]
                if any(isinstance(y, ast.Name) and isinstance(y.ctx, (ast.Store, ast.Del)) and y.id in free for r in rest for y in ast.walk(r)):
                    continue
                # every use of g in the function: a call with matching plain arguments, after the definition, in this block
                uses = [y for y in ast.walk(fn) if isinstance(y, ast.Name) and y.id == g and isinstance(y.ctx, ast.Load)]
                calls = [y for r in rest for y in ast.walk(r) if isinstance(y, ast.Call) and isinstance(y.func, ast.Name) and y.func.id == g]
                if not calls or len(calls) != len(uses):
                    continue
                if any(isinstance(y, (ast.FunctionDef, ast.Lambda)) and any(isinstance(z, ast.Name) and z.id == g for z in ast.walk(y))
                       for r in rest for y in ast.walk(r)):
                    continue

                def plain(e):
                    return isinstance(e, (ast.Name, ast.Constant))
                ok = True
                for c in calls:
                    if c.keywords and any(k.arg is None or k.arg not in ps for k in c.keywords):
                        ok = False
                    if len(c.args) + len(c.keywords) != len(ps) or any(isinstance(x, ast.Starred) for x in c.args):
                        ok = False
                    if not all(plain(x) for x in c.args) or not all(plain(k.value) for k in c.keywords):
                        ok = False
                if not ok:
                    continue

                class Sub(ast.NodeTransformer):
                    def __init__(self, env):
                        self.env = env

                    def visit_Name(self, n):
                        return copy.deepcopy(self.env[n.id]) if n.id in self.env and isinstance(n.ctx, ast.Load) else n

                class Red(ast.NodeTransformer):
                    def visit_Call(self, c):
                        self.generic_visit(c)
                        if isinstance(c.func, ast.Name) and c.func.id == g:
                            env = dict(zip(ps, c.args))
                            env.update({k.arg: k.value for k in c.keywords})
                            e = Sub(env).visit(copy.deepcopy(lam.body))
                            for y in ast.walk(e):
                                if hasattr(y, "lineno"):
                                    y.lineno = y.end_lineno = c.lineno
                            return ast.copy_location(e, c)
                        return c
                for k in range(i + 1, len(body)):
                    body[k] = Red().visit(body[k])
                body[i] = ast.copy_location(ast.Pass(), st)
                changed = True
        for st in body:
            if not isinstance(st, (ast.FunctionDef, ast.ClassDef)):
                for fld in ("body", "orelse", "finalbody"):
                    b = getattr(st, fld, None)
                    if isinstance(b, list) and b and isinstance(b[0], ast.stmt):
                        block(b)
                for h in getattr(st, "handlers", []) or []:
                    block(h.body)
    block(fn.body)
    if changed:
        ast.fix_missing_locations(fn)
    return changed


def _coalesce_inliner_copies(fn: ast.FunctionDef) -> bool:
    """`v__i1 = v` ... (only `v__i1` is used) ... `v = v__i1` on the way out: the helper worked on the caller's variable and
    handed it back; the temporary is the variable."""
    changed = False

    def block(body: list[ast.stmt]) -> None:
        nonlocal changed
        i = 0
        while i < len(body):
            st = body[i]
            if isinstance(st, ast.Assign) and len(st.targets) == 1 and isinstance(st.targets[0], ast.Name) \
                    and "__i" in st.targets[0].id and isinstance(st.value, ast.Name) and st.value.id != st.targets[0].id:
                T, V = st.targets[0].id, st.value.id
                last = i
                for j in range(i + 1, len(body)):
                    if any(isinstance(y, ast.Name) and y.id == T for y in ast.walk(body[j])):
                        last = j
                region = body[i + 1:last + 1]
                ok = last > i
                backs = []
                for r in region:
                    for y in ast.walk(r):
                        if isinstance(y, ast.Assign) and len(y.targets) == 1 and isinstance(y.targets[0], ast.Name) \
                                and y.targets[0].id == V and isinstance(y.value, ast.Name) and y.value.id == T:
                            backs.append(y)
                back_names = {id(y.targets[0]) for y in backs}
                for r in region:
                    for y in ast.walk(r):
                        if isinstance(y, ast.Name) and y.id == V and id(y) not in back_names:
                            ok = False
                        if isinstance(y, (ast.FunctionDef, ast.Lambda)):
                            ok = False
                # T must not be used outside the region
                outside = [y for k, r in enumerate(body) if not (i <= k <= last) for y in ast.walk(r)
                           if isinstance(y, ast.Name) and y.id == T]
                if ok and backs and not outside:
                    class R(ast.NodeTransformer):
                        def visit_Name(self, n):
                            return ast.copy_location(ast.Name(V, n.ctx), n) if n.id == T else n

                        def visit_Assign(self, n):
                            if n in backs:
                                return ast.copy_location(ast.Pass(), n)
                            return self.generic_visit(n)
                    for k in range(i + 1, last + 1):
                        body[k] = R().visit(body[k])
                    body[i] = ast.copy_location(ast.Pass(), st)
                    changed = True
            if not isinstance(st, (ast.FunctionDef, ast.ClassDef)):
                for fld in ("body", "orelse", "finalbody"):
                    b = getattr(st, fld, None)
                    if isinstance(b, list) and b and isinstance(b[0], ast.stmt):
                        block(b)
                for h in getattr(st, "handlers", []) or []:
                    block(h.body)
            i += 1
    block(fn.body)
    if changed:
        ast.fix_missing_locations(fn)
    return changed


def _thread_empty_results(body: list[ast.stmt]) -> bool:
    """`if c: ...; xs = []  else: ...; xs = E` followed by a tail that works on `xs`: the tail moves into both branches and is
    specialised for the empty list where `xs` is known to be empty (loops over it vanish, `len(xs) == 0` is decided).
    This is the single-exit spelling of `if c: <nothing to do>; return`."""
    from . import peval
    changed = False
    for i, s1 in enumerate(body):
        if not (isinstance(s1, ast.If) and s1.orelse and i + 1 < len(body)):
            continue

        def ends_empty(blk):
            if blk and isinstance(blk[-1], ast.Assign) and len(blk[-1].targets) == 1 and isinstance(blk[-1].targets[0], ast.Name) \
                    and isinstance(blk[-1].value, ast.List) and not blk[-1].value.elts:
                return blk[-1].targets[0].id
            return None
        xa, xb = ends_empty(s1.body), ends_empty(s1.orelse)
        if (xa is None) == (xb is None):
            continue
        x = xa or xb
        tail = body[i + 1:]
        if any(isinstance(y, ast.Name) and y.id == x and isinstance(y.ctx, (ast.Store, ast.Del)) for st in tail for y in ast.walk(st)):
            continue
        if not any(isinstance(y, ast.Name) and y.id == x for st in tail for y in ast.walk(st)):
            continue
        if any(isinstance(y, (ast.FunctionDef, ast.Lambda, ast.ClassDef)) for st in tail for y in ast.walk(st)):
            continue
        if sum(1 for st in tail for _ in ast.walk(st)) > 150:
            continue        # only a short epilogue (loop over the result, a mark, a return) is worth duplicating
        other = s1.orelse if xa else s1.body
        # the other branch must define x on every path it leaves normally; simplest: its last statement assigns x
        if not any(isinstance(y, ast.Name) and y.id == x and isinstance(y.ctx, ast.Store) for st in other for y in ast.walk(st)):
            continue

        class E(ast.NodeTransformer):
            def visit_Name(self, n):
                if n.id == x and isinstance(n.ctx, ast.Load):
                    return ast.copy_location(ast.List([], ast.Load()), n)
                return n

            def visit_Call(self, n):
                self.generic_visit(n)
                if isinstance(n.func, ast.Name) and n.func.id == "len" and len(n.args) == 1 and isinstance(n.args[0], ast.List) \
                        and not n.args[0].elts:
                    return ast.copy_location(ast.Constant(0), n)
                return n

            def visit_For(self, n):
                self.generic_visit(n)
                if isinstance(n.iter, ast.List) and not n.iter.elts:
                    return n.orelse or None
                return n
        spec = []
        for st in copy.deepcopy(tail):
            r = E().visit(st)
            if r is None:
                continue
            spec.extend(r if isinstance(r, list) else [r])
        spec = peval._Fold({})._block(spec)
        empty_branch = s1.body if xa else s1.orelse
        empty_branch.extend(spec)
        other.extend(tail)
        del body[i + 1:]
        changed = True
        break
    for st in body:
        if isinstance(st, (ast.FunctionDef, ast.ClassDef)):
            continue
        for fld in ("body", "orelse", "finalbody"):
            b = getattr(st, fld, None)
            if isinstance(b, list) and b and isinstance(b[0], ast.stmt):
                changed |= _thread_empty_results(b)
        for h in getattr(st, "handlers", []) or []:
            changed |= _thread_empty_results(h.body)
    return changed


def _thread_if_flags(body: list[ast.stmt]) -> bool:
    """`if a: t = False  elif b: t = True  else: ...; t = E` followed by `if not t: X`  ->  the test moves to the leaves:
    X where t is False, nothing where it is True, `if not t: X` (t just assigned from E) elsewhere. What is left of a
    helper with several `return <bool>` whose result the caller tests once."""
    changed = False
    i = 0
    while i + 1 < len(body):
        s1, s2 = body[i], body[i + 1]
        done = False
        if isinstance(s1, ast.If) and s1.orelse and isinstance(s2, ast.If):
            t, neg = s2.test, False
            while isinstance(t, ast.UnaryOp) and isinstance(t.op, ast.Not):
                t, neg = t.operand, not neg
            if isinstance(t, ast.Name) and "_inl" in t.id:
                x = t.id
                when_true, otherwise = (s2.orelse, s2.body) if neg else (s2.body, s2.orelse)

                def leaves(blk: list) -> list | None:
                    if not blk:
                        return None
                    last = blk[-1]
                    if isinstance(last, ast.If) and last.orelse:
                        a, b = leaves(last.body), leaves(last.orelse)
                        return None if a is None or b is None else a + b
                    if isinstance(last, ast.Assign) and len(last.targets) == 1 and isinstance(last.targets[0], ast.Name) \
                            and last.targets[0].id == x:
                        return [blk]
                    return None
                ls = leaves(s1.body)
                lo = leaves(s1.orelse)
                size = sum(1 for blk in (when_true, otherwise) for st in blk for _ in ast.walk(st))
                if ls is not None and lo is not None and size <= 200:
                    for blk in ls + lo:
                        v = blk[-1].value
                        if isinstance(v, ast.Constant) and isinstance(v.value, bool):
                            blk.extend(copy.deepcopy(when_true if v.value else otherwise))
                        else:
                            blk.append(copy.deepcopy(s2))
                    del body[i + 1]
                    changed = done = True
        if not done:
            i += 1
    for st in body:
        if isinstance(st, (ast.FunctionDef, ast.ClassDef)):
            continue
        for fld in ("body", "orelse", "finalbody"):
            b = getattr(st, fld, None)
            if isinstance(b, list) and b and isinstance(b[0], ast.stmt):
                changed |= _thread_if_flags(b)
        for h in getattr(st, "handlers", []) or []:
            changed |= _thread_if_flags(h.body)
    return changed


def _split_tuple_assigns(fn: ast.FunctionDef) -> None:
    """a, b = (e1, e2)  ->  a = e1; b = e2   (left behind where a helper that returns a tuple was inlined)"""
    class T(ast.NodeTransformer):
        def visit_FunctionDef(self, n):
            return self.generic_visit(n) if n is fn else n

        def visit_Assign(self, n):
            if len(n.targets) == 1 and isinstance(n.targets[0], ast.Tuple) and isinstance(n.value, ast.Tuple) \
                    and len(n.targets[0].elts) == len(n.value.elts) >= 2 and all(isinstance(t, ast.Name) for t in n.targets[0].elts):
                names = [t.id for t in n.targets[0].elts]
                for j, e in enumerate(n.value.elts):
                    if {x.id for x in ast.walk(e) if isinstance(x, ast.Name)} & set(names[:j]):
                        return n
                return [ast.copy_location(ast.Assign([t], e), n) for t, e in zip(n.targets[0].elts, n.value.elts)]
            return n
    T().visit(fn)
    ast.fix_missing_locations(fn)


def _project_tuples(fn: ast.FunctionDef) -> bool:
    """`t = (a, b)` ... `t[0]`  ->  `a`   for a local that is bound once, outside of loops, to a tuple of plain names that
    are not re-bound afterwards (what is left of a record object after its constructor and accessors were normalised)."""
    stores: dict[str, list[ast.AST]] = {}
    for n in _own_walk(fn):
        if isinstance(n, ast.Name) and isinstance(n.ctx, (ast.Store, ast.Del)):
            stores.setdefault(n.id, []).append(n)
    in_loop: set[int] = set()
    for n in _own_walk(fn):
        if isinstance(n, (ast.For, ast.While)):
            for x in ast.walk(n):
                in_loop.add(id(x))
    tuples: dict[str, ast.Tuple] = {}
    for n in _own_walk(fn):
        if isinstance(n, ast.Assign) and len(n.targets) == 1 and isinstance(n.targets[0], ast.Name) and isinstance(n.value, ast.Tuple) \
                and n.value.elts and all(isinstance(e, ast.Name) for e in n.value.elts) and id(n) not in in_loop:
            t = n.targets[0].id
            if len(stores.get(t, [])) == 1 and all(
                    all(getattr(st_, "lineno", 0) <= n.lineno for st_ in stores.get(e.id, [])) for e in n.value.elts):
                tuples[t] = n.value
    if not tuples:
        return False
    changed = [False]

    class P(ast.NodeTransformer):
        def visit_FunctionDef(self, n):
            return self.generic_visit(n) if n is fn else n

        def visit_Subscript(self, n):
            self.generic_visit(n)
            if isinstance(n.value, ast.Name) and n.value.id in tuples and isinstance(n.slice, ast.Constant) and isinstance(n.slice.value, int) \
                    and isinstance(n.ctx, ast.Load) and 0 <= n.slice.value < len(tuples[n.value.id].elts):
                changed[0] = True
                return ast.copy_location(ast.Name(tuples[n.value.id].elts[n.slice.value].id, ast.Load()), n)
            return n
    P().visit(fn)
    return changed[0]


def _fold_after_inlining(fn: ast.FunctionDef) -> None:
    """Constant arguments substituted for parameters leave tests like `None is not None`; a name that only ever stands
    for a closure of the function is not None. Fold them and drop the branches they decide."""
    from . import peval
    closures = {d.name for d in _nested_defs(fn)}
    stored = {n.id for n in _own_walk(fn) if isinstance(n, ast.Name) and isinstance(n.ctx, (ast.Store, ast.Del))}
    closures -= stored

    class C(ast.NodeTransformer):
        def visit_FunctionDef(self, n):
            return n if n is not fn else self.generic_visit(n)

        def visit_Compare(self, n):
            self.generic_visit(n)
            if len(n.ops) == 1 and isinstance(n.ops[0], (ast.Is, ast.IsNot)) and isinstance(n.left, ast.Name) and n.left.id in closures \
                    and isinstance(n.comparators[0], ast.Constant) and n.comparators[0].value is None:
                return ast.copy_location(ast.Constant(isinstance(n.ops[0], ast.IsNot)), n)
            return n
    C().visit(fn)
    f2 = peval._Fold({})
    fn.body = f2._block(fn.body) or fn.body
    ast.fix_missing_locations(fn)


PURE_ACCESSORS = {"node_data", "root", "len", "variable_count", "get_variable_name", "items", "keys", "values"}


def _duplicable(v: ast.AST) -> bool:
    """an expression that may be evaluated at every use instead of once: no calls, or only calls of pure accessors"""
    for x in ast.walk(v):
        if isinstance(x, ast.Call):
            nm = x.func.attr if isinstance(x.func, ast.Attribute) else x.func.id if isinstance(x.func, ast.Name) else None
            if nm not in PURE_ACCESSORS:
                return False
    return True


def _unfold_comprehension_loops(fn: ast.FunctionDef) -> bool:
    """`for x in [E(y) for y in S if c]: B`  ->  `for y in S: if c: x = E(y); B`  (also when the list is first stored in a
    local that is used only as this loop's iterable)."""
    changed = False
    counts: dict[str, int] = {}
    stores_of: dict[str, int] = {}
    for n in ast.walk(fn):
        if isinstance(n, ast.Name):
            counts[n.id] = counts.get(n.id, 0) + 1
            if isinstance(n.ctx, (ast.Store, ast.Del)):
                stores_of[n.id] = stores_of.get(n.id, 0) + 1

    def block(body: list[ast.stmt]) -> None:
        nonlocal changed
        i = 0
        while i < len(body):
            st = body[i]
            # for x in (A if c else B): BODY   ->   if c: for x in A: BODY   else: for x in B: BODY
            if isinstance(st, ast.For) and not st.orelse and isinstance(st.iter, ast.IfExp) \
                    and sum(1 for _ in ast.walk(st)) < 400:
                fa = ast.For(copy.deepcopy(st.target), st.iter.body, copy.deepcopy(st.body), [])
                fb = ast.For(copy.deepcopy(st.target), st.iter.orelse, copy.deepcopy(st.body), [])
                for x_ in (fa, fb):
                    ast.copy_location(x_, st)
                new_if = ast.If(st.iter.test, [fa], [fb])
                ast.copy_location(new_if, st)
                body[i] = st = new_if
                changed = True
            # a loop over an empty literal does nothing
            if isinstance(st, ast.If):
                for fld in ("body", "orelse"):
                    blk = getattr(st, fld)
                    for k_, x_ in enumerate(list(blk)):
                        if isinstance(x_, ast.For) and not x_.orelse and isinstance(x_.iter, (ast.List, ast.Tuple)) and not x_.iter.elts:
                            blk[k_] = ast.copy_location(ast.Pass(), x_)
                            changed = True
                if not st.orelse or all(isinstance(z, ast.Pass) for z in st.orelse):
                    st.orelse = []
                if st.body and all(isinstance(z, ast.Pass) for z in st.body) and st.orelse:
                    st.test = ast.copy_location(ast.UnaryOp(ast.Not(), st.test), st.test)
                    st.body, st.orelse = st.orelse, []
            if isinstance(st, ast.For) and not st.orelse and isinstance(st.target, ast.Name):
                comp = st.iter if isinstance(st.iter, (ast.ListComp, ast.GeneratorExp)) else None
                drop = None
                if comp is None and isinstance(st.iter, ast.Name) and i > 0 and counts.get(st.iter.id) == 2:
                    prev = body[i - 1]
                    if isinstance(prev, ast.Assign) and len(prev.targets) == 1 and isinstance(prev.targets[0], ast.Name) \
                            and prev.targets[0].id == st.iter.id and isinstance(prev.value, (ast.ListComp, ast.GeneratorExp)):
                        comp, drop = prev.value, i - 1
                if comp is not None and len(comp.generators) == 1 and not comp.generators[0].is_async:
                    g = comp.generators[0]
                    tn = [x.id for x in ast.walk(g.target) if isinstance(x, ast.Name)]
                    inside = sum(1 for x in ast.walk(comp) if isinstance(x, ast.Name) and x.id in tn)
                    free = all(counts.get(t_, 0) == sum(1 for x in ast.walk(comp) if isinstance(x, ast.Name) and x.id == t_) for t_ in tn)
                    if free and inside:
                        inner: list[ast.stmt] = [ast.Assign([ast.Name(st.target.id, ast.Store())], comp.elt)] + st.body
                        for c in reversed(g.ifs):
                            inner = [ast.If(c, inner, [])]
                        new = ast.For(g.target, g.iter, inner, [])
                        ast.copy_location(new, st)
                        for x in ast.walk(new):
                            if not hasattr(x, "lineno"):
                                ast.copy_location(x, st)
                        body[i] = new
                        if drop is not None:
                            del body[drop]
                            i -= 1
                        changed = True
                        st = new
            # for x in L: BODY   with  L = [y for y in S if c(y)]  bound once, earlier in this block (L may have other readers):
            # ->  for x in S: if not c(x): continue; BODY      -- as long as nothing that S or c read is changed in between
            if isinstance(st, ast.For) and not st.orelse and isinstance(st.target, ast.Name) and isinstance(st.iter, ast.Name) \
                    and stores_of.get(st.iter.id) == 1:
                Ln = st.iter.id
                dpos = next((k_ for k_ in range(i) if isinstance(body[k_], ast.Assign) and len(body[k_].targets) == 1
                             and isinstance(body[k_].targets[0], ast.Name) and body[k_].targets[0].id == Ln), None)
                if dpos is not None:
                    comp = body[dpos].value
                    if isinstance(comp, ast.ListComp) and len(comp.generators) == 1 and not comp.generators[0].is_async \
                            and isinstance(comp.generators[0].target, ast.Name) and isinstance(comp.elt, ast.Name) \
                            and comp.elt.id == comp.generators[0].target.id and comp.generators[0].ifs \
                            and not any(isinstance(y, (ast.Lambda, ast.NamedExpr, ast.Yield, ast.Await)) for y in ast.walk(comp)):
                        g = comp.generators[0]
                        read = {y.id for y in ast.walk(comp) if isinstance(y, ast.Name)} - {g.target.id}
                        touched = False
                        for st2 in body[dpos + 1:i + 1]:
                            for y in ast.walk(st2):
                                if isinstance(y, ast.Name) and y.id in read and isinstance(y.ctx, (ast.Store, ast.Del)):
                                    touched = True
                                if isinstance(y, ast.Call) and isinstance(y.func, ast.Attribute):
                                    base_ = y.func.value
                                    while isinstance(base_, (ast.Attribute, ast.Subscript)):
                                        base_ = base_.value
                                    a_ = y.func.attr
                                    if isinstance(base_, ast.Name) and base_.id in read and (
                                            a_ in ("append", "add", "update", "extend", "pop", "clear", "remove", "discard", "insert", "sort",
                                                   "reverse", "popitem", "setdefault", "popleft", "appendleft")
                                            or a_.startswith(("remove", "add_", "set_", "expand", "skip", "_ensure", "_expand", "reclaim",
                                                              "build", "node_successors", "node_attractor", "node_percolated", "_update"))):
                                        touched = True     # the object the list was computed from may change while it is walked
                                if isinstance(y, ast.Subscript) and isinstance(y.ctx, (ast.Store, ast.Del)) and isinstance(y.value, ast.Name) \
                                        and y.value.id in read:
                                    touched = True
                        tv = st.target.id
                        clash = tv != g.target.id and any(isinstance(y, ast.Name) and y.id == tv for y in ast.walk(comp))
                        if not touched and not clash:
                            class RN3(ast.NodeTransformer):
                                def visit_Name(self, n_):
                                    return ast.copy_location(ast.Name(tv, n_.ctx), n_) if n_.id == g.target.id else n_
                            guards = []
                            for c in g.ifs:
                                c2 = RN3().visit(copy.deepcopy(c))
                                t_ = c2.operand if isinstance(c2, ast.UnaryOp) and isinstance(c2.op, ast.Not) else ast.UnaryOp(ast.Not(), c2)
                                gi = ast.If(t_, [ast.Continue()], [])
                                guards.append(gi)
                            new = ast.For(ast.Name(tv, ast.Store()), copy.deepcopy(g.iter), guards + st.body, [])
                            ast.copy_location(new, st)
                            for x in ast.walk(new):
                                if not hasattr(x, "lineno"):
                                    ast.copy_location(x, st)
                            body[i] = new
                            changed = True
                            continue        # look at the new loop again (its iterable may be such a list too)
            if not isinstance(st, (ast.FunctionDef, ast.ClassDef)):
                for fld in ("body", "orelse", "finalbody"):
                    b = getattr(st, fld, None)
                    if isinstance(b, list) and b and isinstance(b[0], ast.stmt):
                        block(b)
                for h in getattr(st, "handlers", []) or []:
                    block(h.body)
            i += 1
    block(fn.body)
    if changed:
        ast.fix_missing_locations(fn)
    return changed


def _sra_prepare(repo, known: set[str]) -> list[tuple[str, str]]:
    """`v = K(args)` for a class K that the reference tree does not have, where `v` is only ever used as `v.field` /
    `v.method(..)`: the object is local state of the function. The constructor call becomes the explicit
    `K.__init__(v, args)` (which the inliner then treats like any new helper); after inlining, `_sra_finish` turns the
    fields into locals. Returns (function key, variable)."""
    out = []
    new_classes = {c for c, node in repo.classes.items()
                   if f"{repo.class_module[c].name}:{c}.__init__" in repo.functions
                   and f"{repo.class_module[c].name}:{c}.__init__" not in known}
    if not new_classes:
        return out
    for f in list(repo.functions.values()):
        for st in _own_walk(f.node):
            if not (isinstance(st, ast.Assign) and len(st.targets) == 1 and isinstance(st.targets[0], ast.Name)
                    and isinstance(st.value, ast.Call) and isinstance(st.value.func, ast.Name) and st.value.func.id in new_classes):
                continue
            v = st.targets[0].id
            occ = [n for n in _own_walk(f.node) if isinstance(n, ast.Name) and n.id == v]
            attr_vals = {id(n.value) for n in _own_walk(f.node) if isinstance(n, ast.Attribute)}
            if sum(1 for n in occ if isinstance(n.ctx, ast.Store)) != 1:
                continue
            K = st.value.func.id
            call_m = repo.functions.get(f"{repo.class_module[K].name}:{K}.__call__")
            callable_obj = False
            if not all(isinstance(n.ctx, ast.Store) or id(n) in attr_vals for n in occ):
                # the object itself is handed on: fine if it is a *callable* whose `__call__` only reads its fields or
                # mutates the containers they hold -- then it is a closure over those fields
                if call_m is None or any(isinstance(x, ast.Attribute) and isinstance(x.value, ast.Name) and x.value.id == "self"
                                         and isinstance(x.ctx, (ast.Store, ast.Del)) for x in ast.walk(call_m.node)):
                    continue
                callable_obj = True
            if any(isinstance(a, ast.Starred) for a in st.value.args) or any(k.arg is None for k in st.value.keywords):
                continue
            call = ast.Call(ast.Attribute(ast.Name(K, ast.Load()), "__init__", ast.Load()),
                            [ast.Name(v, ast.Load())] + list(st.value.args), list(st.value.keywords))
            new = ast.Expr(call)
            ast.copy_location(new, st)
            ast.fix_missing_locations(new)
            repl = [new]
            if callable_obj:
                cm = copy.deepcopy(call_m.node)

                class S2(ast.NodeTransformer):
                    def visit_Name(me, n):  # noqa: N805
                        return ast.copy_location(ast.Name(v, n.ctx), n) if n.id == "self" else n
                cm = S2().visit(cm)
                cm.name = v
                cm.args.args = cm.args.args[1:]
                cm.decorator_list = []
                ast.copy_location(cm, st)
                ast.fix_missing_locations(cm)
                repl.append(cm)
            # replace the statement in its block
            for par in ast.walk(f.node):
                for fld in ("body", "orelse", "finalbody"):
                    blk = getattr(par, fld, None)
                    if isinstance(blk, list) and st in blk:
                        i_ = blk.index(st)
                        blk[i_:i_ + 1] = repl
            out.append((f.key, v))
            repo.__dict__.setdefault("local_objects", {})[(f.key, v)] = K
    if out:
        repo.reindex()
    return out


def _sra_finish(repo, sites: list[tuple[str, str]]) -> None:
    for fk, v in sites:
        f = repo.functions.get(fk)
        if f is None:
            continue
        # every remaining use must be a field access (all method calls were inlined)
        fields = set()
        ok = True
        parents = {}
        for n in ast.walk(f.node):
            for c in ast.iter_child_nodes(n):
                parents[id(c)] = n
        closure = next((d for d in _nested_defs(f.node) if d.name == v), None)
        scope = list(_own_walk(f.node)) + (list(ast.walk(closure)) if closure is not None else [])
        for n in scope:
            if isinstance(n, ast.Name) and n.id == v:
                par = parents.get(id(n))
                if not (isinstance(par, ast.Attribute) and par.value is n):
                    if closure is not None and isinstance(n.ctx, ast.Load):
                        continue      # the closure itself is handed on
                    ok = False
                    break
                gp = parents.get(id(par))
                if isinstance(gp, ast.Call) and gp.func is par:
                    # v.m(...) still a call: is it a field holding a container (`v.items.append`)? no: `v.m` itself is called
                    ok = False
                    break
                fields.add(par.attr)
        if not ok or not fields:
            continue

        class R(ast.NodeTransformer):
            def visit_FunctionDef(self, n):
                return self.generic_visit(n) if (n is f.node or n is closure) else n

            def visit_Attribute(self, n):
                if isinstance(n.value, ast.Name) and n.value.id == v:
                    return ast.copy_location(ast.Name(f"{v}__{n.attr}", n.ctx), n)
                return self.generic_visit(n)
        R().visit(f.node)
        ast.fix_missing_locations(f.node)


def apply(repo) -> dict:
    """Mutates the module trees of `repo`; returns a report {inlined: [...], opaque: [...], removed: [...]}."""
    known = known_functions()
    report = {"inlined": [], "opaque": [], "removed": [], "new": [], "renamed": {}}
    report["renamed"] = undo_renames(repo)
    sra = _sra_prepare(repo, known)
    normalise_calls(repo)
    # `def ids(self): return self._helper(..)` with a new generator `_helper`: the function hands on the helper's
    # iterator, which is what `for y in self._helper(..): yield y` does for every consumer that only iterates
    new0 = {k: f for k, f in repo.functions.items() if k not in known}
    # `while helper(..): BODY` with a new helper: the call moves into the loop (`while True: t = helper(..); if not t:
    # break; BODY`), where it can be inlined like any other statement
    if new0:
        wn = [0]
        for f in list(repo.functions.values()):
            class W(ast.NodeTransformer):
                def visit_FunctionDef(self, n):
                    return self.generic_visit(n) if n is f.node else n

                def visit_While(self, n):
                    self.generic_visit(n)
                    t, neg = n.test, False
                    while isinstance(t, ast.UnaryOp) and isinstance(t.op, ast.Not):
                        t, neg = t.operand, not neg
                    if isinstance(t, ast.Call) and repo.resolve_call(f, t) in new0 and not n.orelse:
                        wn[0] += 1
                        v = f"_w{wn[0]}"
                        a = ast.Assign([ast.Name(v, ast.Store())], t)
                        cond = ast.Name(v, ast.Load()) if neg else ast.UnaryOp(ast.Not(), ast.Name(v, ast.Load()))
                        brk = ast.If(cond, [ast.Break()], [])
                        body = [x for x in n.body if not isinstance(x, ast.Pass)]
                        new_ = ast.While(ast.Constant(True), [a, brk] + body, [])
                        for x in (a, brk, new_):
                            ast.copy_location(x, n)
                        ast.fix_missing_locations(new_)
                        for y in ast.walk(new_):
                            if hasattr(y, "lineno") and y not in ast.walk(ast.Module(body, [])):
                                pass
                        return new_
                    return n
            W().visit(f.node)
        if wn[0]:
            repo.reindex()
            new0 = {k: f for k, f in repo.functions.items() if k not in known}
    # `return all(helper(x) for x in S)` with a new multi-statement helper: the quantifier becomes the loop it abbreviates
    # (`for x in S: if not helper(x): return False` / `return True`), where the call can be inlined
    if new0:
        qn = [0]
        for f in list(repo.functions.values()):
            def lower_q(body: list) -> None:
                k = 0
                while k < len(body):
                    st = body[k]
                    if isinstance(st, ast.Return) and isinstance(st.value, ast.Call) and isinstance(st.value.func, ast.Name) \
                            and st.value.func.id in ("all", "any") and len(st.value.args) == 1 and not st.value.keywords \
                            and isinstance(st.value.args[0], (ast.GeneratorExp, ast.ListComp)) and len(st.value.args[0].generators) == 1 \
                            and not st.value.args[0].generators[0].is_async:
                        ge = st.value.args[0]
                        calls_new = [c for c in ast.walk(ge.elt) if isinstance(c, ast.Call) and repo.resolve_call(f, c) in new0
                                     and not (len(_body(new0[repo.resolve_call(f, c)].node)) == 1
                                              and isinstance(_body(new0[repo.resolve_call(f, c)].node)[0], ast.Return))]
                        if calls_new:
                            is_all = st.value.func.id == "all"
                            g = ge.generators[0]
                            test = ast.UnaryOp(ast.Not(), ge.elt) if is_all else ge.elt
                            inner: list[ast.stmt] = [ast.If(test, [ast.Return(ast.Constant(not is_all))], [])]
                            for c in reversed(g.ifs):
                                inner = [ast.If(c, inner, [])]
                            lp = ast.For(g.target, g.iter, inner, [])
                            for y in ast.walk(g.target):
                                if isinstance(y, ast.Name):
                                    y.ctx = ast.Store()
                            fin = ast.Return(ast.Constant(is_all))
                            for x in (lp, fin):
                                ast.copy_location(x, st)
                                ast.fix_missing_locations(x)
                                for y in ast.walk(x):
                                    if hasattr(y, "lineno"):
                                        y.lineno = y.end_lineno = st.lineno
                            body[k:k + 1] = [lp, fin]
                            qn[0] += 1
                            k += 1
                    elif not isinstance(st, (ast.FunctionDef, ast.ClassDef)):
                        for fld in ("body", "orelse", "finalbody"):
                            b = getattr(st, fld, None)
                            if isinstance(b, list) and b and isinstance(b[0], ast.stmt):
                                lower_q(b)
                        for h in getattr(st, "handlers", []) or []:
                            lower_q(h.body)
                    k += 1
            lower_q(f.node.body)
        if qn[0]:
            repo.reindex()
            new0 = {k: f for k, f in repo.functions.items() if k not in known}
    # `sorted(xs, key=self._helper)` / `map(_helper, xs)` with a new one-parameter expression helper: the reference is the
    # function `lambda a: self._helper(a)`, whose body the helper's expression can replace
    expr1 = {}
    for k, f in new0.items():
        ps_ = [p_ for p_ in f.params() if p_ != "self"]
        if _is_expr_helper(f.node) and len(ps_) == 1 and not f.node.decorator_list:
            expr1[f.node.name] = k
    if expr1:
        eta = [0]

        class Eta(ast.NodeTransformer):
            def visit_Call(self, c):
                self.generic_visit(c)
                def fix(v):
                    nm = v.attr if isinstance(v, ast.Attribute) and isinstance(v.value, ast.Name) else v.id if isinstance(v, ast.Name) else None
                    if nm in expr1 and isinstance(getattr(v, "ctx", None), ast.Load):
                        eta[0] += 1
                        a = f"_eta{eta[0]}"
                        hf = new0[expr1[nm]]
                        hps = hf.params()
                        env_ = {[p_ for p_ in hps if p_ != "self"][0]: ast.Name(a, ast.Load())}
                        if hps and hps[0] == "self" and isinstance(v, ast.Attribute):
                            env_["self"] = v.value
                        body_ = copy.deepcopy(_body(hf.node)[0].value)
                        if any(isinstance(y, (ast.Lambda, ast.NamedExpr, ast.ListComp, ast.SetComp, ast.DictComp, ast.GeneratorExp)) for y in ast.walk(body_)):
                            return v

                        class S_(ast.NodeTransformer):
                            def visit_Name(self, x):
                                return copy.deepcopy(env_[x.id]) if x.id in env_ and isinstance(x.ctx, ast.Load) else x
                        lam = ast.Lambda(ast.arguments([], [ast.arg(a)], None, [], [], None, []), S_().visit(body_))
                        for y in ast.walk(lam):
                            ast.copy_location(y, v)
                        return lam
                    return v
                if callee_name_of(c) in ("sorted", "min", "max", "map", "filter", "sort"):
                    c.args = [fix(a) if i > 0 or callee_name_of(c) in ("map", "filter") else a for i, a in enumerate(c.args)]
                    for kw in c.keywords:
                        if kw.arg == "key":
                            kw.value = fix(kw.value)
                return c

        def callee_name_of(c):
            return c.func.id if isinstance(c.func, ast.Name) else c.func.attr if isinstance(c.func, ast.Attribute) else None
        for f in list(repo.functions.values()):
            if f.key in new0:
                continue
            Eta().visit(f.node)
            ast.fix_missing_locations(f.node)
        if eta[0]:
            repo.reindex()
    # `xs = [v for a in A if (v := helper(a)) is not None]` with a new multi-statement helper: a loop with the call as a
    # statement of its own, which the helper's body can replace
    multi0 = {k for k, f in new0.items() if eligible(f.node) and not _is_expr_helper(f.node)}
    if multi0:
        from .repo import _lower_comp
        cnt = [100]
        lowered = False
        for f in list(repo.functions.values()):
            if f.key in multi0:
                continue

            def lower_w(body: list) -> bool:
                ch = False
                k = 0
                while k < len(body):
                    st = body[k]
                    if isinstance(st, ast.Assign) and len(st.targets) == 1 and isinstance(st.targets[0], ast.Name) \
                            and isinstance(st.value, (ast.ListComp, ast.SetComp)) and len(st.value.generators) == 1 \
                            and not st.value.generators[0].is_async and len(st.value.generators[0].ifs) == 1:
                        c0 = st.value.generators[0].ifs[0]
                        first = c0.left if isinstance(c0, ast.Compare) else c0.operand if isinstance(c0, ast.UnaryOp) and isinstance(c0.op, ast.Not) else c0
                        if isinstance(first, ast.NamedExpr) and isinstance(first.value, ast.Call) \
                                and repo.resolve_call(f, first.value) in multi0 \
                                and sum(1 for y in ast.walk(st.value) if isinstance(y, ast.NamedExpr)) == 1:
                            X = st.targets[0].id
                            meth = "append" if isinstance(st.value, ast.ListComp) else "add"
                            loop = _lower_comp(st.value, lambda e: ast.Expr(ast.Call(ast.Attribute(ast.Name(X, ast.Load()), meth, ast.Load()), [e], [])), cnt)
                            lp = loop[0]
                            iff = lp.body[0]
                            # the walrus is the first thing the test evaluates: it becomes a statement before the test
                            t0 = iff.test
                            w_ = t0.left if isinstance(t0, ast.Compare) else t0.operand if isinstance(t0, ast.UnaryOp) else t0
                            asg = ast.Assign([ast.Name(w_.target.id, ast.Store())], w_.value)
                            nm = ast.Name(w_.target.id, ast.Load())
                            if isinstance(t0, ast.Compare):
                                t0.left = nm
                            elif isinstance(t0, ast.UnaryOp):
                                t0.operand = nm
                            else:
                                iff.test = nm
                            lp.body = [asg, iff]
                            init = ast.Assign([ast.Name(X, ast.Store())], ast.List([], ast.Load()) if meth == "append"
                                              else ast.Call(ast.Name("set", ast.Load()), [], []))
                            for x in (init, lp):
                                ast.copy_location(x, st)
                                ast.fix_missing_locations(x)
                                for y in ast.walk(x):
                                    if hasattr(y, "lineno"):
                                        y.lineno = y.end_lineno = st.lineno
                            body[k:k + 1] = [init, lp]
                            ch = True
                            k += 1
                    elif not isinstance(st, (ast.FunctionDef, ast.ClassDef)):
                        for fld in ("body", "orelse", "finalbody"):
                            b = getattr(st, fld, None)
                            if isinstance(b, list) and b and isinstance(b[0], ast.stmt):
                                ch |= lower_w(b)
                        for h in getattr(st, "handlers", []) or []:
                            ch |= lower_w(h.body)
                    k += 1
                return ch
            lowered |= lower_w(f.node.body)
        if lowered:
            repo.reindex()
    gens0 = {k for k, f in new0.items() if eligible_generator(f.node)}
    if gens0:
        # `xs = [E(a) for a in new_generator(..)]`  ->  `xs = []; for a in new_generator(..): xs.append(E(a))`, so that the
        # generator's loop can take the place of the call
        for f in list(repo.functions.values()):
            if f.key in gens0:
                continue

            def lower(body: list) -> bool:
                ch = False
                k = 0
                while k < len(body):
                    st = body[k]
                    if isinstance(st, ast.Return) and isinstance(st.value, (ast.ListComp, ast.SetComp)) \
                            and len(st.value.generators) == 1 and not st.value.generators[0].is_async \
                            and isinstance(st.value.generators[0].iter, ast.Call) \
                            and repo.resolve_call(f, st.value.generators[0].iter) in gens0:
                        # `return [E(a) for a in new_generator(..)]`: the list gets a name first
                        asg = ast.Assign([ast.Name("_collected", ast.Store())], st.value)
                        ret = ast.Return(ast.Name("_collected", ast.Load()))
                        for x in (asg, ret):
                            ast.copy_location(x, st)
                            ast.fix_missing_locations(x)
                        body[k:k + 1] = [asg, ret]
                        st = asg
                    if isinstance(st, ast.Assign) and len(st.targets) == 1 and isinstance(st.targets[0], ast.Name) \
                            and isinstance(st.value, (ast.ListComp, ast.SetComp)) and len(st.value.generators) == 1 \
                            and not st.value.generators[0].is_async and isinstance(st.value.generators[0].iter, ast.Call) \
                            and repo.resolve_call(f, st.value.generators[0].iter) in gens0:
                        g = st.value.generators[0]
                        X = st.targets[0].id
                        meth = "append" if isinstance(st.value, ast.ListComp) else "add"
                        inner: list[ast.stmt] = [ast.Expr(ast.Call(ast.Attribute(ast.Name(X, ast.Load()), meth, ast.Load()), [st.value.elt], []))]
                        for c in reversed(g.ifs):
                            inner = [ast.If(c, inner, [])]
                        lp = ast.For(g.target, g.iter, inner, [])
                        for y in ast.walk(g.target):
                            if isinstance(y, ast.Name):
                                y.ctx = ast.Store()
                        init = ast.Assign([ast.Name(X, ast.Store())], ast.List([], ast.Load()) if meth == "append"
                                          else ast.Call(ast.Name("set", ast.Load()), [], []))
                        for x in (init, lp):
                            ast.copy_location(x, st)
                            ast.fix_missing_locations(x)
                            for y in ast.walk(x):
                                if hasattr(y, "lineno"):
                                    y.lineno = y.end_lineno = st.lineno
                        body[k:k + 1] = [init, lp]
                        ch = True
                        k += 1
                    elif not isinstance(st, (ast.FunctionDef, ast.ClassDef)):
                        for fld in ("body", "orelse", "finalbody"):
                            b = getattr(st, fld, None)
                            if isinstance(b, list) and b and isinstance(b[0], ast.stmt):
                                ch |= lower(b)
                        for h in getattr(st, "handlers", []) or []:
                            ch |= lower(h.body)
                    k += 1
                return ch
            lower(f.node.body)
        for f in list(repo.functions.values()):
            if f.key in gens0:
                continue
            body = [st for st in f.node.body if not (isinstance(st, ast.Expr) and isinstance(st.value, ast.Constant))]
            if len(body) == 1 and isinstance(body[0], ast.Return) and isinstance(body[0].value, ast.Call) \
                    and repo.resolve_call(f, body[0].value) in gens0 \
                    and not any(isinstance(y, (ast.Yield, ast.YieldFrom)) for y in ast.walk(f.node)):
                r_ = body[0]
                lp = ast.For(ast.Name("_y0", ast.Store()), r_.value, [ast.Expr(ast.Yield(ast.Name("_y0", ast.Load())))], [])
                ast.copy_location(lp, r_)
                ast.fix_missing_locations(lp)
                for y in ast.walk(lp):
                    if hasattr(y, "lineno"):
                        y.lineno = y.end_lineno = r_.lineno
                f.node.body[f.node.body.index(r_)] = lp
        repo.reindex()
    for rnd in range(6):
        new = {k: f for k, f in repo.functions.items() if k not in known}
        report["new"] = sorted(new)
        if not new:
            break
        cg = repo.callgraph
        recursive = {k for k in new if k in _reach(cg, k)}
        cand = {k: f for k, f in new.items() if k not in recursive and (eligible(f.node) or eligible_generator(f.node))}
        # innermost first: helpers that call no other candidate
        # (a helper's own closures travel with it; they do not make it a non-leaf)
        leaves = {k: f for k, f in cand.items()
                  if not {c for c in (cg.get(k, set()) & set(cand)) if not c.startswith(k + ".")}} or cand
        changed = False
        for f in list(repo.functions.values()):
            changed |= _inline_in(repo, f, leaves, report)
        if not changed:
            break
        repo.reindex()
    normalise_calls(repo)
    if sra:
        _sra_finish(repo, sra)
        report["objects_dissolved"] = [f"{v} in {fk}" for fk, v in sra]
    for f in list(repo.functions.values()):
        if any(k.split(" -> ")[1].split(" [")[0] == f.key for k in report["inlined"]):
            _fold_after_inlining(f.node)
            _thread_loop_exits(f.node)
            _project_tuples(f.node)
            _split_tuple_assigns(f.node)
            _coalesce_inliner_copies(f.node)
            _beta_reduce_lambdas(f.node)
            from .repo import _unroll_literal_quantifiers, _hoist_if_walrus
            _unroll_literal_quantifiers(f.node)
            _hoist_if_walrus(f.node)
            _lower_classifying_setcomps(f.node)
            from .repo import _fuse_filter_pipeline
            _fuse_filter_pipeline(f.node)
        # a loop over a list that was only built to be looped over is the loop over its source (everywhere: collecting
        # first and looping afterwards is a common way to write the same scan)
        if _unfold_comprehension_loops(f.node):
            ast.fix_missing_locations(f.node)
    for f in list(repo.functions.values()):
        _collect_nonnull(f.node)
        if _thread_sentinels(f.node.body):
            ast.fix_missing_locations(f.node)
        if _thread_empty_results(f.node.body):
            ast.fix_missing_locations(f.node)
        if any(k.split(" -> ")[1].split(" [")[0] == f.key for k in report["inlined"]) and _thread_flags(f.node.body):
            ast.fix_missing_locations(f.node)
        if any(k.split(" -> ")[1].split(" [")[0] == f.key for k in report["inlined"]) and _thread_if_flags(f.node.body):
            ast.fix_missing_locations(f.node)
    # remove new functions without remaining references
    new = {k: f for k, f in repo.functions.items() if k not in known}
    if new:
        refs = _references(repo)
        was_inlined = {x.split(" -> ")[0] for x in report["inlined"]}
        for k, f in new.items():
            # only helpers whose every use was inlined disappear; a new function that nobody in the package calls
            # (new API, a function used from outside) stays a unit of analysis
            if f.node.name not in refs and k in was_inlined:
                _remove_def(repo, f)
                report["removed"].append(k)
        if report["removed"]:
            repo.reindex()
    return report


def _reach(cg, k):
    seen, todo = set(), list(cg.get(k, ()))
    while todo:
        x = todo.pop()
        if x not in seen:
            seen.add(x)
            todo.extend(cg.get(x, ()))
    return seen


def _references(repo) -> set[str]:
    out = set()
    for m in repo.modules.values():
        for n in ast.walk(m.tree):
            if isinstance(n, ast.Name) and isinstance(n.ctx, ast.Load):
                out.add(n.id)
            elif isinstance(n, ast.Attribute):
                out.add(n.attr)
            elif isinstance(n, ast.ImportFrom):
                pass
    return out


def _remove_def(repo, f) -> None:
    target = f.node
    for m in repo.modules.values():
        for n in ast.walk(m.tree):
            for fld in ("body", "orelse", "finalbody"):
                b = getattr(n, fld, None)
                if isinstance(b, list) and target in b:
                    b.remove(target)
                    if not b:
                        b.append(ast.Pass(lineno=target.lineno, col_offset=0, end_lineno=target.lineno, end_col_offset=0))
                    return


def _pure_expression_helper(repo, g) -> bool:
    """The helper only computes a value: ifs, returns, local lets; no call into this package, no stores to objects."""
    names = {f.name for f in repo.functions.values()}
    for n in _own_walk(g.node):
        if isinstance(n, (ast.For, ast.While, ast.Try, ast.With, ast.Raise, ast.AugAssign, ast.Delete)):
            return False
        if isinstance(n, ast.Call):
            nm = n.func.attr if isinstance(n.func, ast.Attribute) else getattr(n.func, "id", "")
            if nm in names or nm in ("append", "add", "remove", "update", "pop", "extend", "clear", "set_update_function"):
                return False
        if isinstance(n, (ast.Subscript, ast.Attribute)) and isinstance(n.ctx, (ast.Store, ast.Del)):
            return False
    return True


_HOISTABLE = (ast.Assign, ast.AnnAssign, ast.AugAssign, ast.Expr, ast.Return, ast.If, ast.For, ast.Assert, ast.Raise)


def _inline_in(repo, f, cand: dict, report) -> bool:
    """Inline calls of candidate helpers in the body of function f (one level)."""
    fn = f.node
    changed = False

    def resolve(call: ast.Call, gen: bool = False):
        k = repo.resolve_call(f, call)
        if k in cand and cand[k] is not f:
            g = cand[k]
            if gen != (not eligible(g.node)):
                return None
            if g.parent is not None and g.parent is not f:
                return None  # closure of another function
            return g
        return None

    def receiver_of(call: ast.Call, g):
        if g.cls is not None and isinstance(call.func, ast.Attribute):
            static = any(isinstance(d, ast.Name) and d.id == "staticmethod" for d in g.node.decorator_list)
            v = call.func.value
            if static:
                return None
            if isinstance(v, ast.Name) and v.id == g.cls:
                return None  # Class.method(obj, ...) : positional self
            return v
        return None

    def do_block(stmts: list[ast.stmt]) -> list[ast.stmt]:
        nonlocal changed
        out: list[ast.stmt] = []
        for s in stmts:
            if isinstance(s, (ast.FunctionDef, ast.AsyncFunctionDef, ast.ClassDef)):
                out.append(s)
                continue
            # recurse into compound statements first
            for fld in ("body", "orelse", "finalbody"):
                b = getattr(s, fld, None)
                if isinstance(b, list) and b and isinstance(b[0], ast.stmt):
                    setattr(s, fld, do_block(b))
            if isinstance(s, ast.Try):
                for h in s.handlers:
                    h.body = do_block(h.body)
            out.extend(do_stmt(s))
        return out

    def header_exprs(s: ast.stmt) -> list[ast.AST]:
        """Expression roots evaluated by the statement itself (not its nested blocks)."""
        if isinstance(s, (ast.If, ast.While)):
            return [s.test]
        if isinstance(s, ast.For):
            return [s.iter]
        if isinstance(s, ast.With):
            return [i.context_expr for i in s.items]
        if isinstance(s, ast.Try):
            return []
        return [c for c in ast.iter_child_nodes(s) if isinstance(c, ast.expr)]

    def do_stmt(s: ast.stmt) -> list[ast.stmt]:
        nonlocal changed
        if isinstance(s, ast.For) and isinstance(s.iter, ast.Call):
            g = resolve(s.iter, gen=True)
            if g is not None:
                site = Site(fn, g.node, s.iter, receiver_of(s.iter, g), g.qualname)
                try:
                    new = inline_generator_loop(site, s)
                    changed = True
                    report["inlined"].append(f"{g.key} -> {f.key} [generator loop]")
                    return new
                except CannotInline as e:
                    report["opaque"].append(f"{g.key} in {f.key}: {e}")
                    return [s]
        # whole-statement forms
        val = getattr(s, "value", None) if isinstance(s, (ast.Expr, ast.Assign, ast.AnnAssign, ast.Return)) else None
        if isinstance(val, ast.Call):
            g = resolve(val)
            if g is not None:
                form = {ast.Expr: "expr", ast.Assign: "assign", ast.AnnAssign: "assign", ast.Return: "return"}[type(s)]
                if form == "assign" and isinstance(s, ast.Assign) and len(s.targets) != 1:
                    form = None
                if form:
                    site = Site(fn, g.node, val, receiver_of(val, g), g.qualname)
                    if form in ("assign", "return") and _pure_expression_helper(repo, g):
                        try:
                            s.value = site.as_expression()
                            changed = True
                            report["inlined"].append(f"{g.key} -> {f.key} [expr]")
                            return [s]
                        except CannotInline:
                            pass
                    try:
                        new = site.as_statements(form, s)
                        changed = True
                        report["inlined"].append(f"{g.key} -> {f.key} [{form}]")
                        return new
                    except CannotInline as e:
                        why = str(e)
                        try:
                            val2 = site.as_expression()
                            s.value = val2
                            changed = True
                            report["inlined"].append(f"{g.key} -> {f.key} [expr]")
                            return [s]
                        except CannotInline:
                            report["opaque"].append(f"{g.key} in {f.key}: {why}")
        # `if a and h(x): S` (no else) with a helper call behind the `and`: nest the tests, so that the call can be hoisted
        if isinstance(s, ast.If) and not s.orelse and isinstance(s.test, ast.BoolOp) and isinstance(s.test.op, ast.And) \
                and len(s.test.values) >= 2:
            later = [c for v in s.test.values[1:] for c in ast.walk(v) if isinstance(c, ast.Call)]
            if any(resolve(c) is not None and not _pure_expression_helper(repo, resolve(c)) for c in later):
                inner_test = s.test.values[1] if len(s.test.values) == 2 else ast.BoolOp(ast.And(), s.test.values[1:])
                inner = ast.copy_location(ast.If(inner_test, s.body, []), s)
                outer = ast.copy_location(ast.If(s.test.values[0], [inner], []), s)
                ast.fix_missing_locations(outer)
                changed = True
                outer.body = do_block(outer.body)
                return do_stmt(outer)
        # nested calls
        pre: list[ast.stmt] = []
        for root in header_exprs(s):
            for call, guarded in _calls_with_context(root):
                if call is val:
                    continue
                g = resolve(call)
                if g is None:
                    continue
                site = Site(fn, g.node, call, receiver_of(call, g), g.qualname)
                try:
                    e = site.as_expression()
                    _replace(s, call, e)
                    changed = True
                    report["inlined"].append(f"{g.key} -> {f.key} [expr]")
                    continue
                except CannotInline as e1:
                    why = str(e1)
                if guarded or not isinstance(s, _HOISTABLE):
                    report["opaque"].append(f"{g.key} in {f.key}: {why}; call not hoistable")
                    continue
                Site.counter += 1
                tmp = f"_inl{Site.counter}"
                asg = ast.Assign([ast.Name(tmp, ast.Store())], call)
                try:
                    new = site.as_statements("assign", asg)
                except CannotInline as e2:
                    report["opaque"].append(f"{g.key} in {f.key}: {e2}")
                    continue
                _replace(s, call, ast.copy_location(ast.Name(tmp, ast.Load()), call))
                pre.extend(new)
                changed = True
                report["inlined"].append(f"{g.key} -> {f.key} [hoisted]")
        return pre + [s]

    fn.body = do_block(fn.body)
    return changed


def _calls_with_context(root: ast.AST):
    """(call, guarded) for calls in an expression; guarded = evaluated conditionally or repeatedly."""
    out = []

    def go(n, guarded):
        if isinstance(n, ast.Lambda):
            return
        if isinstance(n, ast.Call):
            out.append((n, guarded))
        if isinstance(n, ast.BoolOp):
            go(n.values[0], guarded)
            for v in n.values[1:]:
                go(v, True)
            return
        if isinstance(n, ast.IfExp):
            go(n.test, guarded)
            go(n.body, True)
            go(n.orelse, True)
            return
        if isinstance(n, (ast.ListComp, ast.SetComp, ast.GeneratorExp, ast.DictComp)):
            for i, gen in enumerate(n.generators):
                go(gen.iter, guarded or i > 0)
                for c in gen.ifs:
                    go(c, True)
            for fld in ("elt", "key", "value"):
                if hasattr(n, fld):
                    go(getattr(n, fld), True)
            return
        for c in ast.iter_child_nodes(n):
            go(c, guarded)

    go(root, False)
    return out


def _replace(root: ast.AST, old: ast.AST, new: ast.AST) -> None:
    for n in ast.walk(root):
        for fld, v in ast.iter_fields(n):
            if v is old:
                setattr(n, fld, new)
                return
            if isinstance(v, list):
                for i, x in enumerate(v):
                    if x is old:
                        v[i] = new
                        return
    raise CannotInline("call site not found")


if __name__ == "__main__":
    import sys
    from .repo import Repo
    if "--freeze" in sys.argv:
        r = Repo(sys.argv[sys.argv.index("--freeze") + 1] if len(sys.argv) > 2 else "/repo", normalise=False)
        KNOWN_FILE.write_text("# functions of the reference tree (module:qualname(parameters)); anything else is a new helper\n"
                              + "\n".join(f"{k}({','.join(r.functions[k].params())})" for k in sorted(r.functions)) + "\n")
        print(len(r.functions), "functions frozen")
    else:
        r = Repo(sys.argv[1] if len(sys.argv) > 1 else "/repo")
        print(r.inline_report)
