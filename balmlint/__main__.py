"""CLI:  python -m balmlint check Cxx [--thorough] [--repo DIR] [--no-evidence]
         python -m balmlint all [--repo DIR] [--no-evidence]
         python -m balmlint selftest [Cxx ...] [--jobs N]
"""

from __future__ import annotations

import argparse
import importlib
import os
import sys
import time
import traceback

from .program import Program
from .repo import AnalysisError
from .report import Check, finish

PROPS = [f"C{i:02d}" for i in range(1, 21)]


def run_property(prop: str, repo: str, tier: str, write_evidence: bool = True, verbose: bool = False) -> int:
    t0 = time.time()
    try:
        mod = importlib.import_module(f"balmlint.rules.{prop.lower()}")
    except ModuleNotFoundError:
        print(f"ANALYSIS-ERROR property={prop}: no rule set for this property")
        return 2
    try:
        prog = Program(repo)
        ck = Check(prop, prog)
        mod.run(ck)
        if verbose:
            for o in ck.obs:
                print(f"  {'ok ' if o.ok else 'BAD'} {o.rule} {o.where.replace(repo, '')}: {o.detail[:150]}")
        extra = {}
        if tier == "thorough":
            from . import selftest
            extra = selftest.run_for_property(prop, repo)
            if extra.get("selftest_failures"):
                for l in extra["selftest_failures"]:
                    print("SELFTEST-FAILED " + l)
                finish(ck, tier, t0, mod.EXPLANATION, mod.ASSUMPTIONS, extra, repo, write_evidence)
                return 2
        return finish(ck, tier, t0, mod.EXPLANATION, mod.ASSUMPTIONS, extra, repo, write_evidence)
    except AnalysisError as e:
        print(f"ANALYSIS-ERROR property={prop}: {e}")
        return 2
    except Exception:  # noqa
        traceback.print_exc()
        print(f"ANALYSIS-ERROR property={prop}: internal error (traceback above)")
        return 2


def main(argv=None) -> int:
    ap = argparse.ArgumentParser(prog="balmlint")
    sub = ap.add_subparsers(dest="cmd", required=True)
    c = sub.add_parser("check")
    c.add_argument("prop")
    c.add_argument("--thorough", action="store_true")
    c.add_argument("--repo", default=os.environ.get("BALMLINT_REPO", "/repo"))
    c.add_argument("--no-evidence", action="store_true")
    c.add_argument("-v", "--verbose", action="store_true")
    a = sub.add_parser("all")
    a.add_argument("--repo", default=os.environ.get("BALMLINT_REPO", "/repo"))
    a.add_argument("--no-evidence", action="store_true")
    s = sub.add_parser("selftest")
    s.add_argument("props", nargs="*")
    s.add_argument("--jobs", type=int, default=16)
    s.add_argument("--repo", default="/repo")
    s.add_argument("-v", action="store_true")
    args = ap.parse_args(argv)
    if args.cmd == "check":
        tier = "thorough" if args.thorough or os.environ.get("VERIF_TIER") == "thorough" else "quick"
        return run_property(args.prop.upper(), args.repo, tier, not args.no_evidence, args.verbose)
    if args.cmd == "all":
        rc = 0
        for p in PROPS:
            try:
                importlib.import_module(f"balmlint.rules.{p.lower()}")
            except ModuleNotFoundError:
                continue
            rc = max(rc, run_property(p, args.repo, "quick", not args.no_evidence))
        return rc
    if args.cmd == "selftest":
        from . import selftest
        return selftest.main(args.props, args.jobs, args.repo, args.v)
    return 2


if __name__ == "__main__":
    sys.exit(main())
