"""Testing the checker both ways on scratch copies of the *current* /repo.

* breaking variants: one construct broken, still compiles -> the named rule must fire
* benign variants: behaviour-preserving rewrites -> every rule set must stay silent
* reverted fix commits and the kept seeded changes (/verif/seeded/*/patch.diff) are breaking variants too

Scratch copies live under $TMPDIR (outside /repo and /verif) and are removed immediately.
A surviving breaking variant or a noisy benign variant is a SELF-TEST failure (exit 2); it never
produces a VIOLATION about /repo.
"""

from __future__ import annotations

import ast
import contextlib
import importlib
import io
import json
import multiprocessing as mp
import os
import shutil
import subprocess
import sys
import tempfile
import time
from pathlib import Path

from .program import Program
from .repo import AnalysisError
from .report import VERIF, Check

ALL_PROPS = [f"C{i:02d}" for i in range(1, 21)]


def implemented() -> list[str]:
    out = []
    for p in ALL_PROPS:
        if (Path(__file__).parent / "rules" / f"{p.lower()}.py").exists():
            out.append(p)
    return out


def analyse(repo: str, props: list[str]) -> dict[str, list[dict]]:
    """Run rule sets in-process; returns property -> list of violated obligations (dicts).
    'ERROR' key holds analysis errors."""
    res: dict[str, list[dict]] = {}
    try:
        prog = Program(repo)
    except AnalysisError as e:
        return {"ERROR": [{"detail": str(e)}]}
    for p in props:
        mod = importlib.import_module(f"balmlint.rules.{p.lower()}")
        ck = Check(p, prog)
        try:
            mod.run(ck)
            known = {(k["property"], k["rule"], k["key"]) for k in json.loads((VERIF / "known_findings.json").read_text()).get("open", [])}
            res[p] = [o.as_dict() for o in ck.obs if not o.ok and (p, o.rule, o.key) not in known]
            if not res[p]:
                for rule, minimum in ck.floors.items():
                    n = sum(1 for o in ck.obs if o.rule == rule)
                    if n < minimum:
                        raise AnalysisError(f"floor {rule}: {n} < {minimum}")
        except AnalysisError as e:
            res.setdefault("ERROR", []).append({"property": p, "detail": str(e)})
        except Exception as e:  # noqa
            import traceback
            res.setdefault("ERROR", []).append({"property": p, "detail": traceback.format_exc()[-1500:]})
    return res


# --------------------------------------------------------------------------- scratch copies


def make_scratch(repo: str) -> str:
    d = tempfile.mkdtemp(prefix="balmlint_variant_")
    shutil.copy(os.path.join(repo, "pyproject.toml"), d)
    shutil.copytree(os.path.join(repo, "biobalm"), os.path.join(d, "biobalm"),
                    ignore=shutil.ignore_patterns("__pycache__"))
    return d


class Stale(Exception):
    pass


def sub(root: str, rel: str, old: str, new: str, count: int = 1) -> None:
    p = os.path.join(root, rel)
    s = open(p).read()
    if s.count(old) != count:
        raise Stale(f"{rel}: anchor text occurs {s.count(old)} time(s), expected {count}: {old[:70]!r}")
    open(p, "w").write(s.replace(old, new))


def apply_variant(v: dict, root: str, repo: str) -> None:
    if "patch" in v:
        r = subprocess.run(["patch", "-p1", "-s", "-F", "3", "--no-backup-if-mismatch"], input=open(v["patch"]).read(), text=True,
                           cwd=root, capture_output=True)
        if r.returncode != 0:
            raise Stale(f"cannot apply {v['patch']}: {r.stdout[-300:]}")
    if "edits" in v:
        for e in v["edits"]:
            sub(root, e[0], e[1], e[2], e[3] if len(e) > 3 else 1)
    if "revert" in v:
        diff = subprocess.run(["git", "-C", repo, "diff", f"{v['revert']}^", v["revert"], "--", "biobalm"],
                              capture_output=True, text=True, check=True).stdout
        r = subprocess.run(["patch", "-R", "-p1", "-s", "-F", "3", "--no-backup-if-mismatch"], input=diff, text=True, cwd=root,
                           capture_output=True)
        if r.returncode != 0:
            raise Stale(f"cannot revert {v['revert']}: {r.stdout[-300:]}")
    if "transform" in v:
        from . import selftest_variants as sv
        getattr(sv, v["transform"])(root)
    # must still compile
    for f in Path(root, "biobalm").rglob("*.py"):
        ast.parse(f.read_text(), filename=str(f))


def run_variant(args) -> dict:
    v, repo = args
    root = make_scratch(repo)
    t0 = time.time()
    try:
        try:
            apply_variant(v, root, repo)
        except Stale as e:
            return {"id": v["id"], "status": "STALE", "detail": str(e)}
        except SyntaxError as e:
            return {"id": v["id"], "status": "STALE", "detail": f"variant does not compile: {e}"}
        if v["kind"] == "break":
            props = v.get("props") or sorted({r.split("-")[0] for r in v["rules"]})
            props = [p for p in props if p in implemented()]
            if not props:
                return {"id": v["id"], "status": "PENDING", "detail": "no rule set yet for " + ",".join(v["rules"])}
            res = analyse(root, props)
            fired = sorted({o["rule"] for p in props for o in res.get(p, [])})
            hit = [r for r in v["rules"] if r in fired]
            where = [f'{o["rule"]} @ {o["where"].replace(root, "")}' for p in props for o in res.get(p, [])]
            if "ERROR" in res and not hit:
                return {"id": v["id"], "status": "ERROR", "detail": json.dumps(res["ERROR"])[:600], "fired": fired, "where": where[:6]}
            need = v.get("need", "any")
            ok = bool(hit) if need == "any" else len(hit) == len(v["rules"])
            if ok and v.get("where"):
                ok = any(v["where"] in w for w in where)
            return {"id": v["id"], "status": "KILLED" if ok else "SURVIVED", "fired": fired, "where": where[:6],
                    "detail": v.get("what", ""), "wall": round(time.time() - t0, 2)}
        else:
            props = v.get("only_props") or implemented()
            res = analyse(root, props)
            noisy = [f'{o["rule"]} @ {o["where"].replace(root, "")}: {o["detail"][:120]}' for p in props for o in res.get(p, [])]
            if "ERROR" in res:
                noisy += ["ERROR " + json.dumps(e)[:300] for e in res["ERROR"]]
            return {"id": v["id"], "status": "SILENT" if not noisy else "NOISY", "where": noisy[:8],
                    "detail": v.get("what", ""), "wall": round(time.time() - t0, 2)}
    finally:
        shutil.rmtree(root, ignore_errors=True)


def corpus(repo: str) -> list[dict]:
    from . import selftest_variants as sv
    vs = list(sv.VARIANTS)
    known = json.loads((VERIF / "known_findings.json").read_text())
    for line in known.get("fixed", []):
        parts = line.split()
        prop = parts[1].split("=")[1]
        commit = parts[2]
        if commit in getattr(sv, "MANUAL_REVERTS", ()):
            continue  # reverting by patch is ambiguous after later commits; an explicit variant re-introduces the defect
        rules = [w.strip("();,") for w in line.replace(",", " ").split() if w.strip("();,").startswith("C") and "-" in w]
        vs.append({"id": f"R-{commit}", "kind": "break", "revert": commit, "rules": rules or [prop],
                   "what": "revert of fix commit: " + " ".join(parts[3:])[:100]})
    sd = VERIF / "seeded"
    if sd.is_dir():
        for d in sorted(sd.iterdir()):
            meta = d / "meta.json"
            if meta.exists() and (d / "patch.diff").exists():
                m = json.loads(meta.read_text())
                if m.get("expected_rules"):
                    vs.append({"id": f"S-{d.name}", "kind": "break", "patch": str(d / "patch.diff"),
                               "rules": m["expected_rules"], "props": m.get("props"), "need": "all",
                               "what": "seeded change: " + m.get("summary", "")[:100]})
    # behaviour-preserving refactorings written by independent sub-agents: every rule set must stay silent
    bd = VERIF / "benign"
    noisy = {}
    if (bd / "KNOWN_NOISY.json").exists():
        noisy = json.loads((bd / "KNOWN_NOISY.json").read_text())
    if bd.is_dir():
        for d in sorted(bd.iterdir()):
            if (d / "patch.diff").exists() and d.name not in noisy:
                vs.append({"id": f"N-{d.name}", "kind": "benign", "patch": str(d / "patch.diff"),
                           "what": "benign refactoring (sub-agent): " + ((d / "note.txt").read_text()[:80].replace("\n", " ")
                                                                        if (d / "note.txt").exists() else "")})
    # white-box round: changes written against the checker itself (sub-agents that could run it as a black box).
    # Evasions that a clause now catches are breaking variants; refactorings that made it complain and no longer do
    # are benign variants.
    for dirname, tag in (("redteam", "W"), ("redteam2", "X")):
        rd = VERIF / dirname
        if not rd.is_dir():
            continue
        for d in sorted(rd.iterdir()):
            meta = d / "meta.json"
            if not (meta.exists() and (d / "patch.diff").exists()):
                continue
            m = json.loads(meta.read_text())
            if m.get("kind") == "evade" and m.get("expected_rules"):
                vs.append({"id": f"{tag}-{d.name}", "kind": "break", "patch": str(d / "patch.diff"), "rules": m["expected_rules"],
                           "props": m.get("props"), "need": "all", "what": "white-box evasion: " + m.get("summary", "")[:100]})
            elif m.get("kind") == "noise" and m.get("status") == "silent":
                vs.append({"id": f"{tag}-{d.name}", "kind": "benign", "patch": str(d / "patch.diff"),
                           "what": "white-box refactoring: " + m.get("summary", "")[:100]})
    return vs


def run_corpus(repo: str, select, jobs: int = 16, only_props: list[str] | None = None) -> list[dict]:
    vs = [v for v in corpus(repo) if select(v)]
    if not vs:
        return []
    if only_props:
        vs = [dict(v, only_props=only_props) if v["kind"] == "benign" else v for v in vs]
    with mp.Pool(min(jobs, len(vs))) as pool:
        return pool.map(run_variant, [(v, repo) for v in vs], chunksize=1)


def run_for_property(prop: str, repo: str) -> dict:
    """Thorough tier: the property's breaking variants must be killed by its rules, and all benign
    variants must leave the property's rule set silent."""

    def select(v):
        if v["kind"] == "benign":
            return True
        return any(r.split("-")[0] == prop for r in v["rules"])

    results = run_corpus(repo, select, only_props=[prop])
    failures = []
    killed = silent = 0
    for r in results:
        if r["status"] == "KILLED":
            killed += 1
        elif r["status"] == "SILENT":
            silent += 1
        elif r["status"] == "NOISY":
            mine = [w for w in r["where"] if w.startswith(prop) or w.startswith("ERROR")]
            if mine:
                failures.append(f"benign variant {r['id']} is reported: {mine[:2]}")
            else:
                silent += 1
        else:
            failures.append(f"variant {r['id']}: {r['status']} {r.get('detail', '')[:160]} fired={r.get('fired')}")
    return {
        "selftest": {"breaking_variants_killed": killed, "benign_variants_silent": silent,
                     "variants_run": len(results),
                     "variants": [{k: r.get(k) for k in ("id", "status", "fired", "detail")} for r in results]},
        "selftest_failures": failures,
    }


def fixtures() -> int:
    """Setup-time sanity: the engine's primitives behave on tiny positive examples."""
    from . import logic
    src = '''
def f(sd, node_id, xs):
    node = sd.node_data(node_id)
    if node["expanded"]:
        return
    node["attractor_seeds"] = None
    for x in xs:
        sd._ensure_node(node_id, x)
    node["expanded"] = True
'''
    d = tempfile.mkdtemp(prefix="balmlint_fixture_")
    try:
        os.makedirs(os.path.join(d, "pkg"))
        open(os.path.join(d, "pyproject.toml"), "w").write("[tool.setuptools]\npackages=['pkg']\n")
        open(os.path.join(d, "pkg", "__init__.py"), "w").write(src)
        prog = Program(d)
        fm = prog.fm("pkg", "f")
        st = [e for e in fm.field_events() if e.kind == "store"]
        gr = fm.growth_events()
        assert len(st) == 2 and len(gr) == 1, (st, gr)
        assert st[0].hk == st[1].hk == gr[0].hk
        # must-pass: every path from the growth event to the exit stores `expanded`
        from .rules.common import escapes
        assert escapes(fm, gr[0].cfgn, [st[1].cfgn], None) is None
        assert escapes(fm, gr[0].cfgn, [], None) is not None
        A, B_ = logic.B("a"), logic.B("b")
        assert logic.equivalent(logic.Not(logic.And(A, B_)), logic.Or(logic.Not(A), logic.Not(B_)))
        assert logic.implies(logic.And(logic.Lt("len(x)", "L"), logic.Le("len(y)", "len(x)")), logic.Lt("len(y)", "L"))
        assert not logic.implies(logic.Le("len(x)", "L"), logic.Lt("len(x)", "L"))
    finally:
        shutil.rmtree(d, ignore_errors=True)
    print("balmlint fixtures ok")
    return 0


def main(props: list[str], jobs: int, repo: str, verbose: bool) -> int:
    t0 = time.time()
    props = [p.upper() for p in props]

    def select(v):
        if not props:
            return True
        if v["kind"] == "benign":
            return True
        return any(r.split("-")[0] in props for r in v["rules"]) or v["id"] in props

    results = run_corpus(repo, select, jobs)
    bad = 0
    for r in results:
        good = r["status"] in ("KILLED", "SILENT", "PENDING")
        if not good:
            bad += 1
        if verbose or not good:
            print(f"{r['id']:<14} {r['status']:<9} {r.get('detail', '')[:90]}")
            if not good or verbose:
                for w in r.get("where", [])[:6]:
                    print(f"       {w}")
                if r.get("fired") is not None and not good:
                    print(f"       fired={r['fired']}")
    k = sum(1 for r in results if r["status"] == "KILLED")
    s = sum(1 for r in results if r["status"] == "SILENT")
    print(f"selftest: {len(results)} variants, {k} killed, {s} silent, {bad} problem(s), {time.time() - t0:.1f}s")
    return 0 if bad == 0 else 2
