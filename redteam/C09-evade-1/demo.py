"""
C09: trappist(problem="max") must return exactly the maximal non-trivial trap spaces
(among those fixing the source variables) of the net it is given.

Call history: the source variables of a Petri net are queried once (default
optimize_source_variables=None), then the net is restricted to a trap space
(restrict_petrinet_to_subspace deep-copies the net together with its attributes)
and the restricted net is queried again with the default source list.
"""
import sys
from itertools import product

from biodivine_aeon import BooleanNetwork

from biobalm.petri_net_translation import (
    extract_source_variables,
    network_to_petrinet,
    restrict_petrinet_to_subspace,
)
from biobalm.trappist_core import trappist

RULES = {
    # a, b are sources (identity), c becomes a source once a=0 is fixed, d oscillates with e
    "a": lambda s: s["a"],
    "b": lambda s: s["b"],
    "c": lambda s: s["c"] or s["a"],
    "d": lambda s: (not s["e"]) and s["b"],
    "e": lambda s: s["d"] or s["c"],
}

bn = BooleanNetwork.from_aeon(
    """
    a -> a
    b -> b
    a -> c
    c -> c
    e -| d
    b -> d
    d -> e
    c -> e
    $a: a
    $b: b
    $c: c | a
    $d: !e & b
    $e: d | c
    """
)


def is_trap(space, variables, fixed):
    """space: dict over `variables`; `fixed`: values of the variables removed from the net."""
    free = [v for v in variables if v not in space]
    for vals in product([0, 1], repeat=len(free)):
        state = dict(fixed)
        state.update(space)
        state.update(dict(zip(free, vals)))
        for v in space:
            if int(bool(RULES[v](state))) != space[v]:
                return False
    return True


def reference_max(variables, fixed, sources):
    """Maximal non-trivial trap spaces among those that fix all `sources`."""
    cands = []
    for vals in product([None, 0, 1], repeat=len(variables)):
        space = {v: x for v, x in zip(variables, vals) if x is not None}
        if len(space) == 0:
            continue
        if any(s not in space for s in sources):
            continue
        if is_trap(space, variables, fixed):
            cands.append(space)
    result = []
    for s in cands:
        # s is maximal if no other candidate is a strict superset (= fewer fixed variables)
        if not any(t != s and t.items() <= s.items() for t in cands):
            result.append(s)
    return result


def canon(spaces):
    return sorted(sorted(s.items()) for s in spaces)


pn = network_to_petrinet(bn)

# First query on the full net (default source list: a, b).
full = trappist(pn, problem="max")
expected_full = reference_max(["a", "b", "c", "d", "e"], {}, ["a", "b"])
if canon(full) != canon(expected_full):
    print("full net: unexpected", full, expected_full)
    sys.exit(2)

# Restrict to the trap space a=0 and ask again.
restricted = restrict_petrinet_to_subspace(pn, {"a": 0})
sources = extract_source_variables(restricted)  # b and c: c'= c | a is the identity once a=0
got = trappist(restricted, problem="max")
expected = reference_max(["b", "c", "d", "e"], {"a": 0}, sources)

print("sources of the restricted net:", sources)
print("expected:", canon(expected))
print("got     :", canon(got))
if canon(got) != canon(expected):
    print("FAIL: trappist did not return exactly the requested trap spaces")
    sys.exit(1)
print("OK")
