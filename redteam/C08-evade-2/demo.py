"""C08: candidates must cover every attractor of the node (here: nodes that are not expanded yet).
Exits 0 if they do, 1 otherwise."""
import itertools
import sys

from biodivine_aeon import Attractors
from biobalm import SuccessionDiagram

NETWORKS = {
    # an input and an oscillator: two complex attractors in the (unexpanded) root
    "input_osc": "a, a\nb, !c\nc, b",
    # fixed point 111 and a motif-avoidant attractor
    "maa": "A, !A & !B | C\nB, !A & !B | C\nC, A & B",
}


def uncovered(sd, node, cands):
    space = sd.symbolic.mk_subspace(sd.node_data(node)["space"])
    succ = []
    if sd.node_data(node)["expanded"]:
        succ = [
            sd.symbolic.mk_subspace(sd.node_data(s)["space"])
            for s in sd.node_successors(node)
        ]
    missing = []
    for att in Attractors.attractors(sd.symbolic, space):
        if any(not att.intersect(s).is_empty() for s in succ):
            continue
        if not any(
            len(c) == sd.network.variable_count()
            and not att.intersect(sd.symbolic.mk_subspace(c)).is_empty()
            for c in cands
        ):
            missing.append(att)
    return missing


bad = 0
for name, rules in NETWORKS.items():
    for greedy, simulation in itertools.product((True, False), repeat=2):
        # The root is not expanded: all attractors of the network belong to it.
        sd = SuccessionDiagram.from_rules(rules)
        node = sd.root()
        cands = sd.node_attractor_candidates(
            node,
            compute=True,
            greedy_asp_minification=greedy,
            simulation_minification=simulation,
        )
        miss = uncovered(sd, node, cands)
        if miss:
            bad += 1
            print(
                f"{name}: root (unexpanded) greedy={greedy} simulation={simulation}: "
                f"candidates={cands} but attractor(s) {miss} contain no candidate"
            )
        # ... and the seeds derived from them lose the attractor for good
        seeds = sd.node_attractor_seeds(node, compute=True)
        n_att = len(Attractors.attractors(sd.symbolic))
        if len(seeds) != n_att:
            bad += 1
            print(f"{name}: {len(seeds)} seeds for {n_att} attractors")
print("violations:", bad)
sys.exit(1 if bad else 0)
