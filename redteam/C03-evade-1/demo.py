"""
C03: after a complete expand_minimal_spaces() (returns True) the diagram's minimal trap
spaces must be exactly the minimal trap spaces of the network, whatever plain expansion
calls were made before.

History: the root is expanded by a plain call (node_successors(root, compute=True)); its two
children are the two minimal trap spaces of the network, present in the diagram as stubs.
"""
import sys
from biobalm import SuccessionDiagram

EXPECTED = [{"A": 0, "B": 0}, {"A": 1, "B": 1}]


def key(space):
    return sorted(space.items())


def run(skip_ignored):
    sd = SuccessionDiagram.from_rules("A, B\nB, A\n")
    # plain expansion call made before
    sd.node_successors(sd.root(), compute=True)
    done = sd.expand_minimal_spaces(skip_ignored=skip_ignored)
    found = [sd.node_data(i)["space"] for i in sd.minimal_trap_spaces()]
    ok = done and sorted(map(key, found)) == sorted(map(key, EXPECTED))
    print(f"skip_ignored={skip_ignored}: returned {done}, minimal trap spaces {found}")
    return ok


if __name__ == "__main__":
    results = [run(False)]
    if not all(results):
        print("FAIL: complete minimal-space expansion misses minimal trap spaces")
        sys.exit(1)
    print("OK")
