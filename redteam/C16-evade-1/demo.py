"""C16: a pickled-and-restored diagram answers every later call like the untouched one.

The diagram uses a non-default setting (nfvs_size_threshold=0: plain FVS instead of the negative FVS, and a
small max_motifs_per_node).  Both the untouched and the restored diagram are then expanded / queried.
"""
import pickle, sys
from biobalm import SuccessionDiagram

RULES = """
A, !B
B, !A
C, A & !C | B & C
D, C | D
E, !E & A | E & B
"""


def dump(sd):
    out = []
    for i in sd.node_ids():
        d = sd.node_data(i)
        out.append((i, sorted(d["space"].items()), d["depth"], d["expanded"],
                    sorted(sd.node_successors(i)) if d["expanded"] else None,
                    d["percolated_nfvs"]))
    return out


def later_calls(sd):
    res = []
    try:
        sd.expand_bfs()
        res.append("expanded")
    except RuntimeError as e:
        res.append("RuntimeError: " + str(e)[:60])
    for i in list(sd.node_ids()):
        res.append((i, sd.node_percolated_nfvs(i, compute=True)))
    res.append(dump(sd))
    return res


cfg = SuccessionDiagram.default_config()
cfg["nfvs_size_threshold"] = 0
cfg["max_motifs_per_node"] = 3

sd = SuccessionDiagram.from_rules(RULES, config=cfg)
restored = pickle.loads(pickle.dumps(sd))

if restored.config != sd.config:
    print("FAIL: configuration changed by the round trip:",
          {k: (sd.config[k], restored.config[k]) for k in sd.config if sd.config[k] != restored.config[k]})
a = later_calls(sd)
b = later_calls(restored)
if a != b:
    print("FAIL: later calls differ")
    print(" untouched:", a[:3])
    print(" restored :", b[:3])
    sys.exit(1)
print("OK")
