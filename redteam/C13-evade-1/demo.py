"""
C13 demo: `skip_to_minimal` on an unexpanded node that is itself a minimal trap
space (with a non-empty space) must return after a bounded amount of work.

Work is measured as the number of calls of `_update_node_depth` (one per executed
recursion edge).  On the clean tree the call does not touch the depth at all.
"""
import sys
import biobalm
from biobalm import SuccessionDiagram

sd = SuccessionDiagram.from_rules(
    """
    A, A & B
    B, A & B
    C, !C & A
    """
)
# expand only the root: children are the stubs {A=0,B=0,C=0} (a fixed point is NOT
# what we want) ...
sd.node_successors(sd.root(), compute=True)
stubs = list(sd.stub_ids())
assert stubs, "expected unexpanded children"

calls = {"n": 0}
orig = SuccessionDiagram._update_node_depth


def counting(self, node_id, parent_id):
    calls["n"] += 1
    if calls["n"] > 10 * (len(self) + 1) ** 2:
        print(f"FAIL: _update_node_depth called {calls['n']} times for a diagram of {len(self)} nodes: recursion makes no progress")
        sys.exit(1)
    return orig(self, node_id, parent_id)


SuccessionDiagram._update_node_depth = counting

try:
    for n in stubs:
        calls["n"] = 0
        r = sd.skip_to_minimal(n)
        print(n, sd.node_data(n)["space"], "->", r, "depth-updates:", calls["n"])
except RecursionError:
    print("FAIL: unbounded recursion (RecursionError)")
    sys.exit(1)

for n in sd.node_ids():
    assert not sd.dag.has_edge(n, n), f"self-loop on node {n}"
print("OK")
