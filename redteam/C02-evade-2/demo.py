"""
C02: after a full BFS/DFS expansion (expand_bfs() / expand_dfs() report completion) every node carries exactly its
successors and the nodes without successors are exactly the minimal trap spaces.

Network with a node that has more stable motifs than `max_motifs_per_node` allows.
Clean tree: the traversal stops with the documented RuntimeError (no claim of completeness).
Changed tree: expand_bfs() and expand_dfs() return True, but the offending node was silently left as an unexpanded
stub without successors: the "complete" diagram misses the whole part below it, and its minimal trap spaces are not
the minimal trap spaces of the network.
"""
import sys
from biobalm import SuccessionDiagram

# x is an input; for x=1 the pair (a, b) is bistable and c, d, e each have a positive self-loop -> the node {x=1}
# has 8 stable motifs; for x=0 everything is switched off.
RULES = """
x, x
a, x & a & !b
b, x & b & !a
c, x & c
d, x & d
e, x & e
"""

def minimal_traps_brute_force():
    # minimal trap spaces of the network, by hand / brute force: x=0 -> all zero; x=1 -> a,b in {00,10,01}, c,d,e free choices are
    # fixed points as well (every variable keeps its value or drops to 0).
    import itertools
    names = ["x", "a", "b", "c", "d", "e"]
    def step(s):
        x, a, b, c, d, e = (s[n] for n in names)
        return dict(x=x, a=x & a & (1 - b), b=x & b & (1 - a), c=x & c, d=x & d, e=x & e)
    fixed = []
    for vals in itertools.product([0, 1], repeat=6):
        s = dict(zip(names, vals))
        if step(s) == s:
            fixed.append(s)
    return fixed  # every attractor of this network is a fixed point, and fixed points are minimal trap spaces

expected = minimal_traps_brute_force()
rc = 0
for method in ["expand_bfs", "expand_dfs"]:
    config = SuccessionDiagram.default_config()
    config["max_motifs_per_node"] = 5
    sd = SuccessionDiagram.from_rules(RULES, config=config)
    try:
        complete = getattr(sd, method)()
    except RuntimeError as e:
        print(method, "-> limit error, no claim of completeness:", str(e)[:60])
        continue
    print(method, "returned", complete, "| nodes:", len(sd), "| stubs:", list(sd.stub_ids()))
    if complete:
        found = [sd.node_data(i)["space"] for i in sd.minimal_trap_spaces()]
        missing = [s for s in expected if s not in found]
        if list(sd.stub_ids()) or missing:
            print("  reported complete, but", len(list(sd.stub_ids())), "node(s) are unexpanded and",
                  len(missing), "of", len(expected), "minimal trap spaces are missing")
            rc = 1
if rc:
    print("C02 VIOLATED")
sys.exit(rc)
