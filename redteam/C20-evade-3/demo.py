"""C20: after build() the summary lists every attractor exactly once.

Ground truth: attractors computed symbolically by biodivine_aeon on the full network.
If build() fails loudly (RuntimeError) nothing is claimed -> exit 0.
If build() returns, the number of attractors listed in summary() must match -> else exit 1.
"""
import sys
import biobalm
from biodivine_aeon import AsynchronousGraph, Attractors, BooleanNetwork

RULES = """
S, S
A, S | !A
B, S | (A & !B) | (!A & B)
"""

# a small candidate budget, the same situation as a large model hitting the default one
cfg = biobalm.SuccessionDiagram.default_config()
cfg["attractor_candidates_limit"] = 1
cfg["retained_set_optimization_threshold"] = 1

bn = BooleanNetwork.from_bnet(RULES)
true_attractors = Attractors.attractors(AsynchronousGraph(bn.infer_valid_graph()))
print("true number of attractors:", len(true_attractors))

sd = biobalm.SuccessionDiagram.from_rules(RULES, config=cfg)
try:
    sd.build()
except RuntimeError as e:
    print("build() failed loudly, no summary is promised:", e)
    sys.exit(0)

text = sd.summary()
print(text)
listed = [l for l in text.splitlines() if l.startswith(".")]
print("attractors listed in summary after build():", len(listed))
sys.exit(0 if len(listed) == len(true_attractors) else 1)
