"""C17: decisions are taken on BDDs, not on the way a formula is written -- the source nodes of a
network must be the same for logically equivalent presentations of its update functions."""
import sys
from biodivine_aeon import AsynchronousGraph, BooleanNetwork
from biobalm.interaction_graph_utils import source_nodes

plain = """
a, a
b, b
c, !c | a
d, a & b
"""
# the same functions, written redundantly (as produced e.g. by DNF exporters / model merging tools)
redundant = """
a, a | (d & !d)
b, (b & c) | (b & !c)
c, !c | a
d, a & b
"""

bn1 = BooleanNetwork.from_bnet(plain)
bn2 = BooleanNetwork.from_bnet(redundant)

# the two texts really describe the same dynamics
g1, g2 = AsynchronousGraph(bn1.infer_valid_graph()), AsynchronousGraph(bn2.infer_valid_graph())
for v in ["a", "b", "c", "d"]:
    f1, f2 = g1.mk_update_function(v), g2.mk_update_function(v)
    assert str(f1.to_expression()) == str(f2.to_expression()), v

s1, s2 = source_nodes(bn1), source_nodes(bn2)
print("plain    :", s1)
print("redundant:", s2)
bad = 0
if s1 != ["a", "b"]:
    print("wrong source nodes for the plain text")
    bad += 1
if s2 != s1:
    print("source nodes depend on how the update functions are written")
    bad += 1
sys.exit(1 if bad else 0)
