"""
C03: when the source-SCC expansion reports completion, the minimal trap spaces of the diagram are exactly the
minimal trap spaces of the network: none missing, none spurious.

Network: one input I and two source SCCs {X, Y} and {Z, W} (after fixing I).
  I = 0:  X := Y,  Y := X   -> {X,Y} has the trap spaces X=Y=0 and X=Y=1
  I = 1:  X := !Y, Y := X   -> {X,Y} is a negative cycle, it oscillates forever (no trap space)
  Z := W, W := Z            -> Z=W=0 or Z=W=1, whatever I is
Minimal trap spaces: 4 for I=0 (X=Y, Z=W fixed), 2 for I=1 (only Z=W fixed).
"""
import sys
from biobalm import SuccessionDiagram
from biobalm.trappist_core import trappist

RULES = """
I, I
X, (!I & Y) | (I & !Y)
Y, X
Z, W
W, Z
"""

EXPECTED = [
    {"I": 0, "X": 0, "Y": 0, "Z": 0, "W": 0},
    {"I": 0, "X": 0, "Y": 0, "Z": 1, "W": 1},
    {"I": 0, "X": 1, "Y": 1, "Z": 0, "W": 0},
    {"I": 0, "X": 1, "Y": 1, "Z": 1, "W": 1},
    {"I": 1, "Z": 0, "W": 0},
    {"I": 1, "Z": 1, "W": 1},
]


def key(space):
    return tuple(sorted(space.items()))


def run(maa):
    sd = SuccessionDiagram.from_rules(RULES)
    done = sd.expand_scc(find_motif_avoidant_attractors=maa)
    found = sorted(key(sd.node_data(i)["space"]) for i in sd.minimal_trap_spaces())
    expected = sorted(key(s) for s in EXPECTED)
    print(f"expand_scc(maa={maa}) -> {done}; {len(found)} minimal trap spaces (expected {len(expected)})")
    for f in found:
        if f not in expected:
            print("   spurious:", dict(f))
    for e in expected:
        if e not in found:
            print("   missing: ", dict(e))
    return done and found == expected


if __name__ == "__main__":
    # sanity check of the expectation against the solver and against BFS
    sd = SuccessionDiagram.from_rules(RULES)
    truth = sorted(key(s) for s in trappist(sd.network, problem="min"))
    assert truth == sorted(key(s) for s in EXPECTED), truth
    assert sd.expand_bfs()
    assert sorted(key(sd.node_data(i)["space"]) for i in sd.minimal_trap_spaces()) == truth

    ok = [run(False), run(True)]
    if not all(ok):
        print("FAIL: source-SCC expansion reports completion with wrong minimal trap spaces")
        sys.exit(1)
    print("OK")
