"""C06 demo: succession control on a diagram that was partially expanded before.

Every intervention reported as successful must end in a trap space all of whose
minimal trap spaces lie inside the target.  The minimal trap spaces are computed
independently from a fresh, fully built diagram.
"""
import sys

from biodivine_aeon import AsynchronousGraph, BooleanNetwork, Percolation

import biobalm
from biobalm.control import succession_control

RULES = """
S, S
A, S | B
B, A
C, A | D
D, C
E, false
"""
TARGET = {"C": 1, "D": 1}


def percolate(graph, space):
    res = Percolation.percolate_subspace(graph, space)
    return {graph.get_network_variable_name(k): int(v) for k, v in res.items()}


def is_sub(x, y):
    return all(k in x and x[k] == v for k, v in y.items())


def main() -> int:
    bn = BooleanNetwork.from_bnet(RULES)
    graph = AsynchronousGraph(bn)

    # reference: all minimal trap spaces of the network
    full = biobalm.SuccessionDiagram.from_rules(RULES)
    full.build()
    minimal = [full.node_data(i)["space"] for i in full.minimal_trap_spaces()]

    # history: the user looked at the first level of the diagram before asking for control
    sd = biobalm.SuccessionDiagram.from_rules(RULES)
    sd.node_successors(sd.root(), compute=True)

    bad = 0
    for strategy in ("internal", "all"):
        for iv in succession_control(sd, TARGET, strategy=strategy):
            assert iv.successful
            final = percolate(graph, {})
            for motif in iv.succession:
                final = percolate(graph, final | motif)
            inside = [m for m in minimal if is_sub(m, final)]
            escaped = [m for m in inside if not is_sub(m, TARGET)]
            if escaped:
                bad += 1
                print(f"[{strategy}] succession {iv.succession} with overrides {iv.control} is reported "
                      f"successful, but its final trap space {final} contains the minimal trap space(s) "
                      f"{escaped} outside the target {TARGET}")
    if bad:
        print(f"FAIL: {bad} unsound intervention(s)")
        return 1
    print("OK: every successful intervention ends inside the target")
    return 0


if __name__ == "__main__":
    sys.exit(main())
