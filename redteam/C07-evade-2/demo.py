"""C07 demo (completeness of the listed successions: "no path to the target is missing").

Independent expectation: walk every path of the target-directed expansion from the root; the first node on the path
that is 'safe' (no descendant, itself included, is inconsistent with the target or a minimal trap space outside of it)
is the outermost trap space on that path all of whose minimal trap spaces lie in the target.  The motif chain of every
such path prefix (times all motifs per edge) has to be among the reported successions.
"""
import sys
from itertools import product

import biobalm
from biobalm.control import succession_control, successions_to_target

RULES = """
S, S
A, S | B
B, A
C, A | D
D, C
E, false
"""
TARGET = {"S": 0, "E": 0, "A": 0, "B": 0}  # a trap space of the network


def consistent(x, y):
    return all(x[k] == v for k, v in y.items() if k in x)


def inside(x, y):
    return all(k in x and x[k] == v for k, v in y.items())


def required_successions(sd, target):
    dag = sd.dag
    memo = {}

    def space(n):
        return sd.node_data(n)["space"]

    def safe(n):
        if n not in memo:
            hot = (not consistent(space(n), target)) or (sd.node_is_minimal(n) and not inside(space(n), target))
            memo[n] = (not hot) and all(safe(c) for c in dag.successors(n))
        return memo[n]

    out = []

    def walk(n, options):
        if safe(n):
            out.extend([list(t) for t in product(*options)])
            return
        for c in dag.successors(n):
            motifs = [{k: v for k, v in m.items() if k not in space(n)} for m in dag.edges[n, c]["all_motifs"]]
            walk(c, options + [motifs])

    walk(sd.root(), [])
    return out


def key(succession):
    return tuple(tuple(sorted(m.items())) for m in succession)


def main() -> int:
    sd = biobalm.SuccessionDiagram.from_rules(RULES)
    got = successions_to_target(sd, TARGET)
    req = required_successions(sd, TARGET)
    print("reported :", got)
    print("required :", req)
    got_k = [key(g) for g in got]
    bad = 0
    missing = [r for r in req if key(r) not in got_k]
    if missing:
        bad += 1
        print("MISSING successions:", missing)
    if len(got_k) != len(set(got_k)):
        bad += 1
        print("a succession is listed twice")

    # the lost path is a genuine alternative route: first lock C=D=1, then A=B=0
    sd = biobalm.SuccessionDiagram.from_rules(RULES)
    ivs = succession_control(sd, TARGET, successful_only=False)
    if not any(iv.succession == [{"S": 0}, {"C": 1, "D": 1}, {"A": 0, "B": 0}] for iv in ivs):
        bad += 1
        print("succession_control does not report the route S=0 -> C=D=1 -> A=B=0")
    if bad:
        print("FAIL")
        return 1
    print("OK")
    return 0


if __name__ == "__main__":
    sys.exit(main())
