"""C20: find_node must return the node whose space EQUALS the query exactly, or None.

Exits 0 if this holds for every query tried, 1 otherwise.
"""
import sys
import biobalm

sd = biobalm.SuccessionDiagram.from_rules(
    """
    A, B
    B, A & C
    C, !A | B
    """
)
sd.build()

bad = []
queries = [
    {"A": 1},              # stable motif of node {A:1,B:1,C:1}, but not a node space
    {"A": 0},              # percolates to {A:0,B:0,C:1}
    {"B": 1, "A": 1},
    {"A": 1, "B": 1, "C": 1},  # a real node space
    {},                    # the root
    {"C": 0},              # not related to any node
]
for q in queries:
    found = sd.find_node(q)
    if found is not None and sd.node_data(found)["space"] != q:
        bad.append((q, found, sd.node_data(found)["space"]))
    # exhaustive expectation: a node is returned iff some node has exactly this space
    expected = [i for i in sd.node_ids() if sd.node_data(i)["space"] == q]
    if (found is None) != (len(expected) == 0):
        bad.append((q, found, expected))

for b in bad:
    print("VIOLATION:", b)
sys.exit(1 if bad else 0)
