"""C11: single-node LDOIs must agree with the strict percolation of the single value
on the *given* network (constants of the network are not propagated by the strict variant)."""
import sys
from biodivine_aeon import AsynchronousGraph, BooleanNetwork
from biobalm.drivers import find_single_node_LDOIs
from biobalm.space_utils import percolate_space_strict

bn = BooleanNetwork.from_bnet(
    """
    E, true
    Y, Y
    X, E & Y
    Z, !E | X
    """
)
graph = AsynchronousGraph(bn)
ldois = find_single_node_LDOIs(bn)
bad = 0
for var in ["X", "Y", "Z"]:
    for val in (0, 1):
        expected = percolate_space_strict(graph, {var: val})
        got = ldois.get((var, val))
        if got != expected:
            print(f"LDOI({var}={val}) = {got}, strict percolation gives {expected}")
            bad += 1
# the graph-based call must agree with the network-based call
if find_single_node_LDOIs(graph) != ldois:
    print("find_single_node_LDOIs(bn) != find_single_node_LDOIs(AsynchronousGraph(bn))")
    bad += 1
sys.exit(1 if bad else 0)
