"""
C01 demo: after a complete expansion (build / block / bfs / dfs / scc / attractor-seed expansion) the reported
seeds must correspond one-to-one to the attractors of the asynchronous dynamics (computed here by AEON).
Exit code 0 = property holds on all inputs below, 1 = broken.
"""
import sys
from biodivine_aeon import Attractors
from biobalm import SuccessionDiagram


NETWORKS = {
    # 4 variables, a single (non-trivial) attractor, no trap space besides the whole space.  The retained-set
    # enumeration leaves two candidates in the root that lie in the SAME attractor.
    "two-candidates-one-attractor": """targets,factors
v0, (!v1 & !v0 & !v3) | (!v1 & v0 & v3) | (v1 & v0)
v1, v3
v2, !v2
v3, !v1
""",
    # 6 variables, one input
    "with-input": """targets,factors
v0, v0
v1, (!v5 & !v1 & v0) | (!v5 & v1 & !v0) | (v5 & v1)
v2, v3
v3, !v2 & v4
v4, !v4
v5, !v2
""",
}

STRATEGIES = {
    "build": lambda sd: (sd.build(), True)[1],
    "block": lambda sd: sd.expand_block(),
    "bfs": lambda sd: sd.expand_bfs(),
    "dfs": lambda sd: sd.expand_dfs(),
    "scc": lambda sd: sd.expand_scc(),
    "attractor_seeds": lambda sd: sd.expand_attractor_seeds(),
}

failures = []
for name, rules in NETWORKS.items():
    for strategy, expand in STRATEGIES.items():
        sd = SuccessionDiagram.from_rules(rules)
        assert expand(sd), "expansion must report completion"
        attractors = [a.vertices() for a in Attractors.attractors(sd.symbolic)]
        hits = [0] * len(attractors)
        for node, seeds in sd.expanded_attractor_seeds().items():
            for seed in seeds:
                if len(seed) != sd.network.variable_count():
                    failures.append(f"{name}/{strategy}: node {node}: seed {seed} is not a full state")
                    continue
                state = sd.symbolic.mk_subspace(seed).vertices()
                inside = [i for i, a in enumerate(attractors) if not state.intersect(a).is_empty()]
                if not inside:
                    failures.append(f"{name}/{strategy}: node {node}: seed {seed} does not lie in any attractor")
                for i in inside:
                    hits[i] += 1
        for i, h in enumerate(hits):
            if h != 1:
                failures.append(f"{name}/{strategy}: attractor #{i} ({attractors[i]}) is represented by {h} seeds")

for f in failures:
    print("FAIL", f)
print("attractor seeds one-to-one with AEON attractors:", "NO" if failures else "yes")
sys.exit(1 if failures else 0)
