"""
C02: after full expansion the successors of the root are exactly the percolations of the maximal trap spaces
*fixing every source variable* (one child per input valuation).

A network with 4 source variables, expanded with `max_motifs_per_node = 16`.
Clean tree: the 16 input valuations hit the motif limit -> documented RuntimeError, nothing is built (property vacuous).
Changed tree: the expansion "succeeds", but the root is expanded input by input: its successors do not fix all
source variables, there are 8 instead of 16 of them and the diagram has 3^4 = 81 instead of 17 nodes.
The same happens with the default limit (100000) from 17 source variables on.
"""
import sys
from biobalm import SuccessionDiagram

RULES = """
s1, s1
s2, s2
s3, s3
s4, s4
x, (s1 & s2) | (s3 & !s4)
"""
SOURCES = ["s1", "s2", "s3", "s4"]

config = SuccessionDiagram.default_config()
config["max_motifs_per_node"] = 16
sd = SuccessionDiagram.from_rules(RULES, config=config)

try:
    complete = sd.expand_bfs()
except RuntimeError as e:
    print("limit error, no diagram was built:", e)
    sys.exit(0)

assert complete
bad = 0
root = sd.root()
succ = sd.node_successors(root)
print("root has", len(succ), "successors; diagram has", len(sd), "nodes")
for c in succ:
    space = sd.node_data(c)["space"]
    for m in sd.edge_all_stable_motifs(root, c):
        if not all(s in m for s in SOURCES):
            print("stable motif of the root does not fix every source variable:", m)
            bad += 1
    if not all(s in space for s in SOURCES):
        bad += 1
if len(succ) != 2 ** len(SOURCES):
    print("expected", 2 ** len(SOURCES), "root successors (one per input valuation)")
    bad += 1
if bad:
    print("C02 VIOLATED")
    sys.exit(1)
print("ok")
