"""C19: identical results for every PYTHONHASHSEED (attractor seeds of a motif-avoidant attractor)."""
import os, subprocess, sys

CHILD = r'''
from biobalm import SuccessionDiagram
sd = SuccessionDiagram.from_rules("""
A, !A & !B | C
B, !A & !B | C
C, A & B
""")
sd.expand_bfs()
out = []
for i in sd.expanded_ids():
    cands = sd.node_attractor_candidates(i, compute=True)
    seeds = sd.node_attractor_seeds(i, compute=True)
    out.append((i, sorted(sorted(x.items()) for x in cands), sorted(sorted(x.items()) for x in seeds)))
print(out)
'''

results = {}
for hs in range(12):
    env = dict(os.environ, PYTHONHASHSEED=str(hs))
    r = subprocess.run([sys.executable, "-c", CHILD], env=env, capture_output=True, text=True)
    if r.returncode != 0:
        print(r.stderr)
        sys.exit(2)
    results.setdefault(r.stdout.strip().splitlines()[-1], []).append(hs)

if len(results) != 1:
    print("FAIL: results depend on PYTHONHASHSEED")
    for k, v in results.items():
        print("  hash seeds", v, "->", k)
    sys.exit(1)
print("OK", list(results)[0])
