"""C12: node_attractor_sets must return, in seed order, exactly the attractors containing the seeds.
Exits 0 if so, 1 otherwise."""
import sys

from biodivine_aeon import Attractors
from biobalm import SuccessionDiagram

NETWORKS = {
    "n5": """v0, v0
v1, (v2 & !v1) | v1
v2, v0 & v4
v3, v4 | !v0
v4, !v3""",
    "n7": """v0, v0
v1, v0
v2, v1 | (!v6 & !v1)
v3, !v5 | (!v1 & !v3)
v4, !v2 & !v4
v5, (v3 & v2) | (!v3 & !v2)
v6, (!v5 & !v6 & v3) | (!v6 & !v3)""",
}

bad = 0
for name, rules in NETWORKS.items():
    # The root is not expanded (the input v0 is free), sets are requested directly.
    sd = SuccessionDiagram.from_rules(rules)
    node = sd.root()
    sets = sd.node_attractor_sets(node, compute=True)
    seeds = sd.node_attractor_seeds(node, compute=True)
    truth = [a.vertices() for a in Attractors.attractors(sd.symbolic)]
    if len(sets) != len(seeds) or len(sets) != len(truth):
        bad += 1
        print(f"{name}: {len(seeds)} seeds, {len(sets)} sets, {len(truth)} attractors")
        continue
    for seed, s in zip(seeds, sets):
        seed_set = sd.symbolic.mk_subspace(seed).vertices()
        expected = [t for t in truth if not t.intersect(seed_set).is_empty()]
        assert len(expected) == 1
        if s != expected[0]:
            bad += 1
            print(
                f"{name}: the set returned for seed {seed} has {s.cardinality()} states, "
                f"the attractor of the seed has {expected[0].cardinality()}"
            )
print("violations:", bad)
sys.exit(1 if bad else 0)
