"""C11: the single-node LDOIs / single drivers of a network must be the strict percolation of
each single value on the network *as it is when asked* -- also after the (mutable) BooleanNetwork
object was edited, and independently of what a caller did with an earlier result."""
import sys
from biodivine_aeon import AsynchronousGraph, BooleanNetwork, UpdateFunction
from biobalm.drivers import find_single_drivers, find_single_node_LDOIs
from biobalm.space_utils import percolate_space_strict

bn = BooleanNetwork.from_bnet(
    """
    S, S
    A, S | B
    B, A
    C, A & B
    """
)
bad = 0


def reference(net):
    g = AsynchronousGraph(net)
    out = {}
    for v in g.network_variable_names():
        f = g.mk_update_function(v)
        if f.is_true() or f.is_false():
            continue
        for b in (0, 1):
            out[(v, b)] = percolate_space_strict(g, {v: b})
    return out


first = find_single_node_LDOIs(bn)
if first != reference(bn):
    print("first call wrong")
    bad += 1

# the user edits the model (B becomes the negation of A) and asks again
bn.set_update_function("B", UpdateFunction(bn, "!A"))
second = find_single_node_LDOIs(bn)
ref = reference(bn)
if second != ref:
    for k in sorted(ref):
        if second.get(k) != ref[k]:
            print(f"after edit: LDOI{k} = {second.get(k)}, strict percolation gives {ref[k]}")
    bad += 1

# a caller post-processes a result (adds the fixed value itself); later queries must not see that
bn2 = BooleanNetwork.from_bnet("A, B\nB, A\nC, A | C\n")
mine = find_single_node_LDOIs(bn2)
for (var, val), ldoi in mine.items():
    ldoi[var] = val
again = find_single_node_LDOIs(bn2)
ref2 = reference(bn2)
if again != ref2:
    for k in sorted(ref2):
        if again.get(k) != ref2[k]:
            print(f"bn2, second query returns the caller-modified table: LDOI{k} = {again.get(k)}, expected {ref2[k]}")
    bad += 1

sys.exit(1 if bad else 0)
