"""C16: reclaim_node_data() (and pickling) never change any later answer.

Two diagrams of the same network are expanded in the same way; one of them has its node data reclaimed
(and is pickled/unpickled) before the attractor queries.  All answers must agree.
"""
import pickle, sys
from biobalm import SuccessionDiagram

RULES = """
v0, v4
v1, v4 & v5
v2, !v3 | !v1
v3, !v1 | v5
v4, (v4 & !v3) | v2
v5, v5
v6, (!v4 | !v5) | !v6
"""


def answers(sd):
    out = []
    for i in sd.node_ids():
        nfvs = sd.node_percolated_nfvs(i, compute=True)
        cands = sd.node_attractor_candidates(i, compute=True)
        seeds = sd.node_attractor_seeds(i, compute=True)
        out.append((i, sorted(sd.node_data(i)["space"].items()), nfvs,
                    sorted(sorted(x.items()) for x in cands), sorted(sorted(x.items()) for x in seeds)))
    return out


untouched = SuccessionDiagram.from_rules(RULES)
untouched.expand_bfs()

reclaimed = SuccessionDiagram.from_rules(RULES)
reclaimed.expand_bfs()
reclaimed.reclaim_node_data()
reclaimed = pickle.loads(pickle.dumps(reclaimed))

a = answers(untouched)
b = answers(reclaimed)
bad = [(x, y) for x, y in zip(a, b) if x != y]
if bad:
    print("FAIL: answers differ after reclaim_node_data():")
    for x, y in bad:
        print("  untouched:", x)
        print("  reclaimed:", y)
    sys.exit(1)
print("OK")
