"""
C04: every node marked expanded has exactly the successors it has in the fully expanded diagram.

Network whose non-input variables are all determined by constants: after percolation only the two inputs s1, s2
are free in the root. The root has 4 successors (one fixed point per input valuation; {s1=0}, {s1=1}, ... are trap
spaces strictly inside the root). The changed tree marks the root "expanded" without asking the solver, so every
expansion strategy reports a finished one-node diagram whose only "minimal trap space" is the root.
"""
import itertools
import sys
from biobalm import SuccessionDiagram

RULES = """
s1, s1
s2, s2
c, true
e, false
d, c & !e
"""
NAMES = ["s1", "s2", "c", "e", "d"]

def update(s):
    return {"s1": s["s1"], "s2": s["s2"], "c": 1, "e": 0, "d": s["c"] & (1 - s["e"])}

def is_trap(space):
    free = [n for n in NAMES if n not in space]
    for vals in itertools.product([0, 1], repeat=len(free)):
        st = dict(space); st.update(zip(free, vals))
        nxt = update(st)
        if any(nxt[k] != v for k, v in space.items()):
            return False
    return True

def sub(x, y):
    return all(k in x and x[k] == v for k, v in y.items())

# reference by brute force: maximal trap spaces strictly inside the root that fix every source variable
root_space = {"c": 1, "e": 0, "d": 1}
spaces = []
for vals in itertools.product([None, 0, 1], repeat=len(NAMES)):
    sp = {n: v for n, v in zip(NAMES, vals) if v is not None}
    if sub(sp, root_space) and sp != root_space and "s1" in sp and "s2" in sp and is_trap(sp):
        spaces.append(sp)
expected = [s for s in spaces if not any(sub(s, t) and s != t for t in spaces)]
assert len(expected) == 4

rc = 0
calls = [
    ("node_successors(root, compute=True)", lambda sd: sd.node_successors(sd.root(), compute=True)),
    ("expand_bfs()", lambda sd: sd.expand_bfs()),
    ("expand_dfs(size_limit=3)", lambda sd: sd.expand_dfs(size_limit=3)),
    ("expand_to_target", lambda sd: sd.expand_to_target({"s1": 1, "s2": 0, "c": 1, "e": 0, "d": 1})),
    ("expand_block(optimize_source_nodes=False)", lambda sd: sd.expand_block(optimize_source_nodes=False)),
]
for name, call in calls:
    sd = SuccessionDiagram.from_rules(RULES)
    assert sd.node_data(sd.root())["space"] == root_space
    result = call(sd)
    root = sd.node_data(sd.root())
    succ = [sd.node_data(c)["space"] for c in sd.dag.successors(sd.root())]
    ok = (not root["expanded"] and not succ) or (
        root["expanded"] and len(succ) == 4 and all(s in succ for s in expected)
    )
    print(f"{name}: returned {result}; root expanded={root['expanded']} with {len(succ)} successors"
          f" (fully expanded diagram: 4); minimal trap spaces reported: {sd.minimal_trap_spaces()}")
    if not ok:
        rc = 1
if rc:
    print("C04 VIOLATED: a node is marked expanded without its successors")
sys.exit(rc)
