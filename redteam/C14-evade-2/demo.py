"""
C14 demo: `expanded_attractor_seeds()` (an observation point of the property) must never hand out attractor
data that was collected before nodes were given successors / expanded.

History: expand the root only, look at the attractors found so far, expand the two children (both are minimal
trap spaces, so the diagram does not grow), look again.  Ground truth comes from AEON on the full network.
"""
import sys
from biobalm import SuccessionDiagram
from biodivine_aeon import Attractors

sd = SuccessionDiagram.from_rules(
    """
    A, A & B
    B, A & B
    C, !C & A
    """
)
sd.node_successors(sd.root(), compute=True)
first = sd.expanded_attractor_seeds()          # only the root is expanded: no attractor of its own
assert first == {}, first

for n in list(sd.stub_ids()):                  # children: {A=0,B=0,C=0} and {A=1,B=1}; both minimal
    sd.node_successors(n, compute=True)
assert len(list(sd.stub_ids())) == 0

second = sd.expanded_attractor_seeds()

# ground truth: every attractor of the network belongs to exactly one expanded node
# (the smallest node space that contains it and none of whose successors contains it)
g = sd.symbolic
truth = {}
for a in Attractors.attractors(g):
    for n in sd.expanded_ids():
        sp = g.mk_subspace(sd.node_data(n)["space"])
        if a.is_subset(sp) and not any(
            a.is_subset(g.mk_subspace(sd.node_data(s)["space"])) for s in sd.dag.successors(n)
        ):
            truth.setdefault(n, []).append(a)

ok = True
for n in sd.expanded_ids():
    seeds = second.get(n, [])
    attrs = truth.get(n, [])
    hits = [sum(1 for s in seeds if not a.intersect(g.mk_subspace(s)).is_empty()) for a in attrs]
    if len(seeds) != len(attrs) or any(h != 1 for h in hits):
        print(f"node {n} {sd.node_data(n)['space']}: {len(seeds)} seed(s) reported, {len(attrs)} attractor(s) expected")
        ok = False
print("OK" if ok else "FAIL: expanded_attractor_seeds() returned data collected before the nodes were expanded")
sys.exit(0 if ok else 1)
