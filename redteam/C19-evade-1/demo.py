"""C19: results for one diagram must not depend on what other diagrams were built earlier.

A user tunes the settings of ONE diagram (the documented way: take default_config(), change it,
pass it to the constructor).  A later diagram built with the default settings must be unaffected.
"""
import sys
from biobalm import SuccessionDiagram

RULES = """
A, A
B, B
C, A & B
D, C | D
"""


def dump(sd):
    out = []
    for i in sd.node_ids():
        d = sd.node_data(i)
        out.append((i, sorted(d["space"].items()), d["depth"], d["expanded"],
                    sorted(sd.node_successors(i)) if d["expanded"] else None,
                    sorted(map(lambda s: sorted(s.items()), d["attractor_seeds"] or []))))
    return out


def build_default():
    sd = SuccessionDiagram.from_rules(RULES)
    sd.expand_bfs()
    for i in list(sd.expanded_ids()):
        sd.node_attractor_seeds(i, compute=True)
    return dump(sd)


reference = build_default()

# Unrelated diagram with its own, deliberately tight, settings.
cfg = SuccessionDiagram.default_config()
cfg["max_motifs_per_node"] = 3
other = SuccessionDiagram.from_rules("X, Y\nY, X\n", config=cfg)
other.build()

try:
    again = build_default()
except RuntimeError as e:
    print("FAIL: a diagram with default settings is affected by an earlier diagram:", e)
    sys.exit(1)

if again != reference:
    print("FAIL: dumps differ")
    sys.exit(1)
print("OK")
