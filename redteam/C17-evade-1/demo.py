"""C17: name sanitisation must produce distinct, solver-safe (ASCII [A-Za-z0-9_]+) names
and network_to_petrinet must refuse names that are not."""
import re
import sys
from biodivine_aeon import BooleanNetwork
from biobalm.petri_net_translation import sanitize_network_names, network_to_petrinet
from biobalm.trappist_core import trappist

SAFE = re.compile(r"[A-Za-z0-9_]+\Z")

bn = BooleanNetwork.from_bnet("a, b\nb, a\nc, a | c\n")
# U+212A KELVIN SIGN looks like 'K' (easily arrives via copy & paste from a paper), U+017F is the long s
bn.set_variable_name("b", "Kras")
bn.set_variable_name("c", "pſ6")

bad = 0
clean = sanitize_network_names(bn)
names = clean.variable_names()
print("sanitised names:", [n.encode("unicode_escape").decode() for n in names])
if len(set(names)) != len(names) or not all(SAFE.match(n) for n in names):
    print("sanitize_network_names returned names that are not solver-safe")
    bad += 1

try:
    network_to_petrinet(bn)
    print("network_to_petrinet accepted an unsanitised network")
    bad += 1
except RuntimeError:
    pass

try:
    spaces = trappist(clean, problem="min")
    print("minimal trap spaces:", spaces)
except Exception as e:  # clingo cannot parse the non-ASCII symbol
    print("trappist failed on the 'sanitised' network:", type(e).__name__, str(e)[:100])
    bad += 1

sys.exit(1 if bad else 0)
