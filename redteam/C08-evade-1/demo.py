"""C08: candidates must cover every attractor of the node for every option combination.
Exits 0 if they do, 1 otherwise."""
import itertools
import sys

from biodivine_aeon import Attractors
from biobalm import SuccessionDiagram

NETWORKS = {
    # a single negative feedback loop: one complex attractor (the whole state space)
    "neg_cycle": "a, !b\nb, a",
    # motif-avoidant attractor next to the stable motif A=B=C=1
    "maa": "A, !A & !B | C\nB, !A & !B | C\nC, A & B",
}


def uncovered(sd, node, cands):
    """Attractors of `node` (not inside a successor) that contain no candidate."""
    space = sd.symbolic.mk_subspace(sd.node_data(node)["space"])
    succ = []
    if sd.node_data(node)["expanded"]:
        succ = [
            sd.symbolic.mk_subspace(sd.node_data(s)["space"])
            for s in sd.node_successors(node)
        ]
    missing = []
    for att in Attractors.attractors(sd.symbolic, space):
        if any(not att.intersect(s).is_empty() for s in succ):
            continue
        if not any(
            len(c) == sd.network.variable_count()
            and not att.intersect(sd.symbolic.mk_subspace(c)).is_empty()
            for c in cands
        ):
            missing.append(att)
    return missing


bad = 0
for name, rules in NETWORKS.items():
    for greedy, simulation in itertools.product((True, False), repeat=2):
        sd = SuccessionDiagram.from_rules(rules)
        sd.expand_bfs()
        for node in sd.node_ids():
            cands = sd.node_attractor_candidates(
                node,
                compute=True,
                greedy_asp_minification=greedy,
                simulation_minification=simulation,
            )
            miss = uncovered(sd, node, cands)
            if miss:
                bad += 1
                print(
                    f"{name}: node {node} greedy={greedy} simulation={simulation}: "
                    f"candidates={cands} but attractor(s) {miss} contain no candidate"
                )
print("violations:", bad)
sys.exit(1 if bad else 0)
