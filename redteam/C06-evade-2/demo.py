"""C06 demo: the final trap space of every successful intervention must be consistent with the target
(and all minimal trap spaces inside it must lie in the target).  The target here asks for a value of a
constant node that the network can never take, so no intervention on the other nodes can be successful.
"""
import sys

from biodivine_aeon import AsynchronousGraph, BooleanNetwork, Percolation

import biobalm
from biobalm.control import succession_control, successions_to_target

RULES = """
S, S
A, S | B
B, A
C, A | D
D, C
E, false
"""
# E is constant 0 in the network; the target (not a trap space) wants E = 1
TARGET = {"E": 1, "C": 1, "D": 1}


def percolate(graph, space):
    res = Percolation.percolate_subspace(graph, space)
    return {graph.get_network_variable_name(k): int(v) for k, v in res.items()}


def consistent(x, y):
    return all(x[k] == v for k, v in y.items() if k in x)


def main() -> int:
    graph = AsynchronousGraph(BooleanNetwork.from_bnet(RULES))
    bad = 0
    for strategy in ("internal", "all"):
        for forbidden in (None, {"E"}):
            sd = biobalm.SuccessionDiagram.from_rules(RULES)
            for iv in succession_control(sd, dict(TARGET), strategy=strategy, forbidden_drivers=forbidden):
                final = percolate(graph, {})
                for motif in iv.succession:
                    final = percolate(graph, final | motif)
                if iv.successful and not consistent(final, TARGET):
                    bad += 1
                    print(f"[{strategy}, forbidden={forbidden}] {iv.succession} / {iv.control} reported successful, "
                          f"final trap space {final} contradicts the target {TARGET}")
    sd = biobalm.SuccessionDiagram.from_rules(RULES)
    succ = successions_to_target(sd, dict(TARGET))
    if succ:
        bad += 1
        print("successions_to_target lists successions towards an unreachable target:", succ)
    if bad:
        print(f"FAIL: {bad} problem(s)")
        return 1
    print("OK")
    return 0


if __name__ == "__main__":
    sys.exit(main())
