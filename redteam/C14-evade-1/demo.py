"""
C14 demo: whatever seeds a node reports WITHOUT recomputation (compute=False) must be correct for the
node's current successors.  Ground truth is computed independently with AEON on the full network.

Network with a motif-avoidant attractor in the root (minimal trap space 111, plus a cyclic attractor
outside of it).  History: query seeds on the unexpanded root, then skip_to_minimal(root).
"""
import sys
from biobalm import SuccessionDiagram
from biodivine_aeon import Attractors

RULES = """
A, !A & !B | C
B, !A & !B | C
C, A & B
"""


def ground_truth(sd, node_id):
    """Attractors of the full network that lie in the node's space but in none of its successors."""
    g = sd.symbolic
    space = g.mk_subspace(sd.node_data(node_id)["space"])
    succ = [g.mk_subspace(sd.node_data(s)["space"]) for s in sd.dag.successors(node_id)]
    res = []
    for a in Attractors.attractors(g, space):
        if not a.is_subset(space):
            continue
        if any(a.is_subset(s) for s in succ):
            continue
        res.append(a)
    return res


def check_reported(sd, node_id):
    try:
        seeds = sd.node_attractor_seeds(node_id, compute=False)
    except KeyError:
        return True  # nothing reported without recomputation -> nothing to be stale
    truth = ground_truth(sd, node_id)
    hit = [0] * len(truth)
    for seed in seeds:
        v = sd.symbolic.mk_subspace(seed)
        owners = [i for i, a in enumerate(truth) if not a.intersect(v).is_empty()]
        if len(owners) != 1:
            print(f"node {node_id}: reported seed {seed} is not in an attractor outside the successors")
            return False
        hit[owners[0]] += 1
    if any(h != 1 for h in hit):
        print(f"node {node_id}: reports {len(seeds)} seed(s) without recomputation, but {len(truth)} attractor(s) "
              f"lie outside its successors {sorted(sd.dag.successors(node_id))} (hits per attractor: {hit})")
        return False
    return True


sd = SuccessionDiagram.from_rules(RULES)
root = sd.root()
before = sd.node_attractor_seeds(root, compute=True)          # query on the unexpanded node
assert len(before) == 2, before                               # 111 and the motif-avoidant cycle
assert sd.skip_to_minimal(root) is True                       # root gets the minimal trap space as successor
assert sd.node_data(root)["skipped"] and len(list(sd.dag.successors(root))) == 1

ok = all(check_reported(sd, n) for n in sd.node_ids())
# the aggregated view must not lose the motif-avoidant attractor either (after computing what is missing)
agg = sd.expanded_attractor_seeds()
n_attr = sum(len(v) for v in agg.values())
if n_attr != 2:
    print(f"expanded_attractor_seeds() reports {n_attr} attractor(s), the network has 2")
    ok = False
print("OK" if ok else "FAIL")
sys.exit(0 if ok else 1)
