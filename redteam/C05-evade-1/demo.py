"""
C05 demo: stop the expansion early, turn the remaining nodes into skip nodes, ask every node for its attractor
seeds.  Every attractor of the network (computed by AEON) has to be reported at least once, and every seed has to
lie in an attractor inside the trap space of its node.   Exit code 0 = holds, 1 = broken.
"""
import sys
from biodivine_aeon import Attractors
from biobalm import SuccessionDiagram

NETWORKS = {
    # An input plus the classical 3-cycle with a motif-avoidant attractor (tests/source_SCC_test.py):
    # for each value of `inp` there are two attractors, the fixed point XYZ = 111 and a motif-avoidant 6-cycle.
    "input+maa": """targets,factors
inp, inp
X, !Z | (X & Y & Z)
Y, !X | (X & Y & Z)
Z, !Y | (X & Y & Z)
""",
    # the same module below a bistable switch instead of an input
    "switch+maa": """targets,factors
P, Q
Q, P
X, !Z | (X & Y & Z)
Y, !X | (X & Y & Z)
Z, !Y | (X & Y & Z)
""",
}

def stop_early_and_skip(how, sd):
    if how == "bfs(level 1) + skip_remaining":
        sd.expand_bfs(bfs_level_limit=1)
        sd.skip_remaining()
    elif how == "dfs(size 2) + skip_remaining":
        sd.expand_dfs(size_limit=2)
        sd.skip_remaining()
    elif how == "block(size 3) + skip_remaining":
        sd.expand_block(size_limit=3)
        sd.skip_remaining()
    elif how == "bfs(level 1) + skip_to_minimal":
        sd.expand_bfs(bfs_level_limit=1)
        for n in list(sd.stub_ids()):
            sd.skip_to_minimal(n)
    elif how == "minimal spaces(size 2, skip_ignored) + skip_remaining":
        sd.expand_minimal_spaces(size_limit=2, skip_ignored=True)
        sd.skip_remaining()

HOW = [
    "bfs(level 1) + skip_remaining",
    "dfs(size 2) + skip_remaining",
    "block(size 3) + skip_remaining",
    "bfs(level 1) + skip_to_minimal",
    "minimal spaces(size 2, skip_ignored) + skip_remaining",
]

failures = []
for name, rules in NETWORKS.items():
    for how in HOW:
        sd = SuccessionDiagram.from_rules(rules)
        stop_early_and_skip(how, sd)
        assert all(sd.node_data(n)["expanded"] for n in sd.node_ids())
        skip_nodes = [n for n in sd.node_ids() if sd.node_data(n)["skipped"]]
        attractors = [a.vertices() for a in Attractors.attractors(sd.symbolic)]
        hits = [0] * len(attractors)
        for node in sd.node_ids():
            space = sd.symbolic.mk_subspace(sd.node_data(node)["space"]).vertices()
            for seed in sd.node_attractor_seeds(node, compute=True):
                state = sd.symbolic.mk_subspace(seed).vertices()
                inside = [i for i, a in enumerate(attractors) if not state.intersect(a).is_empty()]
                if len(seed) != sd.network.variable_count() or not inside:
                    failures.append(f"{name} / {how}: node {node}: seed {seed} does not lie in an attractor")
                for i in inside:
                    hits[i] += 1
                    if not attractors[i].is_subset(space):
                        failures.append(f"{name} / {how}: node {node}: attractor of seed {seed} is not inside the node")
        for i, h in enumerate(hits):
            if h == 0:
                failures.append(f"{name} / {how} ({len(skip_nodes)} skip nodes): attractor #{i} {attractors[i]} is not reported by any node")

for f in failures:
    print("FAIL", f)
print("every attractor reported after skipping:", "NO" if failures else "yes")
sys.exit(1 if failures else 0)
