"""
C04: at every moment, every node that is marked expanded has exactly the successors (and stable motifs) it has in the
fully expanded diagram.

Configuration max_motifs_per_node = 0 (a user who expects "0 = no limit", as in clingo).
Clean tree: every expansion attempt raises the documented limit error; the diagram stays an honest stub.
Changed tree: the solver is not even asked (limit 0 -> empty list), the empty list is taken for "no stable motifs" and
the node is marked expanded = minimal trap space. Every strategy then reports completion on a one-node diagram.
"""
import sys
from biobalm import SuccessionDiagram

RULES = """
A, B
B, A & C
C, !A | B
"""

def faithful(sd, full):
    """every expanded node of sd has exactly the successors/motifs it has in the fully expanded diagram `full`"""
    problems = []
    for i in sd.node_ids():
        d = sd.node_data(i)
        j = full.find_node(d["space"])
        if j is None:
            problems.append(f"node {i} {d['space']} does not exist in the full diagram")
            continue
        mine = {}
        for c in sd.dag.successors(i):
            mine[frozenset(sd.node_data(c)["space"].items())] = sorted(sorted(m.items()) for m in sd.edge_all_stable_motifs(i, c))
        ref = {}
        for c in full.node_successors(j):
            ref[frozenset(full.node_data(c)["space"].items())] = sorted(sorted(m.items()) for m in full.edge_all_stable_motifs(j, c))
        if d["expanded"] and mine != ref:
            problems.append(f"node {i} {d['space']} is marked expanded with {len(mine)} successors, the full diagram has {len(ref)}")
        if not d["expanded"] and mine:
            problems.append(f"node {i} is a stub with successors")
    return problems

full = SuccessionDiagram.from_rules(RULES)
assert full.expand_bfs()

rc = 0
calls = [
    ("node_successors(root, compute=True)", lambda sd: sd.node_successors(sd.root(), compute=True)),
    ("expand_bfs(size_limit=10)", lambda sd: sd.expand_bfs(size_limit=10)),
    ("expand_dfs(dfs_stack_limit=5)", lambda sd: sd.expand_dfs(dfs_stack_limit=5)),
    ("expand_minimal_spaces()", lambda sd: sd.expand_minimal_spaces()),
    ("expand_to_target", lambda sd: sd.expand_to_target({"A": 1, "B": 1, "C": 1})),
]
for name, call in calls:
    config = SuccessionDiagram.default_config()
    config["max_motifs_per_node"] = 0
    sd = SuccessionDiagram.from_rules(RULES, config=config)
    try:
        result = call(sd)
        outcome = f"returned {result}"
    except (RuntimeError, AssertionError, ValueError) as e:
        outcome = f"raised {type(e).__name__}"
    problems = faithful(sd, full)
    print(f"{name}: {outcome}; expanded nodes: {list(sd.expanded_ids())}")
    for p in problems:
        print("   ", p)
    if problems:
        rc = 1
if rc:
    print("C04 VIOLATED")
sys.exit(rc)
