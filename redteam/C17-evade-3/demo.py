"""C17 (clause P): network_to_petrinet must refuse unsanitised names -- on every call path,
also when the caller supplies the symbolic context."""
import sys
from biodivine_aeon import BooleanNetwork, SymbolicContext
from biobalm.petri_net_translation import network_to_petrinet
from biobalm.trappist_core import trappist

bn = BooleanNetwork.from_bnet("a, b\nb, a\nc, a | c\n")
bn.set_variable_name("b", "b-a")       # not a clingo identifier: `b1_b-a` is read as the term `b1_b - a`
bn.set_variable_name("c", "Gene_{1}")  # the example from the docstring of sanitize_network_names

bad = 0
for ctx in (None, SymbolicContext(bn)):
    try:
        pn = network_to_petrinet(bn, ctx)
    except RuntimeError as e:
        print("refused:", e)
        continue
    bad += 1
    print("accepted an unsanitised network (context supplied: %s); places:" % (ctx is not None),
          sorted(n for n, k in pn.nodes(data="kind") if k == "place"))
    try:
        print("trappist on it:", trappist(pn, problem="min"))
    except Exception as e:
        print("trappist on it fails:", type(e).__name__, str(e)[:80])
sys.exit(1 if bad else 0)
