"""
C15: if a solver failure interrupts an expansion, the diagram stays a valid partial diagram (no node is marked
expanded without its complete successors) and repeating the expansion afterwards gives the same result as a run
that was never interrupted.

Fault injection at the solver boundary only: the clingo `Control` used by biobalm.trappist_core is wrapped such
that the enumeration of answer sets fails with a RuntimeError (what clingo raises e.g. when it runs out of memory
or is interrupted) after the first model.
"""
import sys
import biobalm.trappist_core as tc
from biobalm import SuccessionDiagram

RULES = """
A, B
B, A
C, C & A
"""

RealControl = tc.Control
RealSolveHandle = tc.SolveHandle


class FaultyHandle:
    """A solve handle that delivers one model and then fails like clingo does."""

    def __init__(self, handle):
        self._handle = handle

    def __enter__(self):
        self._handle.__enter__()
        return self

    def __exit__(self, *args):
        return self._handle.__exit__(*args)

    def __iter__(self):
        for i, model in enumerate(self._handle):
            if i >= 1:
                raise RuntimeError("clingo: std::bad_alloc (injected solver failure)")
            yield model


class FaultyControl:
    def __init__(self, *args, **kwargs):
        self._ctl = RealControl(*args, **kwargs)

    def add(self, *args, **kwargs):
        return self._ctl.add(*args, **kwargs)

    def ground(self, *args, **kwargs):
        return self._ctl.ground(*args, **kwargs)

    def solve(self, *args, **kwargs):
        result = self._ctl.solve(*args, **kwargs)
        if isinstance(result, RealSolveHandle):
            return FaultyHandle(result)
        return result


def inject_fault():
    tc.Control = FaultyControl
    tc.SolveHandle = FaultyHandle


def remove_fault():
    tc.Control = RealControl
    tc.SolveHandle = RealSolveHandle


def minimal(sd):
    return sorted(tuple(sorted(sd.node_data(i)["space"].items())) for i in sd.minimal_trap_spaces())


def valid_partial(sd):
    """No unexpanded node has successors."""
    return all(sd.node_data(i)["expanded"] or sd.dag.out_degree(i) == 0 for i in sd.node_ids())


if __name__ == "__main__":
    # reference: a run that is never interrupted
    ref = SuccessionDiagram.from_rules(RULES)
    assert ref.expand_bfs()
    ref_root_successors = len(ref.node_successors(ref.root()))

    sd = SuccessionDiagram.from_rules(RULES)
    inject_fault()
    try:
        try:
            result = sd.expand_bfs()
            print(f"interrupted run: no error, expand_bfs() -> {result}")
        except RuntimeError as e:
            print(f"interrupted run: RuntimeError({e})")
    finally:
        remove_fault()

    ok = True
    root = sd.node_data(sd.root())
    print(f"after the failure: root expanded={root['expanded']}, successors={sd.dag.out_degree(sd.root())} "
          f"(complete: {ref_root_successors}), nodes={len(sd)}")
    if root["expanded"] and sd.dag.out_degree(sd.root()) != ref_root_successors:
        print("FAIL: the root is marked expanded without its complete successors")
        ok = False
    if not valid_partial(sd):
        print("FAIL: an unexpanded node has successors")
        ok = False

    # repeat without the fault
    done = sd.expand_bfs()
    print(f"repeated run: expand_bfs() -> {done}, {len(sd)} nodes (uninterrupted: {len(ref)}), "
          f"{len(minimal(sd))} minimal trap spaces (uninterrupted: {len(minimal(ref))})")
    if not (done and minimal(sd) == minimal(ref) and sd.is_isomorphic(ref)):
        print("FAIL: the repeated expansion differs from the uninterrupted run")
        ok = False

    if not ok:
        sys.exit(1)
    print("OK")
