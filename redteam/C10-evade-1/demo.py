"""
C10 (observed at SuccessionDiagram.node_percolated_network / node_percolated_petri_net):
percolating the network to the trap space of a node yields an encoding over exactly the
variables left free, whose transitions coincide with the original dynamics of those
variables on every state of the subspace.
"""
import sys
from itertools import product

from biodivine_aeon import BooleanNetwork

from biobalm import SuccessionDiagram
from biobalm.petri_net_translation import extract_variable_names, network_to_petrinet

RULES = {
    "a": lambda s: s["a"],
    "b": lambda s: s["a"] and s["b"],
    "c": lambda s: (not s["d"]) or s["a"],
    "d": lambda s: s["c"] and not s["b"],
    "e": lambda s: s["e"] or s["d"],
}

bn = BooleanNetwork.from_bnet(
    """targets,factors
a, a
b, a & b
c, !d | a
d, c & !b
e, e | d
"""
)

sd = SuccessionDiagram(bn)
sd.expand_bfs()


def enabled_in_net(pn, state):
    """(variable, direction) pairs of the transitions enabled in `state` (dict over the net's variables)."""
    result = set()
    for node, data in pn.nodes(data=True):
        if data["kind"] != "transition":
            continue
        ok = True
        for place in pn.predecessors(node):
            var, positive = place[3:], place.startswith("b1_")
            if state[var] != int(positive):
                ok = False
        if ok:
            result.add((data["change"], data["direction"]))
    return result


failures = 0
checked = 0
for node_id in sd.node_ids():
    space = sd.node_data(node_id)["space"]
    free = sorted(v for v in RULES if v not in space)
    if len(free) == 0:
        continue
    net_from_bn = network_to_petrinet(sd.node_percolated_network(node_id, compute=True))
    net_restricted = sd.node_percolated_petri_net(node_id, compute=True)
    for label, pn in (("node_percolated_network", net_from_bn), ("node_percolated_petri_net", net_restricted)):
        checked += 1
        variables = extract_variable_names(pn)
        if variables != free:
            print(f"node {node_id} space={space}: {label} is over {variables}, free variables are {free}")
            failures += 1
            continue
        for vals in product([0, 1], repeat=len(free)):
            state = dict(zip(free, vals))
            full = dict(space)
            full.update(state)
            expected = set()
            for v in free:
                nxt = int(bool(RULES[v](full)))
                if nxt != full[v]:
                    expected.add((v, "up" if nxt else "down"))
            if enabled_in_net(pn, state) != expected:
                print(f"node {node_id}: {label} differs from the dynamics in state {state}")
                failures += 1
                break

print("checked", checked, "encodings;", failures, "failures")
sys.exit(1 if failures else 0)
