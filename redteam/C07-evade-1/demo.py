"""C07 demo: no reported override set is larger than max_drivers_per_succession_node, for every value of the bound."""
import sys

import biobalm
from biobalm.control import succession_control, find_drivers
from biodivine_aeon import BooleanNetwork

RULES = """
S, S
A, S | B
B, A
C, A | D
D, C
E, false
"""
TARGET = {"S": 0, "E": 0, "A": 0, "B": 0, "C": 1, "D": 1}


def main() -> int:
    bad = 0
    for strategy in ("internal", "all"):
        for bound in (0, 1, 2, 3):
            sd = biobalm.SuccessionDiagram.from_rules(RULES)
            ivs = succession_control(
                sd, TARGET, strategy=strategy, max_drivers_per_succession_node=bound, successful_only=False
            )
            for iv in ivs:
                for step in iv.control:
                    for override in step:
                        if len(override) > bound:
                            bad += 1
                            print(f"[{strategy}, bound={bound}] oversized override {override} in {iv.succession}")
            # with bound 0 nothing but the empty override may appear; the first step {S:0} needs a real driver
            if bound == 0 and any(iv.successful for iv in ivs):
                bad += 1
                print(f"[{strategy}, bound=0] an intervention is reported successful although no variable may be overridden")

    # same thing directly on the building block
    bn = BooleanNetwork.from_bnet(RULES)
    got = find_drivers(bn, {"A": 0, "B": 0}, assume_fixed={"S": 0, "E": 0}, max_drivers_per_succession_node=0)
    if got != []:
        bad += 1
        print("find_drivers(max_drivers_per_succession_node=0) returned", got)

    if bad:
        print(f"FAIL: {bad} problem(s)")
        return 1
    print("OK")
    return 0


if __name__ == "__main__":
    sys.exit(main())
