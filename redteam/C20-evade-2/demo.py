"""C20: is_subgraph / is_isomorphic decide inclusion / equality of the NODE and EDGE sets.

Two diagrams of the same network with identical node sets and identical edge sets;
they differ only in whether the leaf nodes carry the `expanded` flag.
Exit 0 if is_subgraph/is_isomorphic agree with the set-based ground truth, 1 otherwise.
"""
import sys
import biobalm

RULES = """
A, B
B, A & C
C, !A | B
"""


def node_set(sd):
    return {frozenset(sd.node_data(i)["space"].items()) for i in sd.node_ids()}


def edge_set(sd):
    sp = lambda i: frozenset(sd.node_data(i)["space"].items())
    return {(sp(a), sp(b)) for a, b in sd.dag.edges()}


full = biobalm.SuccessionDiagram.from_rules(RULES)
full.expand_bfs()  # root and both (minimal) children expanded

partial = biobalm.SuccessionDiagram.from_rules(RULES)
partial.node_successors(partial.root(), compute=True)  # only the root expanded, children are stubs

bad = []
for x, y, nx_, ny_ in [(full, partial, "full", "partial"), (partial, full, "partial", "full")]:
    truth = node_set(x) <= node_set(y) and edge_set(x) <= edge_set(y)
    got = x.is_subgraph(y)
    print(f"{nx_}.is_subgraph({ny_}) = {got}, node/edge set inclusion = {truth}")
    if got != truth:
        bad.append((nx_, ny_))
truth_iso = node_set(full) == node_set(partial) and edge_set(full) == edge_set(partial)
got_iso = full.is_isomorphic(partial)
print(f"is_isomorphic = {got_iso}, node/edge set equality = {truth_iso}")
if got_iso != truth_iso:
    bad.append("iso")
sys.exit(1 if bad else 0)
