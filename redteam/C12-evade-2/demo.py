"""C12: node_attractor_sets(id)[i] must be the attractor that contains node_attractor_seeds(id)[i].
Exits 0 if so, 1 otherwise."""
import sys

from biodivine_aeon import Attractors
from biobalm import SuccessionDiagram

NETWORKS = {
    # two fixed points (00 and 11)
    "switch": "p, q\nq, p",
    # an input and an oscillator: two complex attractors
    "input_osc": "a, a\nb, !c\nc, b",
    # fixed point and a complex attractor of different size
    "mixed": "v0, v0\nv1, v1\nv2, (!v2 & v0) | !v0\nv3, v2 | !v2",
}

bad = 0
for name, rules in NETWORKS.items():
    for history in ("sets first", "seeds first", "seeds, reclaim, sets"):
        sd = SuccessionDiagram.from_rules(rules)
        node = sd.root()  # not expanded: all attractors belong to the root
        if history == "sets first":
            sets = sd.node_attractor_sets(node, compute=True)
            seeds = sd.node_attractor_seeds(node, compute=True)
        else:
            seeds = sd.node_attractor_seeds(node, compute=True)
            if "reclaim" in history:
                sd.reclaim_node_data()
            sets = sd.node_attractor_sets(node, compute=True)
        truth = [a.vertices() for a in Attractors.attractors(sd.symbolic)]
        if len(seeds) != len(sets) or len(sets) != len(truth):
            bad += 1
            print(f"{name} [{history}]: {len(seeds)} seeds, {len(sets)} sets, {len(truth)} attractors")
            continue
        for i, (seed, s) in enumerate(zip(seeds, sets)):
            seed_set = sd.symbolic.mk_subspace(seed).vertices()
            expected = [t for t in truth if not t.intersect(seed_set).is_empty()][0]
            if s != expected:
                bad += 1
                print(
                    f"{name} [{history}]: sets[{i}] ({s.cardinality()} states) is not the attractor of "
                    f"seeds[{i}]={seed} ({expected.cardinality()} states); contains the seed: {seed_set.is_subset(s)}"
                )
print("violations:", bad)
sys.exit(1 if bad else 0)
