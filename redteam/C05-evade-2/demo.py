"""
C05 demo: expand only the root, turn every remaining node into a skip node with skip_to_minimal(), ask every node for
its attractor seeds.  Every attractor (AEON) has to be reported at least once -- exactly once when the network has no
motif-avoidant attractor, as is the case for all networks below -- and every seed has to lie in an attractor inside the
trap space of its node.   Exit code 0 = holds, 1 = broken.
"""
import sys
from biodivine_aeon import Attractors
from biobalm import SuccessionDiagram

NETWORKS = {
    "a": """targets,factors
v0, v0
v1, !v1 | v0
v2, !v1 | v2
""",
    "b": """targets,factors
v0, v0
v1, (!v1 & v0) | (v1 & !v0)
v2, (!v2 & !v0) | (v2 & v0)
""",
    "c": """targets,factors
v0, v0
v1, (!v2 & v1) | v2
v2, v0 & !v2
""",
}

failures = []
for name, rules in NETWORKS.items():
    sd = SuccessionDiagram.from_rules(rules)
    sd.node_successors(sd.root(), compute=True)      # the expansion stops after the root
    for n in list(sd.stub_ids()):
        sd.skip_to_minimal(n)
    assert all(sd.node_data(n)["expanded"] for n in sd.node_ids())
    attractors = [a.vertices() for a in Attractors.attractors(sd.symbolic)]
    hits = [0] * len(attractors)
    for node in sd.node_ids():
        space = sd.symbolic.mk_subspace(sd.node_data(node)["space"]).vertices()
        for seed in sd.node_attractor_seeds(node, compute=True):
            if len(seed) != sd.network.variable_count():
                failures.append(f"{name}: node {node} {sd.node_data(node)['space']}: seed {seed} is not a state")
                continue
            state = sd.symbolic.mk_subspace(seed).vertices()
            inside = [i for i, a in enumerate(attractors) if not state.intersect(a).is_empty()]
            if not inside:
                failures.append(f"{name}: node {node} {sd.node_data(node)['space']}: seed {seed} does not lie in an attractor")
            for i in inside:
                hits[i] += 1
                if not attractors[i].is_subset(space):
                    failures.append(f"{name}: node {node} {sd.node_data(node)['space']}: the attractor of seed {seed} is not inside the node")
    for i, h in enumerate(hits):
        if h != 1:
            failures.append(f"{name}: attractor #{i} {attractors[i]} is reported {h} times (no motif-avoidant attractors: must be 1)")

for f in failures:
    print("FAIL", f)
print("skip_to_minimal keeps the attractors:", "NO" if failures else "yes")
sys.exit(1 if failures else 0)
