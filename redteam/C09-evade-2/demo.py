"""
C09: without a requested solution limit, trappist must return *all* fixed points /
minimal trap spaces (a limit only truncates when one is asked for).

Network: 14 independent variables x_i' = x_i  ->  2^14 = 16384 fixed points, each of
which is also a minimal trap space.
"""
import sys

from biodivine_aeon import BooleanNetwork

from biobalm.trappist_core import trappist

N = 14
bn = BooleanNetwork.from_bnet(
    "targets,factors\n" + "\n".join(f"x{i}, x{i}" for i in range(N))
)

fixed_points = trappist(bn, problem="fix")
distinct = {tuple(sorted(s.items())) for s in fixed_points}
print("fixed points returned:", len(fixed_points), "distinct:", len(distinct), "expected:", 2**N)
ok = len(fixed_points) == 2**N and len(distinct) == 2**N

min_traps = trappist(bn, problem="min", ensure_subspace={"x0": 1})
print("minimal trap spaces in x0=1:", len(min_traps), "expected:", 2 ** (N - 1))
ok = ok and len(min_traps) == 2 ** (N - 1)

# an explicit limit must still truncate
ok = ok and len(trappist(bn, problem="fix", solution_limit=7)) == 7

if not ok:
    print("FAIL: omissions although no solution limit was requested")
    sys.exit(1)
print("OK")
