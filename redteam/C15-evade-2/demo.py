"""
C15: "an expansion that returns True has really completed its contract"; a configured resource limit
(stable motifs per node) makes the expansion raise an error, and repeating it with a relaxed limit gives
the same result as a run that was never interrupted.

Network: A<->B positive cycle; C, D, E can only stay on while A is on.
The root has 5 stable motifs, the node {A=1, B=1} has 6 (C, D, E become free inputs there).
With max_motifs_per_node = 6 the root can be expanded, the node {A=1, B=1} cannot.
"""
import sys
from biodivine_aeon import BooleanNetwork
from biobalm import SuccessionDiagram
from biobalm.trappist_core import trappist

RULES = """targets,factors
A, B
B, A
C, C & A
D, D & A
E, E & A
"""


def minimal(sd):
    return sorted(tuple(sorted(sd.node_data(i)["space"].items())) for i in sd.minimal_trap_spaces())


if __name__ == "__main__":
    bn = BooleanNetwork.from_bnet(RULES)
    truth = sorted(tuple(sorted(s.items())) for s in trappist(bn, problem="min"))

    config = SuccessionDiagram.default_config()
    config["max_motifs_per_node"] = 6
    sd = SuccessionDiagram(bn, config)

    ok = True
    try:
        result = sd.expand_bfs()
        stubs = list(sd.stub_ids())
        print(f"limited run: expand_bfs() -> {result}; unexpanded nodes: {len(stubs)}; "
              f"minimal trap spaces: {len(minimal(sd))} of {len(truth)}")
        if result and (len(stubs) > 0 or minimal(sd) != truth):
            print("FAIL: expand_bfs() reports completion, but unexpanded nodes remain / minimal trap spaces are missing")
            ok = False
    except RuntimeError as e:
        print(f"limited run: RuntimeError: {str(e)[:70]}...")
        # the limit error must leave a valid, resumable diagram
        assert all(sd.node_data(i)["expanded"] or sd.dag.out_degree(i) == 0 for i in sd.node_ids())

    # relax the limit and repeat
    sd.config["max_motifs_per_node"] = 100_000
    result = sd.expand_bfs()
    print(f"relaxed run: expand_bfs() -> {result}; minimal trap spaces: {len(minimal(sd))} of {len(truth)}")
    if not (result and minimal(sd) == truth and len(list(sd.stub_ids())) == 0):
        print("FAIL: repeated run with relaxed limit is not complete")
        ok = False

    if not ok:
        sys.exit(1)
    print("OK")
