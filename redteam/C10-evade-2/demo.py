"""
C10 (observed at SuccessionDiagram.node_percolated_petri_net / node_percolated_network):
the Petri net of every node encodes exactly the dynamics of the diagram's network on the
node's subspace, over exactly the free variables.

Call history: the caller builds a diagram for a network, then goes on to edit *its own*
network object (e.g. to prepare a perturbed variant), and only afterwards works with the
first diagram. A SuccessionDiagram is a snapshot of the network it was created with
(`sd.network` is a cleaned-up copy), so this must not matter.
"""
import sys
from itertools import product

from biodivine_aeon import BooleanNetwork

from biobalm import SuccessionDiagram
from biobalm.petri_net_translation import extract_variable_names, network_to_petrinet

RULES = {
    "a": lambda s: s["a"],
    "b": lambda s: s["a"] and s["b"],
    "c": lambda s: (not s["d"]) or s["a"],
    "d": lambda s: s["c"] and not s["b"],
    "e": lambda s: s["e"] or s["d"],
}

bn = BooleanNetwork.from_bnet(
    """targets,factors
a, a
b, a & b
c, !d | a
d, c & !b
e, e | d
"""
)

sd = SuccessionDiagram(bn)

# The caller now prepares a variant of the model in its own object.
bn.set_update_function("d", "c | !b")
bn.set_update_function("e", "e & d")

sd.expand_bfs()


def enabled_in_net(pn, state):
    result = set()
    for node, data in pn.nodes(data=True):
        if data["kind"] != "transition":
            continue
        if all(state[p[3:]] == int(p.startswith("b1_")) for p in pn.predecessors(node)):
            result.add((data["change"], data["direction"]))
    return result


def check(label, pn, space):
    free = sorted(v for v in RULES if v not in space)
    variables = extract_variable_names(pn)
    if variables != free:
        print(f"{label}: net is over {variables}, free variables are {free}")
        return False
    for vals in product([0, 1], repeat=len(free)):
        state = dict(zip(free, vals))
        full = dict(space)
        full.update(state)
        expected = set()
        for v in free:
            nxt = int(bool(RULES[v](full)))
            if nxt != full[v]:
                expected.add((v, "up" if nxt else "down"))
        got = enabled_in_net(pn, state)
        if got != expected:
            print(f"{label}: state {state}: enabled {sorted(got)}, dynamics say {sorted(expected)}")
            return False
    return True


# The diagram still describes the original rules ...
assert "c & !b" in sd.network.to_aeon().replace("(", "").replace(")", ""), sd.network.to_aeon()

failures = 0
checked = 0
# ... hence every node space must be a trap space of the original rules and the nets must encode them.
for node_id in sd.node_ids():
    space = sd.node_data(node_id)["space"]
    if len(space) == len(RULES):
        continue
    checked += 2
    pn = sd.node_percolated_petri_net(node_id, compute=True)
    if not check(f"node {node_id} {space} node_percolated_petri_net", pn, space):
        failures += 1
    pn2 = network_to_petrinet(sd.node_percolated_network(node_id, compute=True))
    if not check(f"node {node_id} {space} node_percolated_network", pn2, space):
        failures += 1

print("checked", checked, "encodings;", failures, "failures")
sys.exit(1 if failures else 0)
