#!/usr/bin/env python3
"""keep_seed.py <id> <property> <diff> <demo> <notes.md> <summary> <needs> <rule,rule,...|-> [status]"""
import json, shutil, sys
from pathlib import Path
sid, prop, diff, demo, notes, summary, needs, rules = sys.argv[1:9]
status = sys.argv[9] if len(sys.argv) > 9 else "caught"
d = Path("/verif/seeded") / sid
d.mkdir(parents=True, exist_ok=True)
shutil.copy(diff, d / "patch.diff")
shutil.copy(demo, d / Path("demo.py"))
if Path(notes).exists():
    shutil.copy(notes, d / "notes.md")
meta = {
    "id": sid, "property": prop, "summary": summary, "needs_to_manifest": needs,
    "props": [prop] + sorted({r.split("-")[0] for r in rules.split(",") if r != "-"} - {prop}),
    "expected_rules": [] if rules == "-" else rules.split(","),
    "status": status,
    "confirmed": "tools/confirm_seed.sh patch.diff demo.py in a scratch worktree of /repo: demo passes on the clean tree, "
                 "fails with the change; baseline suite with the change: 130 passed, 1 failed (tests/clingo_test.py::test_clingo, "
                 "which fails on the clean tree too); then `balmlint all --repo <scratch>`",
    "origin": "independent sub-agent given only the property text and a scratch worktree",
}
(d / "meta.json").write_text(json.dumps(meta, indent=1) + "\n")
print("kept", d)
