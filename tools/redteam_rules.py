#!/venv/bin/python
"""usage: redteam_rules.py <outdir>  -- writes rules_Cxx.txt (what each rule set verifies: the module's EXPLANATION and
ASSUMPTIONS plus the property's section of DESIGN.md §3) for a white-box round."""
import importlib
import re
import sys
from pathlib import Path

sys.path.insert(0, str(Path(__file__).resolve().parent.parent))
VERIF = Path(__file__).resolve().parent.parent


def main() -> int:
    out = Path(sys.argv[1])
    out.mkdir(parents=True, exist_ok=True)
    design = (VERIF / "DESIGN.md").read_text()
    sec3 = design[design.index("\n## 3. "):design.index("\n## 4. ")]
    for k in range(1, 21):
        p = f"C{k:02d}"
        try:
            m = importlib.import_module(f"balmlint.rules.{p.lower()}")
        except ImportError:
            continue
        mm = re.search(rf"\n### {p} .*?(?=\n### |\Z)", sec3, re.S)
        txt = f"Checker for {p} -- what its rules verify (static analysis of the source, nothing is executed):\n\n"
        txt += getattr(m, "EXPLANATION", "") + "\n\nAssumptions the checker makes (not verified):\n"
        txt += "".join(f"- {a}\n" for a in getattr(m, "ASSUMPTIONS", []))
        if mm:
            txt += "\nFrom the design document (rules as implemented):\n" + mm.group(0).strip() + "\n"
        (out / f"rules_{p}.txt").write_text(txt)
    return 0


if __name__ == "__main__":
    sys.exit(main())
