#!/venv/bin/python
"""usage: try_patches.py <dir> [benign|break]  -- runs balmlint on /repo + each <dir>/*/patch.diff (scratch copies).

benign: every rule set must stay silent; break: prints which rules fire."""
import json
import multiprocessing as mp
import sys
from pathlib import Path

sys.path.insert(0, str(Path(__file__).resolve().parent.parent))
from balmlint import selftest  # noqa: E402


def main() -> int:
    root = Path(sys.argv[1])
    kind = sys.argv[2] if len(sys.argv) > 2 else "benign"
    only = sys.argv[3:] or None
    vs = []
    for d in sorted(root.iterdir()):
        if (d / "patch.diff").exists() and (not only or any(d.name.startswith(o) for o in only)):
            if kind == "benign":
                vs.append({"id": d.name, "kind": "benign", "patch": str(d / "patch.diff")})
            else:
                vs.append({"id": d.name, "kind": "break", "patch": str(d / "patch.diff"), "rules": ["C00-X"],
                           "props": selftest.implemented()})
    with mp.Pool(min(16, max(1, len(vs)))) as pool:
        res = pool.map(selftest.run_variant, [(v, "/repo") for v in vs], chunksize=1)
    bad = 0
    for r in res:
        print(r["id"], r["status"], r.get("fired", ""))
        for w in r.get("where", []):
            print("     ", w[:400])
        if r["status"] in ("STALE", "ERROR"):
            print("     ", r.get("detail", "")[:600])
        bad += r["status"] not in ("SILENT", "KILLED")
    print(json.dumps({"n": len(res), "not_ok": bad}))
    return 0


if __name__ == "__main__":
    sys.exit(main())
