import json, sys, multiprocessing as mp
sys.path.insert(0, "/verif")
from balmlint import selftest
BASE = "/tmp/mut/base"
ids = [l.strip().split(' :: ')[0] for l in open('/tmp/mut/suite.log') if ' :: ' in l and 'failed' not in l and 'rror' not in l]
flt = sys.argv[1:]
ids = [i for i in ids if not flt or any(x in i for x in flt)]
vs = [{"id": i, "kind": "break", "patch": f"/tmp/mut/diffs/{i}.diff", "rules": ["C00-X"], "props": selftest.implemented()} for i in ids]
if __name__ == "__main__":
    with mp.Pool(15) as pool:
        res = pool.map(selftest.run_variant, [(v, BASE) for v in vs], chunksize=1)
    for r in res:
        lines=[x for x in open(f'/tmp/mut/diffs/{r["id"]}.diff') if x.startswith(('-','+')) and not x.startswith(('---','+++'))]
        print(("FIRED " + ",".join(r.get("fired", []))) if r.get("fired") else "silent", '|', r["id"].split('-')[2][:24], '|', ' || '.join(x.strip()[:80] for x in lines))
