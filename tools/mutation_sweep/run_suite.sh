#!/bin/bash
# for every mutant the checker did not report: does the unedited test suite notice it?
mkdir -p /tmp/mut/suite
if [ ! -d /tmp/mut/suite_base ]; then
  mkdir /tmp/mut/suite_base
  (cd /repo && tar --exclude=.git --exclude=__pycache__ -cf - .) | tar -xf - -C /tmp/mut/suite_base
  rm -rf /tmp/mut/suite_base/biobalm; cp -r /tmp/mut/base/biobalm /tmp/mut/suite_base/biobalm
fi
one() {
  id=$1
  D=$(mktemp -d /tmp/mut/s_XXXX)
  cp -r /tmp/mut/suite_base/. $D/
  (cd $D && patch -p1 -s -F 3 --no-backup-if-mismatch < /tmp/mut/diffs/$id.diff >/dev/null 2>&1) || { echo "$id PATCHFAIL"; rm -rf $D; return; }
  R=$(cd $D && PYTHONPATH=$D timeout 600 /venv/bin/python -m pytest -q -x -p no:cacheprovider -n 3 --timeout=300 --deselect tests/clingo_test.py::test_clingo 2>&1 | tail -1)
  rm -rf $D
  echo "$id :: $R"
}
export -f one
/venv/bin/python - <<'PY' > /tmp/mut/todo.txt
import json
d=json.load(open('/tmp/mut/checker.json'))
for k,v in sorted(d.items()):
    if not v["fired"]:
        print(k)
PY
cat /tmp/mut/todo.txt | xargs -P 5 -I{} bash -c 'one {}' > /tmp/mut/suite.log 2>&1
