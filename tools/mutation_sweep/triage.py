import json, re, sys
d=json.load(open('/tmp/mut/checker.json'))
seen=set(l.strip() for l in open('/tmp/mut/triaged.txt')) if __import__('os').path.exists('/tmp/mut/triaged.txt') else set()
rows=[]
for l in open('/tmp/mut/suite.log'):
    if ' :: ' not in l: continue
    k, r = l.strip().split(' :: ',1)
    if 'failed' in r or 'error' in r.lower(): continue
    if k in seen: continue
    lines=[x for x in open(f'/tmp/mut/diffs/{k}.diff') if x.startswith(('-','+')) and not x.startswith(('---','+++'))]
    p=k.split('-')
    rows.append((p[1], p[2], int(p[3]), p[0], ' || '.join(x.strip()[:105] for x in lines), d[k]['status'], k))
rows.sort()
for r in rows:
    print(f"{r[0][:22]:22s} {r[1][:30]:30s} {r[3]:8s} {'E' if r[5]=='ERROR' else ' '} {r[4]}")
print(len(rows))
