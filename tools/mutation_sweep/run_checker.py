import ast, json, os, shutil, sys, multiprocessing as mp
sys.path.insert(0, "/verif")
from balmlint import selftest
BASE = "/tmp/mut/base"
if not os.path.exists(BASE):
    os.makedirs(BASE)
    shutil.copy("/repo/pyproject.toml", BASE)
    shutil.copytree("/repo/biobalm", BASE + "/biobalm", ignore=shutil.ignore_patterns("__pycache__"))
    for dp, dn, fn in os.walk(BASE + "/biobalm"):
        for f in fn:
            if f.endswith(".py"):
                p = os.path.join(dp, f)
                txt = ast.unparse(ast.parse(open(p).read())) + "\n"
                open(p, "w").write(txt)
ids = sorted(f[:-5] for f in os.listdir("/tmp/mut/diffs") if f.endswith(".diff"))
vs = [{"id": i, "kind": "break", "patch": f"/tmp/mut/diffs/{i}.diff", "rules": ["C00-X"], "props": selftest.implemented()} for i in ids]
if __name__ == "__main__":
    with mp.Pool(15) as pool:
        res = pool.map(selftest.run_variant, [(v, BASE) for v in vs], chunksize=2)
    out = {}
    for r in res:
        out[r["id"]] = {"status": r["status"], "fired": r.get("fired", []), "detail": str(r.get("detail", ""))[:300]}
    json.dump(out, open("/tmp/mut/checker.json", "w"), indent=1)
    import collections
    c = collections.Counter()
    for k, v in out.items():
        c["fired" if v["fired"] else ("error-only" if v["status"] == "ERROR" else v["status"])] += 1
    print(c)
