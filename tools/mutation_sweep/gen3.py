"""Generate single-point mutants of the biobalm package as unified diffs against /repo (ast-level; one mutation per diff)."""
import ast, copy, difflib, os, sys, hashlib
ROOT = "/repo"
OUT = "/tmp/mut3/diffs"
os.makedirs(OUT, exist_ok=True)
SWAP = {ast.Lt: ast.LtE, ast.LtE: ast.Lt, ast.Gt: ast.GtE, ast.GtE: ast.Gt, ast.Eq: ast.NotEq, ast.NotEq: ast.Eq,
        ast.Is: ast.IsNot, ast.IsNot: ast.Is, ast.In: ast.NotIn, ast.NotIn: ast.In}
MUT_CALLS = {"add", "append", "remove", "discard", "pop", "update", "extend", "add_edge", "add_node", "remove_node", "remove_nodes_from", "remove_edge"}
n_total = 0
for dp, dn, fn in os.walk(f"{ROOT}/biobalm"):
    for f in fn:
        if not f.endswith(".py"):
            continue
        path = os.path.join(dp, f)
        rel = os.path.relpath(path, ROOT)
        src = open(path).read()
        tree = ast.parse(src)
        base = ast.unparse(tree)
        # enumerate mutation points
        points = []
        for fnode in ast.walk(tree):
            if not isinstance(fnode, ast.FunctionDef):
                continue
            for n in ast.walk(fnode):
                if isinstance(n, ast.Compare) and len(n.ops) == 1 and type(n.ops[0]) in SWAP:
                    points.append(("cmp", fnode.name, n))
                if isinstance(n, ast.If) and isinstance(n.test, ast.UnaryOp) and isinstance(n.test.op, ast.Not):
                    points.append(("not", fnode.name, n))
                if isinstance(n, ast.BoolOp):
                    points.append(("bool", fnode.name, n))
                if isinstance(n, ast.Expr) and isinstance(n.value, ast.Call) and isinstance(n.value.func, ast.Attribute) and n.value.func.attr in MUT_CALLS:
                    points.append(("delcall", fnode.name, n))
                if isinstance(n, ast.Assign) and len(n.targets) == 1 and isinstance(n.targets[0], ast.Subscript) and isinstance(n.targets[0].slice, ast.Constant) \
                        and isinstance(n.targets[0].slice.value, str):
                    points.append(("delstore", fnode.name, n))
                if isinstance(n, ast.Constant) and isinstance(n.value, bool):
                    points.append(("flip", fnode.name, n))
                if isinstance(n, (ast.If, ast.While)) and "debug" not in ast.unparse(n.test) and "DEBUG" not in ast.unparse(n.test) \
                        and not (isinstance(n.test, ast.Constant)):
                    points.append(("iftrue", fnode.name, n))
                    if isinstance(n, ast.If):
                        points.append(("iffalse", fnode.name, n))
        seen = set()
        points = [p_ for p_ in points if p_[0] in ("iftrue", "iffalse")]
        for kind, fname, node in points:
            key = (kind, id(node))
            if key in seen:
                continue
            seen.add(key)
            # apply in place, unparse, undo
            undo = None
            if kind == "cmp":
                old = node.ops[0]; node.ops[0] = SWAP[type(old)](); undo = lambda: node.ops.__setitem__(0, old)
            elif kind == "not":
                old = node.test; node.test = old.operand; undo = lambda: setattr(node, "test", old)
            elif kind == "bool":
                old = node.op; node.op = ast.Or() if isinstance(old, ast.And) else ast.And(); undo = lambda: setattr(node, "op", old)
            elif kind in ("delcall", "delstore"):
                oldv = node.value
                if kind == "delcall":
                    node.value = ast.Constant(None); undo = lambda: setattr(node, "value", oldv)
                else:
                    tg = node.targets; node.targets = [ast.Name("_mut_unused", ast.Store())]; undo = lambda: setattr(node, "targets", tg)
            elif kind == "flip":
                oldv = node.value; node.value = not oldv; undo = lambda: setattr(node, "value", oldv)
            elif kind in ("iftrue", "iffalse"):
                if isinstance(node, ast.While) and kind == "iftrue":
                    continue
                oldt = node.test; node.test = ast.Constant(kind == "iftrue"); undo = (lambda node=node, oldt=oldt: setattr(node, "test", oldt))
            new = ast.unparse(tree)
            undo()
            if new == base:
                continue
            # diff against the *unparsed base* would not apply to the real file: write full replacement diff against the real source
            a = src.splitlines(keepends=True)
            b = (new + "\n").splitlines(keepends=True)
            # keep the file formatted as unparse output, but diff only contains one logical change plus formatting; to stay
            # minimal, diff base-unparsed vs new-unparsed and record which file is to be replaced by unparse first
            d = "".join(difflib.unified_diff((base + "\n").splitlines(keepends=True), b, f"a/{rel}", f"b/{rel}", n=2))
            h = hashlib.md5(d.encode()).hexdigest()[:10]
            mid = f"{kind}-{os.path.basename(rel)[:-3]}-{fname}-{getattr(node, 'lineno', 0)}-{h}"
            open(f"{OUT}/{mid}.diff", "w").write(d)
            n_total += 1
print(n_total)
