#!/venv/bin/python
"""usage: fill_seed_meta.py [prefix]  -- runs balmlint on /repo + each seeded/<prefix>*/patch.diff and records the rules
that fire as `expected_rules` (status caught / undetected). Existing `obsolete` entries are left alone."""
import json
import multiprocessing as mp
import sys
from pathlib import Path

sys.path.insert(0, str(Path(__file__).resolve().parent.parent))
from balmlint import selftest  # noqa: E402


def main() -> int:
    root = Path("/verif/seeded")
    pre = sys.argv[1] if len(sys.argv) > 1 else "R2-"
    dirs = [d for d in sorted(root.iterdir()) if d.name.startswith(pre) and (d / "patch.diff").exists()]
    vs = [{"id": d.name, "kind": "break", "patch": str(d / "patch.diff"), "rules": ["C00-X"], "props": selftest.implemented()} for d in dirs]
    with mp.Pool(16) as pool:
        res = pool.map(selftest.run_variant, [(v, "/repo") for v in vs], chunksize=1)
    for d, r in zip(dirs, res):
        m = json.loads((d / "meta.json").read_text())
        if str(m.get("status", "")).startswith("obsolete"):
            continue
        fired = r.get("fired", [])
        if r["status"] == "STALE" or (r["status"] == "ERROR" and not fired):
            print(d.name, r["status"], r.get("detail", "")[:200])
            continue
        if r["status"] == "ERROR":
            # other rule sets lose an anchor on this change (they stop with an analysis error); the rules that do decide it
            # are recorded, the variant is replayed against their properties only
            m["also"] = "rule sets of other properties stop with an analysis error on this change (anchor or instance floor): " + \
                r.get("detail", "")[:300]
        m["expected_rules"] = fired
        m["props"] = sorted({x.split("-")[0] for x in fired}) or [m["property"]]
        own = m["property"] in m["props"]
        m["status"] = "caught" if fired else "undetected"
        if fired and not own:
            m["status"] = "caught (by rules of " + ", ".join(m["props"]) + ", which the change breaks as well; no rule of " + m["property"] + " fires)"
        (d / "meta.json").write_text(json.dumps(m, indent=1))
        print(d.name, m["status"][:40], fired)
    return 0


if __name__ == "__main__":
    sys.exit(main())
