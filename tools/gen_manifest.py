#!/usr/bin/env python3
"""Regenerates MANIFEST.json from the table below (keeps the manifest valid at all times)."""
import importlib
import json
import sys
from pathlib import Path

V = Path(__file__).resolve().parent.parent
sys.path.insert(0, str(V))

PY = "/venv/bin/python"

# property -> (technique, level text, level note, design ref)
CLAIMS = {}
NOT_APPLICABLE = {}


def claim(pid, technique, text, note, ref):
    CLAIMS[pid] = (technique, text, note, ref)


def na(pid, reason):
    NOT_APPLICABLE[pid] = reason


exec((V / "tools" / "claims.py").read_text())

checks = []
for pid in sorted(CLAIMS):
    technique, text, note, ref = CLAIMS[pid]
    checks.append({
        "property_id": pid,
        "quick_cmd": f"{PY} -m balmlint check {pid}",
        "thorough_cmd": f"{PY} -m balmlint check {pid} --thorough",
        "evidence_file": f"/verif/evidence/{pid}.json",
        "replay_cmd_template": f"{PY} -m balmlint check {pid} --no-evidence  # report: {{path}}",
        "engine": "balmlint",
        "level_claimed": {"category": "other", "text": text, "design_ref": ref},
        "level_note": note,
        "technique": technique,
    })

all_ids = [json.loads(l)["id"] for l in (V / "properties.jsonl").read_text().splitlines() if l.strip()]
for pid in all_ids:
    if pid not in CLAIMS and pid not in NOT_APPLICABLE:
        NOT_APPLICABLE[pid] = "no rule set implemented yet for this property in the static-analysis engine (work in progress)"

manifest = {
    "version": 1,
    "setup_cmd": f"{PY} -m compileall -q balmlint && {PY} -m balmlint.fixtures",
    "hooks": {
        "guard": "BIOBALM_VERIF",
        "enable": "none: static analysis reads /repo's source; no hook or instrumentation exists in /repo",
        "baseline_off_cmd": "cd /repo && /venv/bin/python -m pytest -ra -q -p no:cacheprovider --timeout=900 --continue-on-collection-errors",
        "source_commits": [],
        "add_only": True,
    },
    "engines": [{
        "name": "balmlint",
        "path": "/verif/balmlint",
        "serves_properties": sorted(CLAIMS),
        "kind_free_text": "repository-specific static analyser (ast + hand-built CFG with branch-edge nodes, dominators, "
                          "reaching definitions, versioned node handles, heap-write and may-raise summaries, guard "
                          "formulas decided by enumeration of truth values / integer orderings); never imports or runs biobalm",
    }],
    "checks": checks,
    "not_applicable": [{"property_id": p, "reason": r} for p, r in sorted(NOT_APPLICABLE.items())],
    "notes": "All checks are static: they parse /repo's working tree on every run. Exit 0 = all obligations discharged; "
             "exit 1 + VIOLATION lines = a rule instance is violated; exit 2 + ANALYSIS-ERROR = the analyser cannot decide "
             "(unparsable source, vanished anchor). Genuine defects found on the pinned tree were repaired by `fix:` "
             "commits in /repo and are listed as fixed in known_findings.json.",
}
(V / "MANIFEST.json").write_text(json.dumps(manifest, indent=1) + "\n")
print(f"MANIFEST.json: {len(checks)} checks, {len(manifest['not_applicable'])} not applicable")
