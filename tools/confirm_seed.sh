#!/bin/bash
# usage: confirm_seed.sh <diff> <demo.py>   -- confirms a seeded change in a scratch worktree of /repo (never in /repo)
set -u
DIFF=$1; DEMO=$2
WT=$(mktemp -d /tmp/confirm_wt_XXXX)
git -C /repo worktree add -q --detach "$WT" HEAD || exit 3
cleanup() { git -C /repo worktree remove --force "$WT" >/dev/null 2>&1; rm -rf "$WT"; }
trap cleanup EXIT
cd "$WT"
echo "== demo on clean tree (expect pass)"
timeout 900 /venv/bin/python "$DEMO" >/tmp/confirm_clean.log 2>&1; C=$?; tail -2 /tmp/confirm_clean.log; echo "exit=$C"
git apply "$DIFF" || { echo "PATCH DOES NOT APPLY"; exit 3; }
echo "== demo with change (expect fail)"
timeout 900 /venv/bin/python "$DEMO" >/tmp/confirm_changed.log 2>&1; X=$?; tail -2 /tmp/confirm_changed.log; echo "exit=$X"
echo "== test suite with change (expect 130 passed, 1 failed)"
/venv/bin/python -m pytest -q -p no:cacheprovider -n 8 --timeout=900 2>&1 | tail -2
echo "== balmlint on the changed tree"
cd /verif && /venv/bin/python -m balmlint all --no-evidence --repo "$WT" 2>&1 | grep -E "^\s+/|ANALYSIS-ERROR" | sed "s#$WT##" | cut -c1-260
echo "SUMMARY clean_exit=$C changed_exit=$X"
