#!/venv/bin/python
"""prints the markdown tables of /verif/redteam for DESIGN.md"""
import json
from pathlib import Path

rd = Path(__file__).resolve().parent.parent / "redteam"
ev, no = [], []
for d in sorted(rd.iterdir()):
    m = d / "meta.json"
    if not m.exists():
        continue
    j = json.loads(m.read_text())
    (ev if j["kind"] == "evade" else no).append(j)
print("| item | what was changed (first words of the author's note) | caught by |")
print("|---|---|---|")
for j in ev:
    s = j["summary"].split("--", 1)[-1].strip() if "--" in j["summary"][:40] else j["summary"]
    print(f"| {j['id']} | {s[:110].replace('|', '/')} | {', '.join(j.get('expected_rules', [])) or '— (undetected, see below)'} |")
print()
print(f"evasions: {len(ev)}, caught now: {sum(1 for j in ev if j.get('expected_rules'))}")
print(f"refactorings: {len(no)}, silent now: {sum(1 for j in no if j['status'] == 'silent')}")
for j in no:
    if j["status"] != "silent":
        print("  still reported:", j["id"], j.get("reported"))
