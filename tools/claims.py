# Executed by gen_manifest.py: claim(id, technique, level text, level note, design ref) / na(id, reason)

claim("C14",
      "typestate analysis on CFG paths with versioned node handles (reset-on-growth), def-use provenance of cache stores",
      "Decides, for every path of every function of the package, that a node which gains a successor has its cached "
      "seeds/sets discarded (or was already expanded), that every value written into the attractor caches was computed "
      "for that same node, and that seeds replace candidates only when known. This is the second sentence of the "
      "property as a path property of the code; it holds for all inputs and histories because it holds on all paths.",
      "Assumes node attribute dicts are only reached via node_data()/dag.nodes[]; value-level exactness of the cached "
      "data is C01/C08. Exceptional exits are handled under C15.",
      "DESIGN.md §3 C14")

na("C18", "every clause equates results of separate runs on different networks (products of attractor sets, isomorphism "
          "with a sub-diagram, agreement with AEON on a model collection); no construct in the code carries the property, "
          "so no sound static rule exists. The one structural precondition (sub-diagrams over backward-closed variable "
          "sets) is decided under C01.")
