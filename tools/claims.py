# Executed by gen_manifest.py: claim(id, technique, level text, level note, design ref) / na(id, reason)

claim("C14",
      "typestate analysis on CFG paths with versioned node handles (reset-on-growth), def-use provenance of cache stores",
      "Decides, for every path of every function of the package, that a node which gains a successor has its cached "
      "seeds, sets and candidates discarded (or was already expanded), that every value written into the attractor caches was computed "
      "for that same node, that nothing computes and caches such data between the reset and the growth, and that seeds "
      "replace candidates only when known. This is the second sentence of the "
      "property as a path property of the code; it holds for all inputs and histories because it holds on all paths.",
      "Assumes node attribute dicts are only reached via node_data()/dag.nodes[]; value-level exactness of the cached "
      "data is C01/C08. Exceptional exits are handled under C15.",
      "DESIGN.md §3 C14")

na("C18", "every clause equates results of separate runs on different networks (products of attractor sets, isomorphism "
          "with a sub-diagram, agreement with AEON on a model collection); no construct in the code carries the property, "
          "so no sound static rule exists. The one structural precondition (sub-diagrams over backward-closed variable "
          "sets) is decided under C01.")

claim("C04",
      "typestate analysis of the expanded flag against edge creation on CFG paths (must-pass-through, dominance), "
      "dedupe guard and key provenance at node creation, def-use provenance of the successor list",
      "Decides on every path of every function that can add an edge: a node that gains a successor is finalised "
      "(expanded=True on the same handle) and was tested unexpanded; the flag is only ever raised; nothing is removed; "
      "a node is created only after a failed lookup of the key of its percolated space and is registered under it; the "
      "single-node expansion feeds the complete solver result for that node, unfiltered, into child creation; the plain "
      "strategies and node_successors grow the diagram through that expansion only and never ask for skip nodes. These are "
      "the invariants 'expanded => all successors, unexpanded => none, one node per trap space' as path properties.",
      "Does not decide that a continued full expansion equals a fresh one as values (follows from these invariants plus "
      "solver determinism, C19/C09). The source-SCC root shortcut is exempt from the not-yet-expanded rule (fresh diagrams only).",
      "DESIGN.md §3 C04")

claim("C15",
      "window analysis on the CFG between edge creation and finalisation using interprocedural may-raise and "
      "solver-reachability summaries (specialised on constant Boolean arguments); path conditions of limit returns "
      "decided by truth tables; completeness of the expanded successor list by enumeration of integer orderings",
      "Decides that no RuntimeError (limit errors, solver failures) can escape between the first edge of a batch and the "
      "node's finalisation, that limit errors are raised before any irreversible heap effect, that every return under a "
      "limit test returns False with the pending node known unexpanded, that abandoned work clears the returned flag, "
      "that failed candidate searches never justify an 'attractor-free' mark, that a truncated successor list cannot "
      "reach child creation or an expanded mark, that a node is marked expanded without enumeration only when its space "
      "fixes every variable, and that no handler absorbs a RuntimeError (it raises again, or is one of four reviewed "
      "handlers that turn the failure into an answer which claims nothing).",
      "Exceptions other than RuntimeError (KeyError from API misuse, assertions) are outside the rule; equality of a "
      "resumed run with an uninterrupted one as values is not decided (follows from C04 + C19).",
      "DESIGN.md §3 C15")

claim("C16",
      "set comparison of persisted/declared/restored state keys, definite assignment of slots on all CFG paths, "
      "provenance (text-normal-form summary) of self.network on constructor and deserialiser paths, reclaim table "
      "against recompute-on-demand accessors, path-enumerated None-safety of reclaimable fields",
      "Decides the structural preconditions of transparency: nothing persisted is dropped or restored from the wrong "
      "source, index-sensitive persisted data (node_indices) refers to a network in the same variable order before and "
      "after a round trip (the network object is persisted and the text parser runs only where it is missing, or the text is "
      "lossless and order-preserving), reclamation only "
      "drops caches that have a recompute path and never a result (known attractors, structure), every reader of "
      "reclaimable data tolerates None or is preceded by a computing access, and a reclaimable value is read only by its own "
      "accessor or where its presence provably does not change what is computed (history independence).",
      "Does not decide that pickle preserves third-party objects or that later answers are equal as values.",
      "DESIGN.md §3 C16")

claim("C20",
      "structural rules over the metadata code: depth stores and their guards (numeric truth tables), must-pass-through "
      "of the depth update after add_edge, recursion to dag.successors, iteration domains and guard equivalence of the id "
      "iterators / comparators / aggregators, constant extraction for the key arithmetic",
      "Decides depth closure (never lowered, parent+1, propagated to existing successors, updated after every new edge), "
      "id contiguity, find_node's lookup discipline and injectivity of the space key, that is_subgraph compares every "
      "node and every expanded node's edges and is_isomorphic both directions, and that build/summary aggregate only "
      "expanded nodes and label by node_is_minimal.",
      "networkx semantics of add_edge/successors assumed; exactly-once listing additionally needs C01/C14.",
      "DESIGN.md §3 C20")

claim("C01",
      "def-use and path analysis of the symbolic seed loop (avoid-set protocol), truth-table implication of shortcut guards, "
      "provenance of attractor-free marks and of sub-diagram variable sets, pruning-guard engine",
      "Decides necessary structural conditions of 'one seed per attractor': seeds are full states; the exact filter subtracts "
      "the current candidate before its test and unites every accepted closure into the avoid set; unchecked shortcuts are "
      "taken only under their sound guards; every 'no attractor here' mark is backed by the source shortcut or by an "
      "emptiness test of the corresponding sub-diagram node; sub-diagrams are built over regulator-closed sets and, where kept, keyed by the node they were made for; refuted "
      "candidates leave the avoid set; nodes with "
      "partial successor sets must be marked attractor-free (S7 reports the known defect F12 of the source-SCC expansion).",
      "The mathematics of the NFVS reduction, of the clean-block and SCC arguments and AEON's reachability are assumed; the "
      "behaviour itself (equality with the network's attractors) is not decided.",
      "DESIGN.md §3 C01")

claim("C02",
      "shared engines of C04 (node identity, successor protocol) plus must-pass-through and guard analysis of the edge/motif bookkeeping",
      "Decides that nodes are created only for percolated spaces not yet present (key and stored space from the same value), "
      "that single-node expansion feeds the complete maximal-trap-space enumeration of the node into child creation, and that "
      "every stable motif leading to a child is recorded on the edge and returned (reduced by exactly the parent's fixed variables).",
      "That the siphon encoding enumerates exactly the maximal trap spaces and that AEON's percolation is right is assumed (C09, C11).",
      "DESIGN.md §3 C02")

claim("C03",
      "pruning-guard rule: path conditions of every way a successor can leave the work list unscheduled, decided by truth "
      "tables against the driver's permitted reasons; provenance of skip-edge trap lists; block-choice comparison",
      "Decides for all six drivers that a successor / node is dropped only for a permitted reason (seen; no uncovered minimal "
      "trap below the current node; empty constant-limit probe; disjoint from or strictly inside the target; already expanded), "
      "that skip edges lead to every minimal trap space inside the skipped node, that the nodes created for those trap spaces are "
      "closed (marked expanded), that a skipping call reporting success has closed its node and that the `skipped` flag "
      "accompanies the skip edges, that a node is declared minimal only on the "
      "evidence `minimal traps == [its own space]`, that block choice drops a block iff a strict sub-block exists, that a "
      "driver returns True only after its work list is exhausted, that no expansion needed for completeness is the operand "
      "of an assert, and that the public expansion methods return the result of the strategy run on the diagram itself.",
      "Independence of minimal blocks and the SCC sequencing argument are assumed.",
      "DESIGN.md §3 C03")

claim("C05",
      "provenance analysis of everything subtracted from a node's search region (candidate computation and symbolic fallback), shared skip-edge rule",
      "Decides that only a node's own successors ever bound its attractor search (the unsound skip-node reduction, defect "
      "F13, is reported by this rule and was repaired), that skip edges reach every minimal trap space inside the node, and "
      "that skip nodes are flagged skipped and expanded and the nodes of their minimal trap spaces are closed.",
      "Duplicates between overlapping skip nodes are allowed by the property; exactly-once without motif-avoidant attractors "
      "follows from C03-K + C08 and is not decided separately.",
      "DESIGN.md §3 C05")

claim("C06",
      "dominance of the acceptance test over every reported driver set with def-use of the percolated space; must-pass-through "
      "of the accumulation; truth-table equivalence of the end-node predicate",
      "Decides that a driver set is reported only if the step's full motif is contained in percolate_space(driver | already "
      "fixed) of that very set, that each step's percolation is accumulated for the next, and that end nodes are exactly the "
      "nodes that do not reach a 'hot' node (themselves included), hot = not consistent or (not goal and minimal), with the "
      "reachability computed by a recognised complete construction (descendant map, ancestor closure, reverse topological "
      "or iterated sweep -- not a single sweep in id order).",
      "That LDOI containment forces the dynamics is the theorem behind the method; attractors of the overridden network are not computed.",
      "DESIGN.md §3 C06")

claim("C07",
      "guard equivalences (truth tables) in the driver search and result filter, argument-mutation analysis, pruning-guard "
      "engine for the target-directed expansion, shape of the path/motif enumeration",
      "Decides that forbidden drivers and the size bound are honoured in both strategies, that supersets of reported sets are "
      "skipped, that `successful` and the result filter are the stated predicates, that no control function mutates its "
      "caller's arguments, that target-directed expansion leaves a node unexpanded iff it is disjoint from or strictly inside "
      "the target, that the end nodes are classified as in C06-D3, and that successions are the products of reduced motif "
      "lists along all simple paths to the end nodes; the canonical form of an intervention keeps every override of every "
      "step (no container keyed by part of an override, every step stored).",
      "Completeness and minimality as set equalities over run-time values are not decided.",
      "DESIGN.md §3 C07")

claim("C08",
      "provenance of every returned list; completeness of limited enumerations proved by exhaustive enumeration of integer "
      "orderings (path facts + solver contract + loop-carried bounds); drop discipline of the simulation filter",
      "Decides on every path and option combination that returned candidates are full states drawn from a complete "
      "enumeration (or a sound filter of one), that a list enumerated with solution_limit=L is consumed only where len<L "
      "follows, that emptiness is concluded only from complete lists, that enumeration and filters work on the node's own "
      "reduced net and child motifs, that the filters drop a state only when it provably reaches another candidate or a "
      "child, and that every step of a simulated walk updates one variable with its own update function evaluated on the "
      "current state (asynchronous semantics), that the reachability (pint) filter drops a state only on a positive answer "
      "of the tool, and that surviving states are decoded variable by variable and all collected.",
      "The NFVS reduction theorem and clingo's completeness are assumed; the solver contract len<=limit is decided by C09-T3.",
      "DESIGN.md §3 C08")

claim("C09",
      "evaluation of polarity expressions over {0,1} by a small interpreter, AST mirror comparison of the two time "
      "directions, truth-table equivalence of the condition of every emitted clause, limit-contract analysis of the callbacks",
      "Decides encoder/decoder agreement of both encodings (all sites use one polarity convention; the place codec is a "
      "bijection), time-reversal symmetry, that each clause kind is emitted exactly under its condition with unfiltered "
      "ranges, that results never exceed the solution limit (empty for limit <= 0 and only then), and that the caller's request "
      "(enclosing subspace, avoided subspaces, retained set, problem, time direction) reaches the encoder unchanged, on "
      "every path of the two solver entry points (no early exit, no delegation to another entry point).",
      "That the logic programs have the intended models is clingo's semantics and is assumed.",
      "DESIGN.md §3 C09")

claim("C10",
      "structural consistency rules over the encoder: pairing of BDD and direction, arc table evaluated for both directions, "
      "Shannon pairing of cofactor and literal, per-place producer/consumer removal, guard equivalence for free inputs",
      "Decides the internal consistency of the Petri-net encoder and of the two reductions (token moves zero->one for 'up', "
      "read arcs on the place of the literal's value, each place tested against itself when transitions of a fixed variable "
      "are removed, free inputs become constants iff the space mentions them, every clause object handed up the recursion "
      "has one owner, a node's reduced net/network is the restriction to its own space whichever base it starts from).",
      "Equality of the encoded transition relation with the update functions on all states is not decided (needs BDD evaluation).",
      "DESIGN.md §3 C10")

claim("C11",
      "delegation integrity of percolate_space; guard equivalence and removal discipline of the strict propagation loop; case "
      "table of function_eval; direction of the single-driver test",
      "Decides that AEON's percolation is returned unfiltered, that strict percolation never overwrites a given value, removes "
      "constants first, keeps undetermined variables as candidates and re-runs after every new value, and that the single-node "
      "LDOI / driver queries use exactly that percolation in the right direction, and that percolation_conflicts reports "
      "the variables whose update function, evaluated in the percolated space the flag selects, is determined and differs. "
      "A propagation loop of another shape is "
      "answered with 'cannot decide' (exit 2), not with a violation.",
      "That the result is the least fixed point is AEON's responsibility / a property of run-time values.",
      "DESIGN.md §3 C11")

claim("C12",
      "def-use chain of every returned set (closure -> transfer_from -> intersect), pairing analysis of seed/set recording, "
      "closure conditions of the reachability test (iteration domain and skip guards)",
      "Decides that returned sets are the closures transferred from the very reduced graph they were computed on and "
      "restricted to the node space, that seeds and sets are recorded pairwise in one order and neither list is re-ordered "
      "on its own afterwards, that sets are recomputed from "
      "the node's own seeds in the order given, that the reachability test returns only after saturating every variable that has "
      "an enabled step, that every growth of the reach or avoid set re-arms its fixpoint loop, and that a forward step which "
      "is possible but declined is remembered and taken later; each flag-controlled fixpoint loop of the test is entered and "
      "a round that enlarges a state set asks for another round (the returned set is closed); the sets of a node are computed "
      "whenever it has a seed.",
      "Equality with the true attractor relies on AEON; agreement of the fallback as sets is not decided.",
      "DESIGN.md §3 C12")

claim("C13",
      "termination-witness recognisers over every loop and call-graph cycle (graph search on the loop-body CFG after deleting "
      "progress statements; path enumeration for seen-set freshness; provenance for level descent)",
      "Decides that every for/while loop and every recursion cycle of the package has a structural ranking argument "
      "(bounded iterable, shrinking container, level or stack worklist with seen set / expanded guard / descent, "
      "flag-controlled fixpoint whose flag is only cleared together with progress, geometric budget, growing retry key, "
      "recursion on a strict sub-problem); a loop without witness is reported.",
      "Finite node sets, acyclicity of the diagram and returning external calls are assumed; no bound on the amount of work is derived.",
      "DESIGN.md §3 C13")

claim("C17",
      "comparison of the two regular expressions as syntax trees (character classes must be ASCII complements), structural "
      "rules on renaming and place prefixes, provenance of explicit symbolic contexts",
      "Decides only the clause 'name sanitization produces distinct, solver-safe names' and structural preconditions: "
      "index hygiene (a Petri net is never built with a symbolic context of a differently ordered network object; the keys "
      "of a diagram's node index are only ever used with the network they were computed for, never looked up in another "
      "diagram's index) and 'decisions go through BDDs, not syntax' (no inspection of the syntax tree of an update function "
      "anywhere).",
      "Isomorphism of diagrams under renaming, reordering, re-encoding or other file formats compares run-time results of "
      "transformed inputs and is NOT decided by this check.",
      "DESIGN.md §3 C17")

claim("C19",
      "order-taint analysis of set iteration (commutativity of loop bodies, interprocedural flow into the canonicalising "
      "constructor), canonical-order rules for id-assigning loops, constant-seed and shared-state rules",
      "Decides that no hash-seed dependent iteration order, unseeded randomness, module-level, class-level, closure-held "
      "(memo tables behind decorators) or default-argument shared "
      "state or shared configuration object can reach node ids, seeds or interventions, that ids are assigned in "
      "canonical (sorted) orders, and that the canonical sorts are total (no key that leaves ties in arrival order).",
      "clingo and AEON are assumed deterministic for identical call sequences; dict insertion order is not treated as a result.",
      "DESIGN.md §3 C19")
