# Executed by gen_manifest.py: claim(id, technique, level text, level note, design ref) / na(id, reason)

claim("C14",
      "typestate analysis on CFG paths with versioned node handles (reset-on-growth), def-use provenance of cache stores",
      "Decides, for every path of every function of the package, that a node which gains a successor has its cached "
      "seeds/sets discarded (or was already expanded), that every value written into the attractor caches was computed "
      "for that same node, and that seeds replace candidates only when known. This is the second sentence of the "
      "property as a path property of the code; it holds for all inputs and histories because it holds on all paths.",
      "Assumes node attribute dicts are only reached via node_data()/dag.nodes[]; value-level exactness of the cached "
      "data is C01/C08. Exceptional exits are handled under C15.",
      "DESIGN.md §3 C14")

na("C18", "every clause equates results of separate runs on different networks (products of attractor sets, isomorphism "
          "with a sub-diagram, agreement with AEON on a model collection); no construct in the code carries the property, "
          "so no sound static rule exists. The one structural precondition (sub-diagrams over backward-closed variable "
          "sets) is decided under C01.")

claim("C04",
      "typestate analysis of the expanded flag against edge creation on CFG paths (must-pass-through, dominance), "
      "dedupe guard and key provenance at node creation, def-use provenance of the successor list",
      "Decides on every path of every function that can add an edge: a node that gains a successor is finalised "
      "(expanded=True on the same handle) and was tested unexpanded; the flag is only ever raised; nothing is removed; "
      "a node is created only after a failed lookup of the key of its percolated space and is registered under it; the "
      "single-node expansion feeds the complete solver result for that node, unfiltered, into child creation. These are "
      "the invariants 'expanded => all successors, unexpanded => none, one node per trap space' as path properties.",
      "Does not decide that a continued full expansion equals a fresh one as values (follows from these invariants plus "
      "solver determinism, C19/C09). The source-SCC root shortcut is exempt from the not-yet-expanded rule (fresh diagrams only).",
      "DESIGN.md §3 C04")

claim("C15",
      "window analysis on the CFG between edge creation and finalisation using interprocedural may-raise and "
      "solver-reachability summaries (specialised on constant Boolean arguments); path conditions of limit returns "
      "decided by truth tables; completeness of the expanded successor list by enumeration of integer orderings",
      "Decides that no RuntimeError (limit errors, solver failures) can escape between the first edge of a batch and the "
      "node's finalisation, that limit errors are raised before any irreversible heap effect, that every return under a "
      "limit test returns False with the pending node known unexpanded, that abandoned work clears the returned flag, "
      "that failed candidate searches never justify an 'attractor-free' mark, and that a truncated successor list cannot "
      "reach child creation.",
      "Exceptions other than RuntimeError (KeyError from API misuse, assertions) are outside the rule; equality of a "
      "resumed run with an uninterrupted one as values is not decided (follows from C04 + C19).",
      "DESIGN.md §3 C15")

claim("C16",
      "set comparison of persisted/declared/restored state keys, definite assignment of slots on all CFG paths, "
      "provenance (text-normal-form summary) of self.network on constructor and deserialiser paths, reclaim table "
      "against recompute-on-demand accessors, path-enumerated None-safety of reclaimable fields",
      "Decides the structural preconditions of transparency: nothing persisted is dropped or restored from the wrong "
      "source, index-sensitive persisted data (node_indices) refers to a network in the same variable order before and "
      "after a round trip, reclamation only drops data that has a recompute path, and every reader of reclaimable data "
      "tolerates None or is preceded by a computing access.",
      "Does not decide that pickle preserves third-party objects or that later answers are equal as values.",
      "DESIGN.md §3 C16")

claim("C20",
      "structural rules over the metadata code: depth stores and their guards (numeric truth tables), must-pass-through "
      "of the depth update after add_edge, recursion to dag.successors, iteration domains and guard equivalence of the id "
      "iterators / comparators / aggregators, constant extraction for the key arithmetic",
      "Decides depth closure (never lowered, parent+1, propagated to existing successors, updated after every new edge), "
      "id contiguity, find_node's lookup discipline and injectivity of the space key, that is_subgraph compares every "
      "node and every expanded node's edges and is_isomorphic both directions, and that build/summary aggregate only "
      "expanded nodes and label by node_is_minimal.",
      "networkx semantics of add_edge/successors assumed; exactly-once listing additionally needs C01/C14.",
      "DESIGN.md §3 C20")
