#!/venv/bin/python
"""usage: import_redteam.py <red_out dir> <confirm log> [target dir under /verif, default redteam]  -- copies the white-box round into /verif/redteam/<id>/ and records
what the current checker says about each item (the checker is run here, on scratch copies of /repo + patch).

<confirm log>: lines `<id> clean=<rc> changed=<rc> suite=[...]` written by the confirmation script (demo on a clean
worktree / on the changed one, and the baseline suite on the changed one). Evasions that are not confirmed are not imported.
"""
import json
import multiprocessing as mp
import re
import shutil
import sys
from pathlib import Path

sys.path.insert(0, str(Path(__file__).resolve().parent.parent))
from balmlint import selftest  # noqa: E402

VERIF = Path(__file__).resolve().parent.parent


def main() -> int:
    src = Path(sys.argv[1])
    confirm = {}
    if len(sys.argv) > 2 and Path(sys.argv[2]).exists():
        for line in Path(sys.argv[2]).read_text().splitlines():
            m = re.match(r"^(\S+) clean=(\d+) changed=(\d+) suite=\[(.*)\]", line)
            if m:
                confirm[m.group(1)] = {"clean": int(m.group(2)), "changed": int(m.group(3)), "suite": m.group(4)}
    items = [d for d in sorted(src.iterdir()) if re.match(r"^C\d\d-(evade|noise)-\d+$", d.name) and (d / "patch.diff").exists()]
    vs = []
    for d in items:
        kind = "evade" if "-evade-" in d.name else "noise"
        if kind == "evade":
            vs.append({"id": d.name, "kind": "break", "patch": str(d / "patch.diff"), "rules": ["C00-X"], "props": selftest.implemented()})
        else:
            vs.append({"id": d.name, "kind": "benign", "patch": str(d / "patch.diff")})
    with mp.Pool(16) as pool:
        res = pool.map(selftest.run_variant, [(v, "/repo") for v in vs], chunksize=1)
    out = VERIF / (sys.argv[3] if len(sys.argv) > 3 else "redteam")
    out.mkdir(exist_ok=True)
    n = 0
    for d, r in zip(items, res):
        kind = "evade" if "-evade-" in d.name else "noise"
        prop = d.name.split("-")[0]
        fired = sorted(set(r.get("fired") or []))
        note = (d / "note.txt").read_text() if (d / "note.txt").exists() else ""
        summary = " ".join(note.split())[:300]
        meta = {"id": d.name, "kind": kind, "property": prop, "summary": summary,
                "origin": "white-box round: a sub-agent with the property text, a scratch worktree and black-box access to a frozen "
                          "copy of the checker"}
        if kind == "evade":
            c = confirm.get(d.name)
            if not c or c["clean"] != 0 or c["changed"] == 0 or "130 passed" not in c["suite"]:
                print(d.name, "NOT CONFIRMED", c)
                continue
            meta["confirmed"] = f"demo exits {c['clean']} on a clean worktree of /repo and {c['changed']} with the change; suite with the change: {c['suite']}"
            if r["status"] in ("STALE", "ERROR") and not fired:
                print(d.name, r["status"], r.get("detail", "")[:200])
            meta["status"] = "caught" if fired else "undetected"
            if fired:
                # the rules of the item's own property first; all others are by-catch
                meta["expected_rules"] = fired
                meta["props"] = sorted({x.split("-")[0] for x in fired})
        else:
            meta["status"] = "silent" if r["status"] == "SILENT" else "noisy"
            if meta["status"] == "noisy":
                meta["reported"] = fired or sorted({w.split(" @ ")[0] for w in r.get("where", [])}) or [r["status"]]
        t = out / d.name
        t.mkdir(exist_ok=True)
        shutil.copy(d / "patch.diff", t / "patch.diff")
        for f in ("note.txt", "demo.py"):
            if (d / f).exists():
                shutil.copy(d / f, t / f)
        (t / "meta.json").write_text(json.dumps(meta, indent=1))
        n += 1
        print(d.name, meta["status"], fired if kind == "evade" or meta["status"] == "noisy" else "")
    print(json.dumps({"imported": n}))
    return 0


if __name__ == "__main__":
    sys.exit(main())
